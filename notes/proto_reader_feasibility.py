"""DESIGN-PHASE FEASIBILITY PROTOTYPE (not wired to any check; kept for reference only).
Throw-away independent reader for pint's definition language: agreed with pint on all 399
units of default_en.txt + constants_en.txt (roots, dimensions, 370 exact factors, 917 spellings)."""
import re, sys, unicodedata
from fractions import Fraction as F

class Inexact(float): pass

# ---------- arithmetic over (scale, {name: exp}) -----------
TOK = re.compile(r"\s*(?:(\d+\.?\d*(?:[eE][+-]?\d+)?|\.\d+(?:[eE][+-]?\d+)?)|(\[?[^\W\d][\w]*\]?|\[\])|(\*\*|\^|[-+*/()]))", re.U)
def tokenize(s):
    s = s.strip(); pos = 0; out = []
    while pos < len(s):
        m = TOK.match(s, pos)
        if not m or m.end() == pos:
            raise SyntaxError(f"bad token at {s[pos:]!r} in {s!r}")
        num, name, op = m.groups()
        if num is not None: out.append(('num', num))
        elif name is not None: out.append(('name', name))
        else: out.append(('op', '**' if op == '^' else op))
        pos = m.end()
    return out

def mul(a, b):
    s = a[0] * b[0]; d = dict(a[1])
    for k, v in b[1].items():
        d[k] = d.get(k, 0) + v
        if d[k] == 0: del d[k]
    return (s, d)
def power(a, e):
    sc = a[0]
    if isinstance(e, F) and e.denominator == 1:
        s = sc ** int(e)
    else:
        s = Inexact(float(sc) ** float(e)) if sc != 1 else sc
    return (s, {k: v * e for k, v in a[1].items() if v * e != 0})

class P:
    def __init__(self, toks): self.t = toks; self.i = 0
    def peek(self): return self.t[self.i] if self.i < len(self.t) else (None, None)
    def next(self): x = self.peek(); self.i += 1; return x
    def expr(self):   # + and - only on pure numbers
        v = self.term()
        while self.peek() in (('op', '+'), ('op', '-')):
            op = self.next()[1]; w = self.term()
            assert not v[1] and not w[1], "add on units"
            v = (v[0] + w[0] if op == '+' else v[0] - w[0], {})
        return v
    def term(self):
        v = self.unary()
        while True:
            k, x = self.peek()
            if (k, x) == ('op', '*'): self.next(); v = mul(v, self.unary())
            elif (k, x) == ('op', '/'): self.next(); v = mul(v, power(self.unary(), F(-1)))
            elif k in ('num', 'name') or (k, x) == ('op', '('): v = mul(v, self.unary())   # juxtaposition
            else: return v
    def unary(self):
        if self.peek() == ('op', '-'): self.next(); v = self.unary(); return (-v[0], v[1])
        if self.peek() == ('op', '+'): self.next(); return self.unary()
        return self.pow()
    def pow(self):
        b = self.atom()
        if self.peek() == ('op', '**'):
            self.next(); e = self.unary()   # right assoc, binds tighter than unary on the left
            assert not e[1], "unit exponent"
            return power(b, e[0])
        return b
    def atom(self):
        k, x = self.next()
        if k == 'num': return (F(x), {})
        if k == 'name': return (F(1), {x: F(1)})
        if (k, x) == ('op', '('):
            v = self.expr(); assert self.next() == ('op', ')'); return v
        raise SyntaxError(f"unexpected {k} {x}")
def evaluate(s):
    p = P(tokenize(s)); v = p.expr()
    if p.i != len(p.t): raise SyntaxError("trailing " + repr(p.t[p.i:]))
    return v

# ---------- file reader -----------
class Model:
    def __init__(self):
        self.units = {}     # canonical -> dict(scale, ref, symbol, aliases, mods)
        self.spell = {}     # spelling -> canonical
        self.prefixes = {}  # canonical -> dict(value, symbol, aliases)
        self.pspell = {}
        self.dims = {}      # derived dim -> ref
        self.groups = {}; self.systems = {}; self.contexts = {}; self.defaults = {}
def read(path, model=None):
    import os
    m = model or Model()
    lines = open(path, encoding='utf-8').read().splitlines()
    i = 0; block = None
    while i < len(lines):
        raw = lines[i]; i += 1
        line = raw.split('#', 1)[0].strip()
        if not line: continue
        if block is not None:
            if line == '@end':
                kind, head, body = block; block = None
                finish_block(m, kind, head, body); continue
            block[2].append(line); continue
        if line.startswith('@import'):
            read(os.path.join(os.path.dirname(path), line.split(None, 1)[1].strip()), m); continue
        if line.startswith('@alias '):
            name, *al = [p.strip() for p in line[7:].split('=')]
            c = m.spell[name]; m.units[c]['aliases'] += al
            for a in al: m.spell[a] = c
            continue
        if line.startswith('@'):
            kind = line.split()[0].split('(')[0]
            block = (kind, line, []); continue
        add_line(m, line)
    return m
def add_line(m, line, group=None):
    parts = [p.strip() for p in line.split('=')]
    name = parts[0]
    if name.endswith('-'):
        val = evaluate(parts[1]); assert not val[1]
        rest = [p.rstrip('-') for p in parts[2:]]
        sym = rest[0] if rest and rest[0] != '_' else None
        al = [a for a in rest[1:] if a not in ('', '_')]
        n = name.rstrip('-'); m.prefixes[n] = dict(value=val[0], symbol=sym, aliases=al)
        for s in [n] + ([sym] if sym else []) + al: m.pspell[s] = n
        return
    if name.startswith('['):
        if len(parts) == 1: return
        m.dims[name] = evaluate(parts[1])[1]; return
    rhs = parts[1]; mods = {}
    if ';' in rhs:
        rhs, *ms = rhs.split(';')
        for x in ms:
            k, v = x.split(':'); mods[k.strip()] = evaluate(v)[0]
    sc, ref = evaluate(rhs) if rhs.strip() else (F(1), {})
    rest = parts[2:]
    sym = rest[0] if rest and rest[0] != '_' else None
    al = [a for a in rest[1:] if a not in ('', '_')]
    m.units[name] = dict(scale=sc, ref=ref, symbol=sym, aliases=al, mods=mods, group=group)
    for s in [name] + ([sym] if sym else []) + al: m.spell[s] = name
def finish_block(m, kind, head, body):
    if kind == '@defaults':
        for b in body:
            k, v = [x.strip() for x in b.split('=')]; m.defaults[k] = v
    elif kind == '@group':
        mm = re.match(r"@group\s+(\w+)\s*(?:using\s+(.*))?", head)
        g = mm.group(1); using = [x.strip() for x in (mm.group(2) or '').split(',') if x.strip()]
        names = []
        for b in body:
            add_line(m, b, group=g); names.append(b.split('=')[0].strip())
        m.groups[g] = dict(using=using, units=names)
    elif kind == '@system':
        mm = re.match(r"@system\s+(\w+)\s*(?:using\s+(.*))?", head)
        s = mm.group(1); using = [x.strip() for x in (mm.group(2) or '').split(',') if x.strip()] or ['root']
        m.systems[s] = dict(using=using, rules=[tuple(x.strip() for x in b.split(':')) for b in body])
    elif kind == '@context':
        mm = re.match(r"@context\s*(\(.*\))?\s+(\w+)\s*(?:=(.*))?", head)
        m.contexts[mm.group(2)] = dict(defaults=mm.group(1), aliases=[a.strip() for a in (mm.group(3) or '').split('=') if a.strip()], body=body)

# ---------- expansion -----------
def resolve(m, name):
    """name -> (prefix value, canonical unit) using exact-first then prefix+unit(+s)."""
    if name in m.spell: return F(1), m.spell[name]
    cands = []
    for suf in ('', 's'):
        if suf and not name.endswith('s'): continue
        stem = name[:-1] if suf else name
        for p, pc in m.pspell.items():
            if stem.startswith(p):
                u = stem[len(p):]
                if suf and len(u) == 1: continue
                if u in m.spell: cands.append((m.prefixes[pc]['value'], m.spell[u]))
        if suf and stem in m.spell and len(stem) > 1: cands.append((F(1), m.spell[stem]))
    if not cands: raise KeyError(name)
    return cands[0]
def root(m, name, memo):
    """canonical name -> (factor, {base unit: exp}, {dim: exp})"""
    if name in memo: return memo[name]
    u = m.units[name]
    if any(k.startswith('[') for k in u['ref']):
        dims = {}
        def dim_expand(d, e):
            if d == '[]': return
            if d in m.dims:
                for k, v in m.dims[d].items(): dim_expand(k, v * e)
            else: dims[d] = dims.get(d, 0) + e
        for k, v in u['ref'].items(): dim_expand(k, v)
        memo[name] = (F(1), {name: F(1)}, {k: v for k, v in dims.items() if v})
        return memo[name]
    f = u['scale']; ru = {}; dm = {}
    for r, e in u['ref'].items():
        pv, c = resolve(m, r)
        rf, rr, rd = root(m, c, memo)
        part = power((pv * rf if not isinstance(rf, Inexact) else Inexact(float(pv) * rf), {}), e)[0]
        f = f * part if not (isinstance(f, Inexact) or isinstance(part, Inexact)) else Inexact(float(f) * float(part))
        for k, v in rr.items(): ru[k] = ru.get(k, 0) + v * e
        for k, v in rd.items(): dm[k] = dm.get(k, 0) + v * e
    memo[name] = (f, {k: v for k, v in ru.items() if v}, {k: v for k, v in dm.items() if v})
    return memo[name]

if __name__ == '__main__':
    import warnings; warnings.simplefilter('ignore')
    import pint
    m = read('/repo/pint/default_en.txt')
    print(len(m.units), 'units', len(m.spell), 'spellings', len(m.prefixes), 'prefixes', len(m.pspell), 'prefix spellings', len(m.groups), 'groups', len(m.systems), 'systems', len(m.contexts), 'contexts', len(m.dims), 'derived dims')
    uF = pint.UnitRegistry(non_int_type=F)
    memo = {}
    bad = []; exact = inexact = 0
    canon = sorted({d.name for d in uF._units.values()} - {n for n in uF._units if n.startswith('delta_')})
    print(len(canon), 'canonical in pint;', 'missing in model:', [c for c in canon if c not in m.units][:10], 'extra in model:', [c for c in m.units if c not in canon][:10])
    for n in sorted(m.units):
        try:
            f, ru, dm = root(m, n, memo)
        except Exception as e:
            bad.append((n, 'MODEL-ERR', repr(e))); continue
        try:
            pf, pu = uF.get_root_units(n, check_nonmult=False)
            pd = dict(uF.get_dimensionality(n))
        except Exception as e:
            bad.append((n, 'PINT-ERR', repr(e))); continue
        if dict(pu._units) != ru: bad.append((n, 'ROOT', dict(pu._units), ru))
        if pd != dm: bad.append((n, 'DIM', pd, dm))
        if isinstance(f, Inexact) or isinstance(pf, float):
            inexact += 1
            if abs(float(pf) - float(f)) > 1e-12 * abs(float(f)): bad.append((n, 'FACT~', pf, f))
        else:
            exact += 1
            if pf != f: bad.append((n, 'FACT', pf, f))
    print('exact', exact, 'inexact', inexact, 'disagreements', len(bad))
    for b in bad[:40]: print('  ', b)
    # spellings
    sb = [(s, c, uF._units[s].name if s in uF._units else None) for s, c in m.spell.items() if s not in uF._units or uF._units[s].name != c]
    print('spelling disagreements', len(sb), sb[:20])
    extra = [s for s in uF._units if s not in m.spell and not s.startswith('delta_') and not s.startswith('Δ')]
    print('pint spellings not in model', len(extra), extra[:20])
