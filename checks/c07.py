"""C07 — string expressions evaluate like ordinary arithmetic on quantities.

Oracle.  Expression trees over the token alphabet {2, 3, 0.5, m, s, km, percent} and the
operators + - * / // ** unary-minus are evaluated with Python's own operators on
`ureg.Quantity` leaves (numbers as int / the registry's non_int_type).  Each tree is rendered
to several strings that denote it under Python's precedence with juxtaposition == '*'
(harness/c07_lang.py; every rendering is read back by an independent recursive-descent
reader, explicit-operator renderings also by Python's `ast`, before it is trusted) and
`ureg.parse_expression(string)` must give the same outcome: same error class, or same kind
(number / Quantity), same units container, same magnitude type and the same magnitude
(`==`; int/Fraction exact, float 1e-12, Decimal 1e-20 relative, counted as "rounding").
Further workloads: word forms (table driven), numeric literal types, `+/-` uncertainties,
the entry points `ureg(s)`, `Quantity(s)`, `ParserHelper.from_string(s)`; damaged copies of
valid strings (must raise when the independent reader says a parenthesis is unbalanced or an
operator lacks an operand); hostile strings parsed under `sys.addaudithook` +
`sys.setprofile` with a canary directory (no-execution clause).

Deviations from the DESIGN plan (reality required them):
* "exhaustive up to 5 leaves" over the 7-token alphabet is 3.05e8 trees for 5 leaves alone;
  one parse costs ~250 us.  Enumerated completely instead: (a) every tree with <= 3 leaves
  over the full alphabet, with 0 or 1 (thorough: 0..2) unary minus at every node position,
  in all three registries; thorough additionally every 4-leaf tree (2.59e6) in the float
  registry; (b) every *operator skeleton* (shape x operators) with 4 leaves (thorough: 4, 5
  and 6), without and with a unary minus at each node position, each with several leaf
  assignments (all-number ones for sharp values, mixed ones for the lexical cases).
  Trees whose evaluation would need an exponent above 2048 or integers beyond ~3e5 bits are
  enumerated but skipped and counted (`skipped_magnitude`).
* distinct cases are counted by (registry, style, operator-adjacency set, outcome class),
  not by string: tens of millions of strings do not fit the key set.
* in the Decimal / Fraction registries an integer literal is accepted as `int` or as
  `non_int_type` (DESIGN); pint produces `non_int_type` and the int reading is never needed.
* the CPython tokenizer, when it rejects the input (e.g. an unclosed parenthesis), tries to
  `open('<string>', 'rb')` to quote the offending source line.  That audit event has a
  constant argument that no input controls; it is counted (`tokenizer_open_<string>`) and
  reported, not alarmed on (switch TOKENIZER_OPEN_IS_VIOLATION).
* DESIGN's mutant '"unary": 2 -> 4' is equivalent on this language (a '**' never yields to the
  pending operator, whatever its priority); pint's own "unclosed parentheses" test is dead code
  because Python's tokenizer already refuses EOF inside a parenthesis.

Mismatches are attributed by experiment before they are reported, so that the classifier
fields name a mechanism and not a symptom:
* `group-glued-to-operand-is-multiplied-before-neighbouring-operators` — the string contains
  `X(` with no blank and inserting a blank before every such '(' makes pint agree with the tree
  (fields: the unfinished operator left of X, whether a power operator follows the group);
* `unary-minus-evaluated-as-multiplication-by-minus-one` — pint's value equals the tree
  evaluated with `x * -1` in place of `-x` (differs only in the sign of a Decimal zero);
* `separated-plus-slash-minus-read-as-uncertainty-operator` — a damaged string in which '+',
  '/', '-' are separate tokens (not the contiguous '+/-') still evaluates as an uncertainty;
* everything else: `parse-differs-from-tree` with style, features, root operator, adjacency.
"""
from __future__ import annotations

import math
import operator
import os
import random
import re
import shutil
import signal
import sys
import tempfile
import types
from decimal import Decimal
from fractions import Fraction

PID = "C07"
RULE = ("trees over {2,3,0.5,m,s,km,percent} x {+,-,*,/,//,**,unary-}: all trees <=3 leaves with <=1 "
        "(thorough <=2) unary minus, thorough also all 4-leaf trees (float registry); all operator "
        "skeletons with 4 (thorough 4-6) leaves x unary placement x leaf assignments; typed random "
        "trees of 5-12 leaves; each rendered in up to 7 spellings (explicit/dense/fully parenthesised "
        "'^'/juxtaposition/tight juxtaposition + superscripts/tight group/random mix) and compared "
        "with Python-operator evaluation in float, Decimal, Fraction registries; word-form, literal "
        "and uncertainty tables; damaged strings; hostile strings under audit+profile hooks. "
        "distinct = (registry, style, operator-adjacency set, outcome class); non-trivial = tree "
        "has at least one operator")
ASSUMPTIONS = [
    "Python's operators on ureg.Quantity objects are the reference semantics (C03-C06 decide those)",
    "renderer correctness is established at run time by an independent reader + Python's ast "
    "(round-trip failures make the run inconclusive, never a violation)",
    "an integer literal in a Decimal/Fraction registry may be int or non_int_type",
    "open('<string>','rb') raised by CPython's tokenizer error path is benign (constant path)",
    "per-parse watchdog 3 s of CPU time (hostile strings 1.5 s, other tables 20 s); magnitude guard: |exponent| <= 2048, integer results <= 3e5 bits",
]
DEPS = ()
NPARTS = 16
TOKENIZER_OPEN_IS_VIOLATION = False

NIT = {"float": float, "decimal": Decimal, "fraction": Fraction}


def exhaustive(tier):
    return True


_KEEP = []


def required(tier):
    q = tier == "quick"
    return {
        "tree_cases": 400_000 if q else 8_000_000,
        "agree_value": 100_000 if q else 2_000_000,
        "agree_error": 50_000 if q else 1_000_000,
        "adjacency_ok": 91,            # 6 binary x 2 sides x 7 child operators + neg x 7
        "style_features": 6,
        "registries": 3,
        "customised_neighbour_registries": 4,
        "renderer_roundtrips": 400_000 if q else 8_000_000,
        "renderer_ast_checks": 20_000 if q else 400_000,
        "wordform_cases": 2_000 if q else 20_000,
        "literal_cases": 500,
        "superscript_cases": 3_000,
        "superscript_exponents": 24,
        "uncertainty_cases": 300,
        "entrypoint_cases": 10_000 if q else 200_000,
        "parserhelper_cases": 2_000 if q else 40_000,
        "truncations_must_raise": 15_000 if q else 300_000,
        "fuzz_strings": 20_000 if q else 380_000,
        "fuzz_profile_events": 1_000_000,
        "fuzz_families": 7,
        "audit_hook_live": 16,
        "profile_hook_live": 16,
    }


def shards(tier, seed):
    return [{"kind": "slice", "part": i, "parts": NPARTS, "name": f"slice{i:02d}"} for i in range(NPARTS)]


# --------------------------------------------------------------------------------------
# watchdog
# --------------------------------------------------------------------------------------
class ParseTimeout(BaseException):
    pass


class Skip(Exception):
    pass


def _alarm(signum, frame):
    raise ParseTimeout()


def guarded(fn, arg, limit=20.0):
    signal.setitimer(signal.ITIMER_VIRTUAL, limit)
    try:
        return fn(arg)
    finally:
        signal.setitimer(signal.ITIMER_VIRTUAL, 0)


# --------------------------------------------------------------------------------------
# audit / profile monitors
# --------------------------------------------------------------------------------------
PARSER_FUNCS = {
    ("registry.py", "parse_expression"), ("registry.py", "_eval_token"), ("registry.py", "get_name"),
    ("registry.py", "parse_unit_name"), ("registry.py", "_parse_unit_name"),
    ("registry.py", "_yield_unit_triplets"), ("registry.py", "_dedup_candidates"),
    ("registry.py", "get_symbol"), ("registry.py", "_define_op"), ("registry.py", "parse_units"),
    ("util.py", "eval_token"), ("util.py", "from_string"), ("util.py", "from_word"),
    ("util.py", "string_preprocessor"),
}
FORBIDDEN_FILES = {"os.py", "subprocess.py", "shutil.py", "socket.py", "pathlib.py", "runpy.py",
                   "pkgutil.py", "pickle.py", "code.py", "codeop.py", "pdb.py", "bdb.py", "glob.py",
                   "tempfile.py", "webbrowser.py", "ctypes", "imp.py", "zipimport.py", "shelve.py"}


class Watch:
    """Process-wide audit hook (armed only around pint's parse call) + profile function."""

    def __init__(self, registries):
        import builtins
        import io
        self.armed = False
        self.inprof = False
        self.events = []
        self.calls = []
        self.nprof = 0
        self.naudit = 0
        self.regs = list(registries)
        bad = {builtins.eval, builtins.exec, builtins.compile, builtins.__import__, builtins.open,
               io.open, builtins.input, builtins.breakpoint, builtins.globals, builtins.locals,
               builtins.vars}
        for modname in ("posix", "_posixsubprocess", "_imp", "marshal", "_pickle", "_socket", "_ctypes"):
            mod = sys.modules.get(modname)
            if mod is None:
                try:
                    mod = __import__(modname)
                except Exception:  # noqa: BLE001
                    continue
            for v in vars(mod).values():
                if isinstance(v, types.BuiltinFunctionType):
                    bad.add(v)
        self.bad = bad
        self.attr = {builtins.getattr, builtins.setattr, builtins.delattr}
        sys.addaudithook(self._hook)

    def _hook(self, event, args):
        if self.armed and not self.inprof:
            self.naudit += 1
            if event == "builtins.id":
                return
            try:
                a = tuple(x if isinstance(x, (str, int, type(None))) else type(x).__name__ for x in args)[:4]
            except Exception:  # noqa: BLE001
                a = ()
            self.events.append((event, a))

    def prof(self, frame, event, arg):
        if not self.armed:
            return
        self.inprof = True
        try:
            self.nprof += 1
            if event == "c_call":
                if arg in self.bad:
                    code = frame.f_code
                    self.calls.append(("c:" + str(getattr(arg, "__module__", None)) + "." + arg.__name__,
                                       os.path.basename(code.co_filename) + ":" + code.co_name))
                elif arg in self.attr:
                    code = frame.f_code
                    fn = code.co_filename
                    where = (os.path.basename(fn), code.co_name)
                    if fn.endswith("pint_eval.py") or (where in PARSER_FUNCS and "pint" in fn):
                        self.calls.append(("c:builtins." + arg.__name__, where[0] + ":" + where[1]))
            elif event == "call":
                code = frame.f_code
                name = code.co_name
                if name in ("__getattr__", "__getitem__", "__getattribute__", "__dir__"):
                    slf = frame.f_locals.get("self")
                    if any(slf is r for r in self.regs):
                        self.calls.append(("py:registry." + name, "registry-object"))
                elif name == "_find_and_load":
                    self.calls.append(("py:import", str(frame.f_locals.get("name"))))
                else:
                    base = os.path.basename(code.co_filename)
                    if base in FORBIDDEN_FILES or "/ctypes/" in code.co_filename:
                        self.calls.append(("py:" + base + "." + name, "module-function"))
        finally:
            self.inprof = False

    def run(self, fn, s, profile=False, limit=20.0):
        """Parse under the monitors.  Returns (outcome, audit events, forbidden calls)."""
        self.events, self.calls = [], []
        out = None
        signal.setitimer(signal.ITIMER_VIRTUAL, limit)
        try:
            if profile:
                sys.setprofile(self.prof)
            self.armed = True
            try:
                out = ("ok", fn(s))
            finally:
                self.armed = False
                if profile:
                    sys.setprofile(None)
        except ParseTimeout:
            out = ("timeout",)
        except Exception as e:  # noqa: BLE001
            out = ("err", type(e).__name__, e)
        except BaseException as e:  # noqa: BLE001
            out = ("base", type(e).__name__, e)
        finally:
            signal.setitimer(signal.ITIMER_VIRTUAL, 0)
            self.armed = False
        return out, self.events, self.calls


# --------------------------------------------------------------------------------------
# evaluation of trees with Python's operators
# --------------------------------------------------------------------------------------
def is_int_text(txt):
    return txt.replace("_", "").isdigit()


class Env:
    def __init__(self, pint, ureg, nitname):
        from harness import c07_lang as L
        self.L = L
        self.pint, self.ureg, self.nitname, self.nit = pint, ureg, nitname, NIT[nitname]
        self.Q = ureg.Quantity
        self.unit = {n: self.Q(1, ureg.UnitsContainer({c: 1})) for n, c in L.CANON.items()}
        self.modes = ("int",) if nitname == "float" else ("nit", "int")
        self.memo = {m: {} for m in self.modes}

    def number(self, txt, mode):
        if is_int_text(txt) and mode == "int":
            return int(txt)
        if self.nit is float:
            return float(txt)
        return self.nit(txt)

    def wants(self, t):
        out = []
        for mode in self.modes:
            try:
                out.append(guarded(lambda m: self.ev(t, m), mode))
            except ParseTimeout:
                out.append(("skip",))
        return out

    def gpow(self, a, b):
        Q = self.Q
        eb = b
        if isinstance(b, Q):
            eb = None
            try:
                if b.dimensionless:
                    eb = b.to_root_units().magnitude
            except Exception:  # noqa: BLE001
                eb = None
        if eb is not None and not isinstance(eb, complex):
            try:
                f = abs(float(eb))
            except (OverflowError, ValueError, TypeError):
                raise Skip("exponent")
            if f != f or f > 2048:
                raise Skip("exponent")
            bm = a._magnitude if isinstance(a, Q) else a
            if isinstance(bm, int):
                bits = bm.bit_length()
            elif isinstance(bm, Fraction):
                bits = max(bm.numerator.bit_length(), bm.denominator.bit_length())
            else:
                bits = 0
            if bits * max(f, 1.0) > 300_000:
                raise Skip("bits")
        return a ** b

    def ev(self, t, mode):
        """('ok', value) | ('err', class name) | ('skip',)"""
        k = t[0]
        if k == "n":
            return ("ok", self.number(t[1], mode))
        if k == "u":
            return ("ok", self.unit[t[1]])
        small = None
        memo = self.memo[mode]
        if self.L.nleaves(t) <= 3:
            small = t
            r = memo.get(t)
            if r is not None:
                return r
        r = self._ev(t, mode)
        if small is not None:
            if len(memo) > 400_000:
                memo.clear()
            v = r[1] if r[0] == "ok" else 0
            v = getattr(v, "_magnitude", v)
            big = (isinstance(v, int) and v.bit_length() > 4096) or (
                isinstance(v, Fraction) and max(v.numerator.bit_length(), v.denominator.bit_length()) > 4096)
            if not big:
                memo[small] = r
        return r

    def ev_times_minus_one(self, t):
        """Same as ev (pint's reading of integer literals) but unary minus is `x * -1`. No memo."""
        mode = self.modes[0]
        k = t[0]
        if k == "n":
            return ("ok", self.number(t[1], mode))
        if k == "u":
            return ("ok", self.unit[t[1]])
        a = self.ev_times_minus_one(t[1])
        if a[0] != "ok":
            return a
        try:
            if k == "neg":
                return ("ok", a[1] * -1)
            if k == "pos":
                return ("ok", a[1])
            b = self.ev_times_minus_one(t[2])
            if b[0] != "ok":
                return b
            if k == "**":
                return ("ok", self.gpow(a[1], b[1]))
            return ("ok", BIN[k](a[1], b[1]))
        except Skip:
            return ("skip",)
        except Exception as e:  # noqa: BLE001
            return ("err", type(e).__name__)

    def _ev(self, t, mode):
        k = t[0]
        a = self.ev(t[1], mode)
        if a[0] != "ok":
            return a
        if k in ("neg", "pos"):
            try:
                return ("ok", operator.neg(a[1]) if k == "neg" else operator.pos(a[1]))
            except Exception as e:  # noqa: BLE001
                return ("err", type(e).__name__)
        b = self.ev(t[2], mode)
        if b[0] != "ok":
            return b
        try:
            if k == "**":
                return ("ok", self.gpow(a[1], b[1]))
            return ("ok", BIN[k](a[1], b[1]))
        except Skip:
            return ("skip",)
        except Exception as e:  # noqa: BLE001
            return ("err", type(e).__name__)


BIN = {"+": operator.add, "-": operator.sub, "*": operator.mul, "/": operator.truediv,
       "//": operator.floordiv}


def numcmp(a, b):
    """None (equal) | 'rounding' | 'value' | 'magnitude-type'"""
    try:
        if a != a and b != b:
            return None if type(a) is type(b) else "magnitude-type"
    except Exception:  # noqa: BLE001
        pass
    try:
        eq = a == b
    except Exception:  # noqa: BLE001
        eq = False
    if eq is True:
        return None if type(a) is type(b) else "magnitude-type"
    if type(a) is not type(b):
        return "value"
    if isinstance(a, (int, Fraction)):
        return "value"
    try:
        d = abs(a - b)
        m = max(abs(a), abs(b))
        if isinstance(a, Decimal):
            ok = d <= m * Decimal("1e-20")
        else:
            ok = d <= m * 1e-12
    except Exception:  # noqa: BLE001
        ok = False
    return "rounding" if ok else "value"


def outcome_diff(got, want, Q):
    """None | 'rounding' | mismatch kind.  got/want: ('ok', v) or ('err', name, ...)"""
    if want[0] == "err":
        if got[0] == "err":
            return None if got[1] == want[1] else "error-class"
        return "value-instead-of-error"
    if got[0] == "err":
        return "error-instead-of-value"
    a, b = got[1], want[1]
    qa, qb = isinstance(a, Q), isinstance(b, Q)
    if qa != qb:
        return "quantity-vs-number"
    if qa:
        if a._units != b._units:
            try:
                if any(abs(e) > 64 for q in (a, b) for e in dict(q._units).values()):
                    return "units"         # do not expand astronomically large exponents
                ra, rb = a.to_root_units(), b.to_root_units()
                if a.dimensionality == b.dimensionality and numcmp(ra._magnitude, rb._magnitude) in (None, "rounding", "magnitude-type"):
                    return "units-spelling"
            except Exception:  # noqa: BLE001
                pass
            return "units"
        a, b = a._magnitude, b._magnitude
    return numcmp(a, b)


def best_diff(got, wants, Q):
    """Outcome difference against the admissible readings of integer literals (first = pint's)."""
    if got[0] not in ("ok", "err"):
        return got[0]
    first = None
    for w in wants:
        if w[0] == "skip":
            continue
        d = outcome_diff(got, w, Q)
        if d in (None, "rounding"):
            return d
        if first is None:
            first = d
    return first


def oclass(o, Q):
    if o[0] == "err":
        return "err:" + o[1]
    if o[0] != "ok":
        return o[0]
    v = o[1]
    if isinstance(v, Q):
        return "ok:Quantity[" + type(v._magnitude).__name__ + "]"
    return "ok:" + type(v).__name__


def short(x):
    try:
        r = repr(x)
    except Exception as e:  # noqa: BLE001   (D4: Fraction exponents cannot be formatted)
        r = f"<unreprable {type(x).__name__}: {type(e).__name__}>"
        try:
            r += f" magnitude={x._magnitude!r} units={dict(x._units)!r}"
        except Exception:  # noqa: BLE001
            pass
    return r[:300]


# --------------------------------------------------------------------------------------
# the tree-vs-string comparator
# --------------------------------------------------------------------------------------
_TIGHT_GROUP = re.compile(r"(?<=[\w)⁰¹²³⁴⁵⁶⁷⁸⁹])\(")
_TIGHT_OPS = ("**", "^", "//", "/", "*")


def tight_group_context(s):
    """Mechanism fields for a string with a '(' glued to the operand before it: the operator a
    correct reader still has to finish before multiplying (of the operand left of the group),
    and whether a power operator follows the group."""
    from harness import c07_lang as L
    try:
        toks = L.ref_tokens(s)
    except L.RefSyntaxError:
        return "?", False
    found, power_after = [], False
    for i, t in enumerate(toks):
        if not (t[0] == "op" and t[1] == "(" and i > 0 and toks[i - 1][3] == t[2] and (
                toks[i - 1][0] in ("num", "name", "sup") or toks[i - 1][1] == ")")):
            continue
        # what follows the group
        depth, k = 0, i
        while k < len(toks):
            if toks[k][1] == "(":
                depth += 1
            elif toks[k][1] == ")":
                depth -= 1
                if depth == 0:
                    break
            k += 1
        if k + 1 < len(toks) and (toks[k + 1][1] in ("**", "^") or toks[k + 1][0] == "sup"):
            power_after = True
        # what precedes the operand left of the group
        j = i - 1
        if toks[j][0] == "sup":
            found.append("superscript")
            continue
        if toks[j][1] == ")":
            depth = 0
            while j >= 0:
                if toks[j][1] == ")":
                    depth += 1
                elif toks[j][1] == "(":
                    depth -= 1
                    if depth == 0:
                        break
                j -= 1
        j -= 1
        if j < 0 or toks[j][1] == "(":
            found.append("none")
        elif toks[j][0] == "op" and toks[j][1] != ")":
            op = toks[j][1]
            if op in "+-":
                unary = j == 0 or (toks[j - 1][0] == "op" and toks[j - 1][1] != ")")
                op = ("unary" + op) if unary else "none"       # binary + and - bind looser: harmless
            found.append(op)
        else:
            found.append("juxtaposition")
    for pref in ("**", "^", "superscript", "//", "/", "unary-", "unary+", "*", "juxtaposition"):
        if pref in found:
            return pref, power_after
    return "none", power_after


class Comparator:
    def __init__(self, rec, watch, envs, rng):
        from harness import c07_lang as L
        self.L, self.rec, self.watch, self.envs, self.rng = L, rec, watch, envs, rng
        self.fixed = L.fixed_styles()
        self.n = 0
        self.pool = []          # valid strings (reader-approved) for truncation / mutation

    # -- renderings ----------------------------------------------------------------
    def renderings(self, t, nrandom, styles=None):
        L, rec = self.L, self.rec
        seen, out = set(), []
        sts = list(styles if styles is not None else self.fixed)
        for _ in range(nrandom):
            sts.append(L.random_style(self.rng))
        for st in sts:
            s, used = L.render(t, st)
            if s in seen:
                continue
            seen.add(s)
            rec.count("renderer_roundtrips")
            try:
                back = L.ref_parse(s)
            except L.RefSyntaxError as e:
                back = ("unreadable", e.reason)
            if back != t:
                rec.count("renderer_roundtrip_failures")
                rec.inconc(f"renderer/reader disagree (harness bug): tree={t!r} string={s!r} read={back!r}"[:400])
                continue
            if not (used - {"caret", "redundant-parens"}) and self.n % 3 == 0:
                rec.count("renderer_ast_checks")
                try:
                    pt = L.python_tree(s)
                except Exception as e:  # noqa: BLE001
                    pt = ("ast-error", repr(e))
                if pt != t:
                    rec.count("renderer_ast_failures")
                    rec.inconc(f"renderer disagrees with Python's grammar (harness bug): tree={t!r} string={s!r} ast={pt!r}"[:400])
                    continue
            for u in used:
                rec.observe("style_features", u)
            out.append((s, st.name, used))
        return out

    # -- one tree --------------------------------------------------------------------
    def check(self, t, env, nrandom=1, workload="tree", styles=None):
        L, rec, Q = self.L, self.rec, env.Q
        wants = env.wants(t)
        if wants[0][0] == "skip":
            rec.count("skipped_magnitude")
            return
        adj = tuple(sorted(L.adjacencies(t)))
        ops = L.ops_of(t)
        nl = L.nleaves(t)
        wcls = oclass(wants[0], Q)
        rec.observe("outcome_classes", env.nitname + ":" + wcls)
        for s, stname, used in self.renderings(t, nrandom, styles):
            self.n += 1
            got, events, _ = self.watch.run(env.ureg.parse_expression, s, limit=3.0)
            rec.count("tree_cases")
            key = (env.nitname, stname, wcls, adj if len(adj) <= 3 else (t[0], nl, adj[0], adj[-1], len(adj)))
            rec.case(key, nontrivial=bool(ops))
            if events:
                self.audit_violation(events, s, env, "valid-expression")
            if got[0] == "timeout":
                rec.count("parse_watchdog_fired")
                self.mismatch(t, s, stname, used, ("err", "WatchdogTimeout(3s CPU)", ""), wants[0],
                              "did-not-terminate", env, workload)
                continue
            if got[0] == "base":
                rec.violation("parse-raised-BaseException", {"string": s, "exc": got[1]}, nit=env.nitname)
                continue
            d = best_diff(got, wants, Q)
            if d is None or d == "rounding":
                if d == "rounding":
                    rec.count("agree_rounding")
                if got[0] == "ok":
                    rec.count("agree_value")
                    for a in adj:
                        rec.observe("adjacency_ok", a)
                    if len(self.pool) < 4000 and self.n % 7 == 0:
                        self.pool.append(s)
                else:
                    rec.count("agree_error")
                    rec.observe("error_classes", got[1])
                if self.n % 997 == 0:
                    rec.sample({"registry": env.nitname, "string": s, "style": stname, "tree": repr(t),
                                "outcome": short(got[1])})
                if self.n % 16 == 0:
                    self.entrypoints(s, got, env)
                if self.n % 4 == 0 and ops <= {"*", "/", "**"}:
                    self.parserhelper(t, s, env)
                continue
            self.mismatch(t, s, stname, used, got, wants[0], d, env, workload)

    def mismatch(self, t, s, stname, used, got, want, kind, env, workload):
        rec, Q = self.rec, env.Q
        wit = {"string": s, "tree": repr(t), "registry": env.nitname, "style": stname,
               "parsed": short(got[1]) if got[0] == "ok" else "raised " + got[1] + ": " + short(got[2]),
               "tree_value": short(want[1]) if want[0] == "ok" else "raises " + want[1]}
        # attribution by experiment: does separating operand and '(' by a blank repair it?
        if _TIGHT_GROUP.search(s):
            alt = _TIGHT_GROUP.sub(" (", s)
            g2, _, _ = self.watch.run(env.ureg.parse_expression, alt, limit=3.0)
            if g2[0] in ("ok", "err") and outcome_diff(g2, want, Q) in (None, "rounding"):
                wit["repaired_by_blank_before_parenthesis"] = alt
                wit["kind"] = kind
                pend, pw = tight_group_context(s)
                rec.violation("group-glued-to-operand-is-multiplied-before-neighbouring-operators", wit,
                              unfinished_operator_on_the_left=pend, power_operator_after_group=pw)
                return
        # attribution by experiment: pint evaluates unary minus as `x * -1`, Python as `-x`; the two
        # differ only in the sign of a Decimal zero (visible after a later 1/x or power)
        if "neg" in self.L.ops_of(t):
            try:
                alt_want = guarded(lambda tt: env.ev_times_minus_one(tt), t, 3.0)
            except ParseTimeout:
                alt_want = ("skip",)
            if alt_want[0] in ("ok", "err") and got[0] in ("ok", "err") and \
                    outcome_diff(got, alt_want, Q) in (None, "rounding"):
                wit["kind"] = kind
                wit["value_with_neg_as_times_minus_one"] = short(alt_want[1:])
                rec.violation("unary-minus-evaluated-as-multiplication-by-minus-one", wit, nit=env.nitname)
                return
        rec.violation("parse-differs-from-tree", wit, kind=kind, nit=env.nitname, workload=workload,
                      style=stname, features=",".join(sorted(used)), root=t[0],
                      adjacency=",".join(sorted(self.L.adjacencies(t))[:6]))

    def audit_violation(self, events, s, env, family):
        rec = self.rec
        for ev, args in events:
            if ev == "open" and args[:2] == ("<string>", "rb"):
                rec.count("tokenizer_open_<string>")
                if not TOKENIZER_OPEN_IS_VIOLATION:
                    continue
            rec.violation("audit-event-during-parsing", {"string": s, "event": ev, "args": repr(args)},
                          event=ev, family=family)

    # -- other entry points (metamorphic: same string, three doors) ----------------------
    def entrypoints(self, s, got, env):
        rec, Q = self.rec, env.Q
        rec.count("entrypoint_cases")
        g_call, ev1, _ = self.watch.run(env.ureg, s)
        g_q, ev2, _ = self.watch.run(Q, s)
        if ev1 or ev2:
            self.audit_violation(ev1 + ev2, s, env, "entry-point")
        want = got
        if outcome_diff(g_call, want, Q) not in (None, "rounding"):
            rec.violation("entry-point-differs", {"string": s, "parse_expression": short(got[1]),
                                                  "call": short(g_call[1:])}, entry="ureg.__call__")
        wq = want
        if want[0] == "ok" and not isinstance(want[1], Q):
            wq = ("ok", Q(want[1], env.ureg.UnitsContainer()))
        if outcome_diff(g_q, wq, Q) not in (None, "rounding"):
            rec.violation("entry-point-differs", {"string": s, "parse_expression": short(got[1]),
                                                  "Quantity(str)": short(g_q[1:])}, entry="Quantity(str)")

    def parserhelper(self, t, s, env):
        rec = self.rec
        PH = env.pint.util.ParserHelper
        nit = env.nit

        def ev(x):
            if x[0] == "n":
                return env.number(x[1], "int" if nit is float else "nit")
            if x[0] == "u":
                return PH.from_word(x[1], nit)       # one-word lookup, not the expression grammar
            if x[0] == "**":
                return ev(x[1]) ** ev(x[2])
            return BIN[x[0]](ev(x[1]), ev(x[2]))

        try:
            w = ev(t)
            want = ("ok", w if isinstance(w, PH) else PH(w, non_int_type=nit))
        except Exception as e:  # noqa: BLE001
            want = ("err", type(e).__name__)
        got, events, _ = self.watch.run(lambda x: PH.from_string(x, nit), s)
        rec.count("parserhelper_cases")
        if events:
            self.audit_violation(events, s, env, "ParserHelper")
        bad = None
        if want[0] == "err" or got[0] != "ok":
            if not (want[0] == "err" and got[0] == "err" and want[1] == got[1]):
                bad = "outcome"
        else:
            a, b = got[1], want[1]
            if dict(a.items()) != dict(b.items()):
                bad = "exponents"
            elif numcmp(a.scale, b.scale) not in (None, "rounding"):
                bad = "scale"
        if bad:
            wit = {"string": s, "tree": repr(t), "from_string": short(got[1:]), "tree_value": short(want[1:])}
            if _TIGHT_GROUP.search(s):
                pend, pw = tight_group_context(s)
                wit["kind"] = "ParserHelper:" + bad
                rec.violation("group-glued-to-operand-is-multiplied-before-neighbouring-operators", wit,
                              unfinished_operator_on_the_left=pend, power_operator_after_group=pw)
            else:
                rec.violation("parserhelper-differs-from-tree", wit, kind=bad, nit=env.nitname)


# --------------------------------------------------------------------------------------
# workloads
# --------------------------------------------------------------------------------------
def mine(i, spec):
    return i % spec["parts"] == spec["part"]


def wl_full(spec, rec, cmp, envs, rng):
    """Every tree with <= 3 leaves over the full alphabet, 0..k unary minus at all positions."""
    from harness import c07_lang as L
    quick = spec["tier"] == "quick"
    i = 0
    for nitname, env in envs.items():
        maxun = (1 if nitname == "float" else 0) if quick else 2
        nrandom = 1 if quick else 2
        styles = None
        if quick and nitname != "float":
            styles = [cmp.fixed[0], cmp.fixed[3], cmp.fixed[4], cmp.fixed[5]]
        for nl in (1, 2, 3):
            for t in L.trees_full(nl):
                for k in range(maxun + 1):
                    if k == 2 and nitname != "float" and nl == 3:
                        continue          # two unary minus on 3 leaves: float registry only
                    for tt in (L.with_unary(t, k) if k else (t,)):
                        i += 1
                        if mine(i, spec):
                            lean = k == 2 or (k == 1 and nl == 3 and (quick or nitname != "float"))
                            if not lean:
                                cmp.check(tt, env, nrandom=nrandom, workload="full3", styles=styles)
                            elif quick or k == 2:
                                cmp.check(tt, env, nrandom=0, workload="full3",
                                          styles=[cmp.fixed[1], cmp.fixed[4 + (i // spec["parts"]) % 2]])
                            else:
                                cmp.check(tt, env, nrandom=0, workload="full3",
                                          styles=[cmp.fixed[1], cmp.fixed[3], cmp.fixed[4 + (i // spec["parts"]) % 2]])
    rec.count("full3_enumerated", i if spec["part"] == 0 else 0)
    if not quick:
        env = envs["float"]
        j = 0
        for t in L.iter_trees_full(4):
            j += 1
            if mine(j, spec):
                cmp.check(t, env, nrandom=0, workload="full4", styles=[cmp.fixed[(j // spec["parts"]) % 6]])
        rec.count("full4_enumerated", j if spec["part"] == 0 else 0)


def wl_directed(spec, rec, cmp, envs, rng):
    """A few trees that random generation reaches only rarely (kept so that a known mechanism is
    re-observed by every run rather than once in a few hundred thousand trees)."""
    if spec["part"] > 1:
        return
    z = ("-", ("n", "0.5"), ("n", "0.5"))
    trees = [
        ("**", ("**", ("neg", z), ("neg", ("n", "3"))), ("n", "0.5")),        # sign of a Decimal zero
        ("/", ("n", "2"), ("**", ("neg", ("*", ("u", "m"), z)), ("neg", ("n", "3")))),
        ("**", ("neg", ("n", "2")), ("n", "2")), ("neg", ("**", ("n", "2"), ("n", "2"))),
        ("**", ("n", "2"), ("**", ("n", "3"), ("n", "2"))), ("**", ("**", ("n", "2"), ("n", "3")), ("n", "2")),
        ("//", ("neg", ("n", "3")), ("n", "2")), ("neg", ("//", ("n", "3"), ("n", "2"))),
    ]
    for t in trees:
        for env in envs.values():
            cmp.check(t, env, nrandom=2, workload="directed")


def wl_skeleton(spec, rec, cmp, envs, rng):
    from harness import c07_lang as L
    quick = spec["tier"] == "quick"
    names = list(envs)
    i = 0
    for n in ((4,) if quick else (4, 5, 6)):
        for sk in L.skeletons(n):
            i += 1
            if not mine(i, spec):
                continue
            rec.count("skeletons")
            variants = [sk]
            paths = list(L.skel_paths(sk))
            if n <= 5:
                variants += [L.skel_wrap(sk, p) for p in paths]
            else:
                variants.append(L.skel_wrap(sk, rng.choice(paths)))
            for v in variants:
                assigns = [[rng.choice(L.NUM_LEAVES) for _ in range(n)],
                           [rng.choice(L.LEAVES) for _ in range(n)]]
                if n <= 5:
                    assigns.append([rng.choice(L.LEAVES[:5]) for _ in range(n)])
                if n <= 4:
                    assigns.append([rng.choice(L.NUM_LEAVES) for _ in range(n)])
                for a in assigns:
                    env = envs[rng.choice(names) if rng.random() < 0.4 else "float"]
                    sty = rng.sample(cmp.fixed, 3 if n <= 4 else 2)
                    cmp.check(L.fill(v, a), env, nrandom=1, workload=f"skeleton{n}", styles=sty)
    for n in ((4,) if quick else (4, 5, 6)):
        rec.observe("skeleton_leaves_enumerated", n)


def wl_random(spec, rec, cmp, envs, rng):
    from harness import c07_lang as L
    total = 24_000 if spec["tier"] == "quick" else 300_000
    names = list(envs)
    for _ in range(total // spec["parts"]):
        t = L.random_tree(rng, rng.randint(5, 12))
        if L.pow_depth(t) > 2:
            rec.count("skipped_power_tower")
            continue
        env = envs[rng.choice(names)]
        rec.maximum("random_tree_leaves_max", L.nleaves(t))
        cmp.check(t, env, nrandom=2, workload="random", styles=rng.sample(cmp.fixed, 2))


# ---- word forms ------------------------------------------------------------------------
def wl_words(spec, rec, cmp, envs, rng):
    quick = spec["tier"] == "quick"
    names = ["m", "s", "km", "meter", "second", "kilometer"]
    phrases = []
    for n in names:
        u = ("u", n)
        p2, p3 = ("**", u, ("n", "2")), ("**", u, ("n", "3"))
        phrases += [(n, u, "plain"), (n + " squared", p2, "squared"), (n + " cubed", p3, "cubed"),
                    ("square " + n, p2, "square"), ("sq " + n, p2, "sq"), ("cubic " + n, p3, "cubic")]
    N = [("2", ("n", "2")), ("0.5", ("n", "0.5")), ("3", ("n", "3"))]
    templates = [
        ("{A}", lambda A, B, C, n: A),
        ("{N} {A}", lambda A, B, C, n: ("*", n, A)),
        ("{A} per {B}", lambda A, B, C, n: ("/", A, B)),
        ("{N} {A} per {B}", lambda A, B, C, n: ("/", ("*", n, A), B)),
        ("{A} {B}", lambda A, B, C, n: ("*", A, B)),
        ("{A} * {B}", lambda A, B, C, n: ("*", A, B)),
        ("{A}/{B}", lambda A, B, C, n: ("/", A, B)),
        ("{A} per {B} per {C}", lambda A, B, C, n: ("/", ("/", A, B), C)),
        ("{A} {B} per {C}", lambda A, B, C, n: ("/", ("*", A, B), C)),
        ("{A} per {B} {C}", lambda A, B, C, n: ("*", ("/", A, B), C)),
        ("{N} {A} + {N} {A}", lambda A, B, C, n: ("+", ("*", n, A), ("*", n, A))),
        ("-{A} per {B}", lambda A, B, C, n: ("/", ("neg", A), B)),
        ("({A} {B}) per {C}", lambda A, B, C, n: ("/", ("*", A, B), C)),
        ("{N} {A} per ({B} {C})", lambda A, B, C, n: ("/", ("*", n, A), ("*", B, C))),
    ]
    cases = []
    for ti, (tpl, build) in enumerate(templates):
        uses = [x for x in "ABC" if "{" + x + "}" in tpl]
        if len(uses) == 1:
            combos = [(a, a, a) for a in phrases]
        elif len(uses) == 2:
            combos = [(a, b, b) for a in phrases for b in phrases]
        else:
            combos = [(rng.choice(phrases), rng.choice(phrases), rng.choice(phrases)) for _ in range(3000)]
        for a, b, c in combos:
            cases.append((tpl, build, a, b, c))
    i = 0
    for tpl, build, a, b, c in cases:
        i += 1
        if not mine(i, spec):
            continue
        if quick and len(cases) > 6000 and rng.random() > 0.45:
            continue
        n = rng.choice(N)
        s = tpl.format(A=a[0], B=b[0], C=c[0], N=n[0])
        if rng.random() < 0.25:
            s = s.replace(" ", "  ", rng.randint(1, 3))
        t = build(a[1], b[1], c[1], n[1])
        forms = sorted({x[2] for x, tag in ((a, "A"), (b, "B"), (c, "C")) if "{" + tag + "}" in tpl})
        for nitname, env in envs.items():
            if nitname != "float" and i % 3:
                continue
            wants = env.wants(t)
            want = wants[0]
            got, events, _ = cmp.watch.run(env.ureg.parse_expression, s)
            rec.count("wordform_cases")
            for f in forms:
                rec.observe("word_forms", f + ("+per" if " per " in tpl else ""))
            rec.case((nitname, "words", tpl, tuple(forms), oclass(want, env.Q)))
            if events:
                cmp.audit_violation(events, s, env, "word-forms")
            d = best_diff(got, wants, env.Q)
            if d not in (None, "rounding"):
                rec.violation("word-form-differs-from-tree",
                              {"string": s, "tree": repr(t), "parsed": short(got[1:]), "tree_value": short(want[1:])},
                              kind=d, template=tpl, forms=",".join(forms), nit=nitname)
            elif i % 500 == 0:
                rec.sample({"words": s, "tree": repr(t), "value": short(got[1])})


# ---- unicode superscripts ----------------------------------------------------------------
def wl_superscripts(spec, rec, cmp, envs, rng):
    """Every superscript digit, multi-digit and negative exponents on every name, in context."""
    from harness import c07_lang as L
    exps = list(range(0, 10)) + [10, 12, 21, 30] + [-k for k in range(1, 10)] + [-12]
    ctxs = [("{X}", lambda x: x), ("2 {X}", lambda x: ("*", ("n", "2"), x)),
            ("{X} s", lambda x: ("*", x, ("u", "s"))), ("s {X}", lambda x: ("*", ("u", "s"), x)),
            ("{X}/s", lambda x: ("/", x, ("u", "s"))), ("s/{X}", lambda x: ("/", ("u", "s"), x)),
            ("({X})", lambda x: x), ("-{X}", lambda x: ("neg", x)), ("0.5{X}s", lambda x: ("*", ("*", ("n", "0.5"), x), ("u", "s"))),
            ("{X} + {X}", lambda x: ("+", x, x)), ("2^{X}", lambda x: ("**", ("n", "2"), x))]
    i = 0
    for name in L.NAMES + ("meter", "kilometer"):
        for e in exps:
            sup = str(e).translate(L._SUP)
            x = ("**", ("u", name), ("n", str(e)) if e >= 0 else ("neg", ("n", str(-e))))
            for ctx, build in ctxs:
                i += 1
                if not mine(i, spec):
                    continue
                if ctx == "2^{X}" and (name != "percent" or abs(e) > 3):
                    continue
                s = ctx.format(X=name + sup)
                t = build(x)
                for nitname, env in envs.items():
                    wants = env.wants(t)
                    if wants[0][0] == "skip":
                        continue
                    got, events, _ = cmp.watch.run(env.ureg.parse_expression, s, limit=3.0)
                    rec.count("superscript_cases")
                    rec.observe("superscript_exponents", e)
                    rec.case((nitname, "superscript", e, ctx))
                    if events:
                        cmp.audit_violation(events, s, env, "superscript")
                    d = best_diff(got, wants, env.Q)
                    if d not in (None, "rounding"):
                        rec.violation("superscript-differs-from-tree",
                                      {"string": s, "tree": repr(t), "parsed": short(got[1:]), "tree_value": short(wants[0][1:])},
                                      kind=d, exponent_class=("negative" if e < 0 else "zero" if e == 0 else "positive")
                                      + ("-multidigit" if abs(e) > 9 else ""), context=ctx, nit=nitname)


# ---- numeric literals ------------------------------------------------------------------
def wl_literals(spec, rec, cmp, envs, rng):
    ints = ["2", "3", "10", "007", "0", "1_000", "12345678901234567890123", "100"]
    nonints = ["0.5", "2.0", ".5", "5.", "1e3", "1E3", "0.5e-3", "1.10", "2.5e+2", "0.1", "1e-3", "123.456"]
    templates = [("{L}", lambda x: x), ("{L} m", lambda x: ("*", x, ("u", "m"))),
                 ("{L}*m", lambda x: ("*", x, ("u", "m"))), ("m * {L}", lambda x: ("*", ("u", "m"), x)),
                 ("{L} m + {L} m", lambda x: ("+", ("*", x, ("u", "m")), ("*", x, ("u", "m")))),
                 ("-{L} km", lambda x: ("*", ("neg", x), ("u", "km"))),
                 ("({L}) s", lambda x: ("*", x, ("u", "s"))), ("{L} * 3", lambda x: ("*", x, ("n", "3"))),
                 ("m ** {L}", lambda x: ("**", ("u", "m"), x)), ("{L} / 2", lambda x: ("/", x, ("n", "2")))]
    i = 0
    for txt in ints + nonints:
        for tpl, build in templates:
            i += 1
            if not mine(i, spec):
                continue
            if tpl == "m ** {L}" and len(txt) > 6:
                continue
            s = tpl.format(L=txt)
            t = build(("n", txt))
            for nitname, env in envs.items():
                wants = env.wants(t)
                got, events, _ = cmp.watch.run(env.ureg.parse_expression, s)
                rec.count("literal_cases")
                rec.case((nitname, "literal", txt, tpl))
                if events:
                    cmp.audit_violation(events, s, env, "literal")
                if wants[0][0] == "skip":
                    continue
                d = best_diff(got, wants, env.Q)
                if got[0] == "ok" and tpl in ("{L}", "{L} m"):
                    v = got[1]._magnitude if isinstance(got[1], env.Q) else got[1]
                    rec.observe("literal_types", f"{nitname}:{'integer' if txt in ints else 'non-integer'}->{type(v).__name__}")
                if d not in (None, "rounding"):
                    rec.violation("numeric-literal-type-or-value",
                                  {"string": s, "parsed": short(got[1:]), "expected": short(wants[0][1:])},
                                  kind=d, literal_class="integer" if txt in ints else "non-integer",
                                  nit=nitname, template=tpl)


# ---- uncertainties ---------------------------------------------------------------------
def wl_uncertainty(spec, rec, cmp, envs, rng):
    try:
        from uncertainties import ufloat
    except Exception:  # noqa: BLE001
        rec.inconc("uncertainties not importable")
        return
    lits = [("3.0", "0.5"), ("2.5", "0.25"), ("10", "1"), ("0.125", "0.0625"), ("8.0", "0.4"),
            ("0.0", "0.5"), ("0", "2")]     # a zero nominal value keeps its standard deviation (and its exponent)
    spell = [("{n} +/- {s}", "bare"), ("{n}+/-{s}", "bare"), ("{n} ± {s}", "bare"), ("{n}±{s}", "bare"),
             ("({n} +/- {s})", "paren"), ("({n}+/-{s})", "paren"), ("({n} ± {s})", "paren"), ("({n}±{s})", "paren"),
             ("( {n} +/- {s} )", "paren")]
    contexts = [
        ("{P}", lambda p, Q, u: p, "end"),
        ("{P} m", lambda p, Q, u: p * u["m"], "mid"),
        ("{P}*m", lambda p, Q, u: p * u["m"], "mid"),
        ("{P} * m", lambda p, Q, u: p * u["m"], "mid"),
        ("m * {P}", lambda p, Q, u: u["m"] * p, "end"),
        ("2 * {P} m", lambda p, Q, u: 2 * p * u["m"], "mid"),
        ("{P} m / s", lambda p, Q, u: p * u["m"] / u["s"], "mid"),
        ("{P} m**2", lambda p, Q, u: p * u["m"] ** 2, "mid"),
        ("-{P} m", lambda p, Q, u: (-p) * u["m"], "mid"),
        ("{P} / 2", lambda p, Q, u: p / 2, "mid"),
        ("{P} km + 2 km", lambda p, Q, u: p * u["km"] + 2 * u["km"], "mid"),
        ("3 km + {P} km", lambda p, Q, u: 3 * u["km"] + p * u["km"], "mid"),
        ("({P}) m", lambda p, Q, u: p * u["m"], "mid)"),
        ("2 m * {P}", lambda p, Q, u: 2 * u["m"] * p, "end"),
        # the same literal written twice denotes two INDEPENDENT measurements (no correlation)
        ("{P} m + {P} m", lambda p, Q, u: p * u["m"] + ufloat(p.n, p.s) * u["m"], "end"),
        ("{P} m - {P} m", lambda p, Q, u: p * u["m"] - ufloat(p.n, p.s) * u["m"], "end"),
        ("{P} m / ({P} s)", lambda p, Q, u: p * u["m"] / (ufloat(p.n, p.s) * u["s"]), "mid)"),
        ("{P} * {P} m", lambda p, Q, u: p * ufloat(p.n, p.s) * u["m"], "mid"),
        # exponent applied to a parenthesised value: (N +/- S)eK  ==  (N +/- S) * 10**K
        ("{P}e2 m", lambda p, Q, u: p * 100 * u["m"], "paren-only"),
        ("{P}e+2 m", lambda p, Q, u: p * 100 * u["m"], "paren-only"),
        ("{P}e-2 m", lambda p, Q, u: p * 0.01 * u["m"], "paren-only"),
        ("{P}e-02 m", lambda p, Q, u: p * 0.01 * u["m"], "paren-only"),
    ]
    i = 0
    for n, sd in lits:
        for sp, kind in spell:
            for ctx, build, where in contexts:
                i += 1
                if not mine(i, spec):
                    continue
                if where == "paren-only" and kind != "paren":
                    continue
                P = sp.format(n=n, s=sd)
                s = ctx.format(P=P)
                for nitname, env in envs.items():
                    got, events, _ = cmp.watch.run(env.ureg.parse_expression, s)
                    if events:
                        cmp.audit_violation(events, s, env, "uncertainty")
                    if nitname != "float":
                        rec.observe("uncertainty_nonfloat_outcomes", nitname + ":" + oclass(got, env.Q))
                        continue
                    rec.count("uncertainty_cases")
                    rec.case(("uncertainty", sp, ctx))
                    try:
                        want = ("ok", build(ufloat(float(n), float(sd)), env.Q, env.unit))
                    except Exception as e:  # noqa: BLE001
                        want = ("err", type(e).__name__)
                    bad = None
                    if got[0] != "ok" or want[0] != "ok":
                        if not (got[0] == "err" and want[0] == "err" and got[1] == want[1]):
                            bad = "outcome"
                    else:
                        a, b = got[1], want[1]
                        if isinstance(a, env.Q) != isinstance(b, env.Q):
                            bad = "quantity-vs-number"
                        else:
                            if isinstance(a, env.Q):
                                if a._units != b._units:
                                    bad = "units"
                                a, b = a._magnitude, b._magnitude
                            if not bad:
                                try:
                                    an, asd, bn, bsd = a.nominal_value, a.std_dev, b.nominal_value, b.std_dev
                                    if not (math.isclose(an, bn, rel_tol=1e-12) and math.isclose(asd, bsd, rel_tol=1e-9)):
                                        bad = "value"
                                except AttributeError:
                                    bad = "not-an-uncertain-number"
                    if bad:
                        at_end = kind == "paren" and where == "end"
                        rec.violation("uncertainty-differs-from-tree",
                                      {"string": s, "parsed": short(got[1:]), "expected": short(want[1:])},
                                      kind=bad, notation=kind,
                                      position="group-is-last-token" if at_end else "elsewhere",
                                      error=got[1] if got[0] == "err" else "")
    # concise notation N(d): outside the statement, reported only
    if spec["part"] == 0:
        for s in ("3.0(5) m", "3.00(5) m", "8.0(4) m", "1.234(12) m"):
            got, _, _ = cmp.watch.run(envs["float"].ureg.parse_expression, s)
            rec.observe("concise_uncertainty_notation(reported only)", s + " -> " + short(got[1]))


# ---- damaged strings -------------------------------------------------------------------
DIRECTED_DAMAGE = {          # original -> copy with one operand removed (a pattern random damage rarely hits)
    "3 + m / -2": "3 +  / -2",
    "2 m + s / - 3": "2 m +  / - 3",
    "(3 + 2 / -m)": "(3 +  / -m)",
    "km + 3/-(2 s)": "km + /-(2 s)",
}


def wl_truncations(spec, rec, cmp, envs, rng):
    from harness import c07_lang as L
    total = 36_000 if spec["tier"] == "quick" else 500_000
    budget = total // spec["parts"]
    names = list(envs)
    done = 0
    guard = 0
    directed = list(DIRECTED_DAMAGE) if spec["part"] < 3 else []
    while done < budget and guard < budget * 4:
        guard += 1
        if directed:
            s = directed.pop()
        elif cmp.pool and rng.random() < 0.5:
            s = rng.choice(cmp.pool)
        else:
            t = L.random_tree(rng, rng.randint(2, 7))
            s, _ = L.render(t, rng.choice(cmp.fixed) if rng.random() < 0.5 else L.random_style(rng))
            try:
                L.ref_parse(s)
            except L.RefSyntaxError:
                continue
        cands = L.truncations(s, rng, per_kind=2 if len(s) > 16 else 4)
        if s in DIRECTED_DAMAGE:
            cands = [("drop-operand", DIRECTED_DAMAGE[s])]
        for kind, d in cands:
            if "+/-" in d or "±" in d:
                rec.count("truncation_forms_uncertainty_operator_skipped")   # a genuine '+/-' operator
                continue
            try:
                L.ref_parse(d)
                rec.count("truncation_still_wellformed")
                continue
            except L.RefSyntaxError as e:
                reason = e.reason
            env = envs[rng.choice(names)]
            got, events, _ = cmp.watch.run(env.ureg.parse_expression, d)
            if events:
                cmp.audit_violation(events, d, env, "truncation")
            rec.observe("truncation_reasons", reason)
            if got[0] == "err":
                rec.observe("truncation_error_classes", got[1])
            if reason.startswith(("unbalanced", "no-operand")):
                done += 1
                rec.count("truncations_must_raise")
                rec.case(("truncation", kind, reason, got[0] if got[0] != "err" else got[1]))
                if got[0] == "ok":
                    seq = [t[1] for t in L.ref_tokens(d)]
                    glued = any(seq[k:k + 3] == ["+", "/", "-"] for k in range(len(seq)))
                    if glued:
                        # '+', '/', '-' are separate tokens here (blanks between them or an operand
                        # removed), yet pint's tokenizer fuses them into the '+/-' operator
                        rec.violation("separated-plus-slash-minus-read-as-uncertainty-operator",
                                      {"original": s, "damaged": d, "value": short(got[1])}, reason=reason)
                    else:
                        rec.violation("damaged-input-yields-value",
                                      {"original": s, "damaged": d, "value": short(got[1])},
                                      damage=kind, reason=reason, nit=env.nitname)
                elif got[0] in ("timeout", "base"):
                    rec.violation("damaged-input-" + got[0], {"original": s, "damaged": d}, damage=kind, reason=reason)
            else:
                rec.count("truncation_outside_statement")
                if got[0] == "ok":
                    rec.observe("damaged_outside_statement_yields_value(reported only)", reason)


# ---- hostile strings -------------------------------------------------------------------
_FOREIGN = set(";<>=!@&|~:?$`'\"\\[]{}#,%")


def wl_fuzz(spec, rec, cmp, envs, rng):
    from harness import c07_lang as L
    import builtins
    watch = cmp.watch
    total = 24_000 if spec["tier"] == "quick" else 400_000
    budget = total // spec["parts"]
    env_names = list(envs)
    names = sorted(set(dir(envs["float"].ureg)) | set(dir(envs["float"].Q)) | set(dir(builtins))
                   | {"ureg", "self", "registry", "Quantity", "Unit", "os", "sys", "pint", "subprocess"})
    canary_dir = tempfile.mkdtemp(prefix="c07canary")
    canary = os.path.join(canary_dir, "canary")
    pool = list(cmp.pool) or ["2 m", "3 km / s", "m**2", "(2 + 3) m", "0.5 s^-1"]
    numeric = (int, float, complex, Decimal, Fraction)
    try:
        from uncertainties.core import AffineScalarFunc
        numeric = numeric + (AffineScalarFunc,)
    except Exception:  # noqa: BLE001
        pass
    # warm-up: lazy imports, regex caches, error paths
    for s in ["2 m", "(m", "m)", "2 +", "foo", "3.0 +/- 0.5 m", "(3.0+/-0.5)e2 m", "m ** 0.5", "1/0", "m + s",
              "'x'", "f'{x}'", "\x00", "\ud800", "2**-1", "degC * degC", "dB", "1e400", "((((", "\n"]:
        for env in envs.values():
            watch.run(env.ureg.parse_expression, s, profile=True)
    base_nprof = watch.nprof
    for i in range(budget):
        fam, s = L.hostile_string(rng, names, canary, pool)
        env = envs[rng.choice(env_names)]
        door = rng.random()
        fn = env.ureg.parse_expression if door < 0.8 else (env.ureg if door < 0.9 else env.Q)
        got, events, calls = watch.run(fn, s, profile=True, limit=1.5)
        rec.count("fuzz_strings")
        rec.observe("fuzz_families", fam)
        oc = oclass(got, env.Q)
        rec.observe("fuzz_outcomes", oc)
        rec.case(("fuzz", fam, oc, env.nitname))
        for ev, args in events:
            rec.observe("audit_events_seen", ev)
        if events:
            cmp.audit_violation(events, s, env, fam)
        for what, where in calls:
            rec.violation("forbidden-call-during-parsing", {"string": s, "call": what, "from": where},
                          call=what, caller=where, family=fam)
        if got[0] == "ok":
            v = got[1]
            if not isinstance(v, env.Q) and not (isinstance(v, numeric) and not isinstance(v, bool)):
                rec.violation("parse-returned-foreign-object", {"string": s, "type": type(v).__name__, "value": short(v)},
                              result_type=type(v).__name__, family=fam)
            elif type(v) not in (int, float, complex, Decimal, Fraction) and not isinstance(v, env.Q):
                rec.count("fuzz_numeric_subclass_results")
                if rng.random() < 0.02:
                    rec.observe("fuzz_numeric_subclass_examples", f"{type(v).__name__}: {s[:40]!r}")
            elif _FOREIGN & set(s):
                rec.count("fuzz_value_despite_foreign_characters(reported only)")
                if i % 50 == 0:
                    rec.observe("foreign_characters_ignored(reported only)", s[:40] + " -> " + short(v)[:60])
        elif got[0] == "timeout":
            rec.count("fuzz_watchdog_skipped")
        elif got[0] == "base":
            rec.violation("parse-raised-BaseException", {"string": s, "exc": got[1]}, family=fam)
        if i % 1500 == 0:
            rec.sample({"fuzz": s[:80], "family": fam, "outcome": oc})
    rec.count("fuzz_profile_events", watch.nprof - base_nprof)
    left = os.listdir(canary_dir)
    if left:
        rec.violation("canary-file-created", {"files": left}, family="snippet")
    rec.count("canary_checked")
    shutil.rmtree(canary_dir, ignore_errors=True)
    for n in ("c07x",):
        for env in envs.values():
            if n in env.ureg._units:
                rec.violation("registry-mutated-by-parsing", {"unit": n}, family="snippet")


# --------------------------------------------------------------------------------------
def run_shard(spec, rec):
    from harness import pintload
    import pint
    import traceback

    signal.signal(signal.SIGVTALRM, _alarm)
    sys.setrecursionlimit(3000)
    rng = random.Random(spec["seed"])
    envs = {n: Env(pint, pintload.registry(non_int_type=NIT[n]) if n != "float" else pintload.registry(), n)
            for n in ("float", "decimal", "fraction")}
    for n in envs:
        rec.observe("registries", n)
    # a NEIGHBOUR registry in the same process, customised after construction in the documented ways (its own
    # preprocessor, definitions, default format) and used: nothing of that may reach the registries above
    neighbour = pintload.registry()
    neighbour.preprocessors.append(lambda t: t.replace("//", "/").replace("**", "*").replace("^", "+").replace("(", "(1+"))
    neighbour.define("c07nb = 3 * meter = m2")
    neighbour.formatter.default_format = "~P"
    try:
        str(neighbour("7 // 2 m2 ** 2"))
    except Exception:  # noqa: BLE001
        pass
    rec.count("customised_neighbour_registries")
    _KEEP.append(neighbour)          # keep it alive for the whole shard
    watch = Watch([e.ureg for e in envs.values()])
    # liveness of the monitors themselves
    watch.armed = True
    id(watch)
    try:
        open("/nonexistent-c07-liveness")
    except OSError:
        pass
    watch.armed = False
    if any(e == "open" for e, _ in watch.events):
        rec.count("audit_hook_live")
    else:
        rec.inconc("audit hook saw no event from a deliberate open()")
    watch.events, watch.calls = [], []
    watch.armed = True
    sys.setprofile(watch.prof)
    try:
        eval("1")
    finally:
        sys.setprofile(None)
        watch.armed = False
    if any(c[0] == "c:builtins.eval" for c in watch.calls):
        rec.count("profile_hook_live")
    else:
        rec.inconc("profile hook saw no c_call from a deliberate eval()")
    watch.events, watch.calls = [], []

    cmp = Comparator(rec, watch, envs, rng)
    for wl in (wl_literals, wl_superscripts, wl_uncertainty, wl_words, wl_directed, wl_full, wl_skeleton, wl_random, wl_truncations, wl_fuzz):
        try:
            wl(spec, rec, cmp, envs, random.Random(rng.getrandbits(48)))
        except Exception:  # noqa: BLE001
            rec.inconc(f"workload {wl.__name__} crashed: " + traceback.format_exc()[-900:])
