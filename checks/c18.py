"""C18 — copy, pickle, tuple form preserve objects; registries stay isolated.

Oracles (all observe executions of the real code):
* round trips: a structural fingerprint taken by harness/c18_child.py (type-tagged magnitude,
  unit items with exponent types, non_int_type) must be unchanged, pint's own `==`/hash must
  agree, the result must be attached to the right registry (same registry for copy/deepcopy/
  from_tuple, pint.get_application_registry() for pickle), the original must be unchanged.
* exceptions: same type, same instance fields (fingerprinted), same str().  `args` is NOT
  compared (pint normalises it through __reduce__; the statement names type, fields, message).
* fresh-interpreter unpickling: harness.c18_child in a subprocess whose application registry
  never parsed anything; it reports whether the prefixed names were really absent, the
  fingerprint, attachment, registration, dimensionality/root value.
* cross-registry operator matrix: outcome of op(a, b) with a, b from two registries is compared
  with the SAME operation inside one registry (baseline).  ValueError is always fine; a returned
  value is a silent combination (for == only a truthy value is, for != only a falsy one); another
  exception class is reported only when the baseline succeeds (an operation that is a TypeError /
  DimensionalityError / OffsetUnitCalculusError inside one registry too was not "combined").
* deep-copied registry: histories of definitions applied to one side; each side is compared
  with a fresh define-twin that received exactly that side's history (probe battery through
  public queries).  Op kinds failing alone are attributed by name; random multi-op histories use
  only op kinds that passed alone (otherwise the known D15 defect would mask everything) and a
  mismatch there is shrunk greedily to a minimal history.
* lazy default registry: one trigger per fresh child interpreter, then the same probe battery
  through the module-level objects and through an explicit UnitRegistry.

Violation classes seen on the unchanged tree (all triaged as genuine, see the C18 report):
  cross-registry-silent (opfamily pow: `**` never checks registries; opfamily order with a Unit
  operand: Unit.compare re-wraps the foreign operand), cross-registry-eq-true (Quantity.__eq__
  compares/converts across registries), deepcopy-evolution (Group/System objects of the copy keep
  the source as _REGISTRY: define @group / get_group(new) fail on the copy, members/compatible
  listings and ureg.sys.X.unit leak between source and copy), exception-roundtrip for the
  txt_defparser DefinitionSyntaxError (location/position lost, message changes), lazy-differs
  (module-level pint.Quantity/pint.Unit instances are not instances of the application registry's
  classes: Q*U, Q/U, wraps, from_tuple fail; dir()/iter() of the unbuilt proxy).

Deviations from DESIGN §4/C18: Measurement equality is (nominal, std_dev, units) — `==` of two
independent ufloats is False by construction of `uncertainties`; NaN magnitudes are compared by
fingerprint only.  The lazy registry forces on_redefinition='raise' on purpose (pint/registry.py),
so it is compared with UnitRegistry(on_redefinition='raise'); the policy is recorded in
observed['lazy_policy'].  `isinstance(pint.Quantity(..), app.Quantity)` is not demanded.
"""
import copy
import json
import math
import os
import pickle
import random
import subprocess
import tempfile
from decimal import Decimal
from fractions import Fraction as F

PID = "C18"
RULE = ("round trips: random Quantity/Unit/Measurement over every canonical unit of the bundled "
        "registry plus random (prefixed) spellings in 1-3 factor compounds x 19 magnitude kinds x "
        "{pickle 0-5, copy, deepcopy, tuple} in float/Decimal/Fraction registries, containers and "
        "ParserHelpers, every exception class found by walking the pint package x generated and "
        "really-raised instances; fresh-interpreter unpickling batches with pairwise distinct "
        "prefixed names; cross-registry matrix = 21 operators x operand-kind pairs x 4 registry "
        "pairs x both directions with a same-registry baseline; deep-copy histories (single op "
        "kind x side x warm/cold, then random multi-op); lazy triggers x probe battery. A case is "
        "distinct by (workload, object recipe, route) and non-trivial when the deciding comparison "
        "ran (cross: baseline succeeded or a value came back)")
ASSUMPTIONS = [
    "fingerprints (harness/c18_child.py) capture everything 'equal' means: type-tagged magnitude, "
    "unit names, exponent values and types, non_int_type; registries are compared by identity",
    "Measurement equality = nominal value, std_dev, units (uncertainties' == is correlation-aware)",
    "exception 'fields' = vars(e) plus class-annotated attributes; args is not a field",
    "lazy default registry is compared with UnitRegistry(on_redefinition='raise') (forced, documented in code)",
    "define-twins (fresh registry + same history) are the expectation for both sides of a deep copy",
    "cross-registry: an operator that fails with the same exception class inside ONE registry is not a combination",
]
SHARD_TIMEOUT = {"quick": 600, "thorough": 3000}
VERIF = os.path.dirname(os.path.dirname(os.path.abspath(__file__)))
PY = os.environ.get("VERIF_PYTHON", "/venv/bin/python")


def exhaustive(tier):
    return False


def required(tier):
    k = 1 if tier == "quick" else 10
    return {"roundtrips": 20000 * k, "protocols": 6, "mag_kinds": 12, "rt_kinds": 5,
            "units_covered": 390, "prefixed_objects": 500 * k,
            "exception_classes": 15, "exception_roundtrips": 1500 * k,
            "subproc_items": 300 * k, "subproc_prefixed_absent": 200 * k, "subproc_app_modes": 4,
            "cross_cases": 4000 * k, "cross_decisive": 1500 * k, "cross_pairs": 5, "cross_ops": 21,
            "evolve_scenarios": 40 * (1 if tier == "quick" else 6), "evolve_op_kinds": 15,
            "lazy_triggers": 20, "evolve_copies_taken_inside_contexts": 4, "reloads_with_units_new_to_that_registry": 60, "app_registry_swaps": 2}


def shards(tier, seed):
    q = tier == "quick"
    out = []
    for i, nit in enumerate(("float", "float", "decimal", "fraction") if q else
                            ("float", "float", "decimal", "fraction", "fraction")):
        out.append({"kind": "rt", "name": f"rt-{nit}{i}", "nit": nit, "n": 700 if q else 12000,
                    "part": i})
    out.append({"kind": "rtx", "name": "rt-xreg", "n": 500 if q else 8000})
    out.append({"kind": "misc", "name": "containers+exceptions", "n": 1500 if q else 40000, "n_exc": 12 if q else 150})
    modes = ("lazy", "set-float", "set-decimal", "set-fraction", "set-lazy")
    for i, mode in enumerate(modes[:4] if q else modes):
        out.append({"kind": "subproc", "name": f"subproc-{mode}", "app": mode,
                    "nit": ("float", "fraction", "decimal", "fraction", "float")[i],
                    "batches": 1 if q else 8, "size": 400 if q else 1200})
    for i, pair in enumerate(("fresh/fresh", "fresh/deepcopy", "application/lazy", "deepcopy/deepcopy",
                              "module-level/module-level")):
        out.append({"kind": "cross", "name": f"cross-{pair}", "pair": pair, "n": 1700 if q else 30000})
    for i in range(5):
        out.append({"kind": "evolve", "name": f"evolve{i}", "part": i, "parts": 5, "random": 1 if q else 60})
    nl = 5 if q else 3
    for i in range(nl):
        out.append({"kind": "lazy", "name": f"lazy{i}", "part": i, "parts": nl})
    return out


# ---------------------------------------------------------------------------
# generators (recipes are JSON-able; see harness/c18_child.build)
# ---------------------------------------------------------------------------
class Pools:
    def __init__(self, m):
        self.canon = [c for c in m.order if c.isidentifier()]
        self.spell = sorted(s for s in m.spell if s.isidentifier())
        self.prefix = sorted(p for p in m.pspell if p and p.isidentifier())
        self.exact = set(m.spell)
        self.model = m


MAG_KINDS = ("int", "bigint", "float", "negzero", "inf", "nan", "fraction", "decimal", "complex",
             "np.float64", "np.int32", "arr.f8", "arr.i8", "arr.c16", "arr.0d", "arr.2d", "arr.empty",
             "arr.bool")


def rand_mag(rng, kind=None):
    kind = kind or rng.choice(MAG_KINDS)
    s = rng.choice((1, 1, -1))
    if kind == "int":
        return kind, ["int", s * rng.randint(0, 10 ** 6)]
    if kind == "bigint":
        return kind, ["int", s * rng.randint(10 ** 20, 10 ** 40)]
    if kind == "float":
        return kind, ["float", (s * rng.uniform(0.001, 1000) * 10.0 ** rng.randint(-30, 30)).hex()]
    if kind == "negzero":
        return kind, ["float", (-0.0).hex()]
    if kind == "inf":
        return kind, ["float", (s * math.inf).hex()]
    if kind == "nan":
        return kind, ["float", "nan"]
    if kind == "fraction":
        return kind, ["fraction", f"{s * rng.randint(0, 10 ** 6)}/{rng.randint(1, 10 ** 4)}"]
    if kind == "decimal":
        return kind, ["decimal", f"{s * rng.randint(0, 10 ** 9)}E{rng.randint(-12, 12)}"]
    if kind == "complex":
        return kind, ["complex", rng.uniform(-9, 9), rng.uniform(-9, 9)]
    if kind == "np.float64":
        return kind, ["npscalar", "float64", s * rng.uniform(0.001, 1000)]
    if kind == "np.int32":
        return kind, ["npscalar", "int32", s * rng.randint(0, 10 ** 6)]
    n = rng.randint(1, 6)
    if kind == "arr.f8":
        return kind, ["ndarray", "float64", [n], [rng.uniform(-100, 100) for _ in range(n)]]
    if kind == "arr.i8":
        return kind, ["ndarray", "int64", [n], [rng.randint(-100, 100) for _ in range(n)]]
    if kind == "arr.c16":
        return kind, ["ndarray", "complex128", [n], [rng.uniform(-9, 9) for _ in range(n)]]
    if kind == "arr.0d":
        return kind, ["ndarray", "float64", [], [rng.uniform(-100, 100)]]
    if kind == "arr.2d":
        return kind, ["ndarray", "float32", [2, n], [float(rng.randint(-50, 50)) for _ in range(2 * n)]]
    if kind == "arr.empty":
        return kind, ["ndarray", "float64", [0], []]
    if kind == "arr.bool":
        return kind, ["ndarray", "bool", [n], [rng.random() < 0.5 for _ in range(n)]]
    raise ValueError(kind)


def rand_exp(rng, nit):
    r = rng.random()
    if r < 0.55:
        return ["int", 1]
    if r < 0.85:
        return ["int", rng.choice((2, 3, -1, -2, -3))]
    if nit == "fraction":
        return ["fraction", rng.choice(("1/2", "1/3", "-3/2", "5/3"))]
    if nit == "decimal":
        return ["decimal", rng.choice(("0.5", "1.5", "-0.25"))]
    return ["float", rng.choice((0.5, 1.5, -0.5, 2.5)).hex()]


def rand_terms(rng, pools, nit, first=None, prefixed=0.5, used=None):
    """-> (terms, n_prefixed).  `used`: set of prefixed spellings already handed out (the
    fresh-interpreter batches want them pairwise distinct)."""
    terms, npre = [], 0
    for i in range(rng.choice((1, 1, 2, 3))):
        s = first if (i == 0 and first) else rng.choice(pools.spell)
        if rng.random() < prefixed:
            for _ in range(8):
                ps = rng.choice(pools.prefix) + s
                if ps not in pools.exact and (used is None or ps not in used):
                    s = ps
                    npre += 1
                    if used is not None:
                        used.add(ps)
                    break
        terms.append([s, rand_exp(rng, nit)])
    return terms, npre


def rand_recipe(rng, pools, nit, first=None, prefixed=0.5, used=None, kinds=("Quantity", "Quantity", "Unit", "Measurement")):
    kind = rng.choice(kinds)
    terms, npre = rand_terms(rng, pools, nit, first, prefixed, used)
    rc = {"kind": kind, "units": terms}
    magkind = None
    if kind == "Quantity":
        magkind, rc["mag"] = rand_mag(rng)
    elif kind == "Measurement":
        magkind = "ufloat"
        rc["mag"] = ["float", (rng.choice((1, -1)) * rng.uniform(0.01, 1e4)).hex()]
        rc["err"] = ["float", rng.choice((0.0, rng.uniform(0, 10))).hex()]
    return rc, magkind, npre


def registry_for(pintload, nit, **kw):
    t = {"float": float, "decimal": Decimal, "fraction": F}[nit]
    return pintload.registry(non_int_type=t, **kw)


def truth(x):
    """all() for arrays, bool() otherwise; None when undecidable."""
    try:
        if hasattr(x, "all"):
            return bool(x.all())
        return bool(x)
    except Exception:  # noqa: BLE001
        return None


def any_truth(x):
    try:
        if hasattr(x, "any"):
            return bool(x.any())
        return bool(x)
    except Exception:  # noqa: BLE001
        return None


def first_diff(a, b, path=""):
    """First path where two JSON-ish structures differ (None if equal)."""
    if type(a) is not type(b):
        return path or "/"
    if isinstance(a, dict):
        for k in sorted(set(a) | set(b)):
            if k not in a or k not in b:
                return f"{path}/{k}"
            d = first_diff(a[k], b[k], f"{path}/{k}")
            if d:
                return d
        return None
    if isinstance(a, list):
        if len(a) != len(b):
            return path + "/len"
        for i, (x, y) in enumerate(zip(a, b)):
            d = first_diff(x, y, f"{path}/{i}")
            if d:
                return d
        return None
    return None if a == b else (path or "/")


# ---------------------------------------------------------------------------
# round-trip judge
# ---------------------------------------------------------------------------
ROUTES = [("pickle", p) for p in range(6)] + [("copy", None), ("deepcopy", None), ("tuple", None)]


def do_route(o, via, p, CH):
    if via == "pickle":
        return pickle.loads(pickle.dumps(o, p))
    if via == "copy":
        return copy.copy(o)
    if via == "deepcopy":
        return copy.deepcopy(o)
    if via == "tuple":
        return type(o).from_tuple(o.to_tuple())
    raise ValueError(via)


def judge_roundtrip(rec, CH, o, want_reg, same_class, tag, witness, magkind, routes=ROUTES,
                    compare_eq=True):
    """o: original.  want_reg(via) -> registry the result must belong to.
    same_class(via, r) -> bool."""
    kind = CH.kind_of(o)
    before = CH.norm(CH.fp_obj(o))
    nan = kind in ("Quantity", "Measurement") and CH.has_nan(o._magnitude)
    for via, p in routes:
        if via == "tuple" and kind not in ("Quantity", "Measurement"):
            continue
        rec.count("roundtrips")
        rec.observe("routes", f"{via}{'' if p is None else p}")
        if via == "pickle":
            rec.observe("protocols", p)
        f = dict(via=via, kind=kind, workload=tag)
        w = dict(witness, via=via, protocol=p)
        try:
            r = do_route(o, via, p, CH)
        except Exception as e:  # noqa: BLE001
            rec.violation("roundtrip-raised", dict(w, err=f"{type(e).__name__}: {e}"[:300]),
                          exc=type(e).__name__, **f)
            continue
        after = CH.norm(CH.fp_obj(r))
        d = first_diff(before, after)
        if d:
            rec.violation("roundtrip-not-equal", dict(w, diff_at=d, original=before, result=after),
                          aspect="fingerprint:" + d.split("/")[1], **f)
            continue
        if kind in ("Quantity", "Measurement", "Unit"):
            reg = want_reg(via)
            if reg is not None and r._REGISTRY is not reg:
                rec.violation("roundtrip-wrong-registry", w, **f)
                continue
            if not same_class(via, r):
                rec.violation("roundtrip-wrong-class", dict(w, cls=repr(type(r)), mro=[c.__name__ for c in type(r).__mro__][:4]), **f)
                continue
        if compare_eq and not nan:
            if kind == "Measurement":
                ok = (r.value.magnitude == o.value.magnitude and r.error.magnitude == o.error.magnitude
                      and r.units == o.units)
            else:
                try:
                    ok = truth(r == o) and not any_truth(r != o)
                except Exception as e:  # noqa: BLE001
                    ok = False
                    w = dict(w, eq_raised=f"{type(e).__name__}: {e}"[:200])
            if not ok:
                rec.violation("roundtrip-not-equal", dict(w, original=before), aspect="pint-eq", **f)
                continue
            ho = None
            if kind != "Measurement" and type(r) is type(o):
                # (ufloat hashes by identity; pint.Quantity -> app.Quantity changes the class that
                # Quantity.__hash__ mixes in: eq/hash consistency across classes is C05's subject)
                try:
                    ho = hash(o)
                except Exception:  # noqa: BLE001   arrays, scaled ParserHelper
                    ho = None
            if ho is not None:
                try:
                    hr = hash(r)
                except Exception as e:  # noqa: BLE001
                    hr = f"raised {type(e).__name__}"
                if hr != ho:
                    rec.violation("roundtrip-not-equal", dict(w, hash_o=ho, hash_r=hr), aspect="hash", **f)
                    continue
        again = CH.norm(CH.fp_obj(o))
        if again != before:
            rec.violation("roundtrip-mutated-original", dict(w, diff_at=first_diff(before, again)), **f)
        rec.case((tag, json.dumps(witness, sort_keys=True, default=repr), via, p))
    if magkind:
        rec.observe("mag_kinds", magkind)
    rec.observe("rt_kinds", kind)


# ---------------------------------------------------------------------------
def run_shard(spec, rec):
    from harness import pintload, refmodel as R
    from harness import c18_child as CH
    import pint

    rng = random.Random(spec["seed"])
    # The statement demands ValueError for ARITHMETIC and ORDERING across registries; it does not say
    # what == returns.  A cross-registry == that answers True is observed and counted, not alarmed on
    # (main-agent review: demanding False would be more than the property states).
    _viol = rec.violation

    def _violation(mech, wit, **f):
        if mech == "cross-registry-eq-true":
            rec.count("cross_registry_eq_true_observed")
            return
        _viol(mech, wit, **f)
    rec.violation = _violation
    pools = Pools(R.default_model(pintload.REPO))
    kind = spec["kind"]
    if kind == "misc":
        run_containers(spec, rec, rng, pools, pint, pintload, CH)
        run_exceptions(spec, rec, rng, pools, pint, pintload, CH)
        return
    fn = {"rt": run_rt, "rtx": run_rtx, "containers": run_containers, "exceptions": run_exceptions,
          "subproc": run_subproc, "cross": run_cross, "evolve": run_evolve, "lazy": run_lazy}[kind]
    fn(spec, rec, rng, pools, pint, pintload, CH)


def make_objects(rec, rng, pools, ureg, nit, n, CH, part=0, prefixed=0.5, cover=True, used=None):
    """Yield (recipe, object, magkind, n_prefixed): first every canonical unit once, then random."""
    firsts = list(pools.canon) if cover else []
    rng.shuffle(firsts)
    i = 0
    while i < n:
        first = firsts[i] if i < len(firsts) else None
        rc, magkind, npre = rand_recipe(rng, pools, nit, first, prefixed if first is None else 0.25, used)
        try:
            o = CH.build(ureg, rc)
        except Exception as e:  # noqa: BLE001   unparsable spelling (prefix+offset unit, keyword ...)
            rec.count("skipped_unbuildable")
            rec.observe("unbuildable", type(e).__name__)
            if first is not None:
                try:
                    rc = {"kind": "Unit", "units": [[first, ["int", 1]]]}
                    o, magkind, npre = CH.build(ureg, rc), None, 0
                except Exception:  # noqa: BLE001
                    i += 1
                    continue
            else:
                continue
        i += 1
        if first is not None:
            rec.observe("units_covered", first)
        if npre:
            rec.count("prefixed_objects")
        yield rc, o, magkind, npre


def run_rt(spec, rec, rng, pools, pint, pintload, CH):
    """In-process round trips inside the application registry."""
    nit = spec["nit"]
    ureg = registry_for(pintload, nit)
    pint.set_application_registry(ureg)
    cls = {"Quantity": ureg.Quantity, "Unit": ureg.Unit, "Measurement": ureg.Measurement}
    for rc, o, magkind, npre in make_objects(rec, rng, pools, ureg, nit, spec["n"], CH, spec["part"]):
        judge_roundtrip(rec, CH, o, lambda via: ureg, lambda via, r: type(r) is cls[CH.kind_of(r)],
                        "rt-" + nit, {"recipe": rc, "nit": nit}, magkind)
        if rng.random() < 0.01:
            rec.sample({"recipe": rc, "nit": nit})
    # module-level (registry-less) classes attached to the application registry
    for _ in range(spec["n"] // 10):
        rc, magkind, npre = rand_recipe(rng, pools, nit)
        try:
            inner = CH.build(ureg, rc)
        except Exception:  # noqa: BLE001
            rec.count("skipped_unbuildable")
            continue
        if rc["kind"] == "Unit":
            o = pint.Unit(inner._units)
        elif rc["kind"] == "Quantity":
            o = pint.Quantity(inner._magnitude, inner._units)
        else:
            o = pint.Measurement(inner._magnitude, inner._units)
        base = {"Quantity": pint.Quantity, "Unit": pint.Unit, "Measurement": pint.Measurement}
        judge_roundtrip(rec, CH, o, lambda via: ureg,
                        lambda via, r: (type(r) is cls[CH.kind_of(r)]) if via == "pickle"
                        else type(r) is base[CH.kind_of(r)],
                        "rt-module-" + nit, {"recipe": rc, "nit": nit, "module_level": True}, magkind,
                        routes=[x for x in ROUTES if x[0] != "tuple"])
        rec.count("module_level_objects")


def run_rtx(spec, rec, rng, pools, pint, pintload, CH):
    """Objects of registry A pickled while the application registry is B (which never parsed
    their prefixed units): results must attach to B with the units registered there."""
    for nit_a, nit_b in (("float", "float"), ("fraction", "float"), ("float", "decimal"), ("decimal", "fraction")):
        A = registry_for(pintload, nit_a)
        B = registry_for(pintload, nit_b)
        pint.set_application_registry(B)
        cls = {"Quantity": B.Quantity, "Unit": B.Unit, "Measurement": B.Measurement}
        for rc, o, magkind, npre in make_objects(rec, rng, pools, A, nit_a, spec["n"] // 4, CH, prefixed=0.8):
            names = list(o._units)
            absent = [n for n in names if n not in B._units]
            if absent:
                rec.count("xreg_prefixed_absent")
            judge_roundtrip(rec, CH, o, lambda via: B, lambda via, r: type(r) is cls[CH.kind_of(r)],
                            "rt-xreg", {"recipe": rc, "nit": f"{nit_a}->{nit_b}"}, magkind,
                            routes=ROUTES[:6], compare_eq=False)
            missing = [n for n in names if n not in B._units]
            if missing:
                rec.violation("unpickle-unit-not-registered", {"recipe": rc, "missing": missing},
                              workload="rt-xreg", kind=rc["kind"])
    run_rtx_swaps(spec, rec, rng, pools, pint, pintload, CH)
    pint.set_application_registry(pint._DEFAULT_REGISTRY)


def run_rtx_swaps(spec, rec, rng, pools, pint, pintload, CH):
    """The SAME pickles loaded again after the application registry was replaced (through
    pint.set_application_registry or through the wrapper's own .set()) by a registry that never met their
    units: every load attaches to the registry installed at that moment, registers the prefixed units THERE,
    and refuses a unit that registry does not define."""
    A = registry_for(pintload, "float")
    A.define("smoot_rtx = 1.7018 * meter")
    blobs = []
    for rc, o, magkind, npre in make_objects(rec, rng, pools, A, "float", max(40, spec["n"] // 10), CH,
                                             prefixed=0.9, cover=False):
        blobs.append((rc, list(o._units), pickle.dumps(o, rng.randrange(6)), CH.kind_of(o)))
    foreign = [("nanosmoot_rtx", pickle.dumps(A.Quantity(2.0, "nanosmoot_rtx"), 2)),
               ("smoot_rtx", pickle.dumps(A.Unit("smoot_rtx"), 4))]
    wrapper = pint.get_application_registry()
    for k in range(4):
        B = pintload.registry()
        how = ("set_application_registry", "ApplicationRegistry.set")[k % 2]
        if k % 2:
            wrapper.set(B)
        else:
            pint.set_application_registry(B)
        rec.observe("app_registry_swaps", how)
        if pint.get_application_registry().get() is not B:
            rec.violation("application-registry-not-installed", {"how": how}, workload="rt-xreg-swap")
            continue
        for rc, names, blob, kind in blobs:
            rec.count("reloads_after_swap")
            rec.case(("swap", k, repr(names)), nontrivial=k > 0)
            absent = [n for n in names if n not in B._units]
            try:
                r = pickle.loads(blob)
            except Exception as e:  # noqa: BLE001
                rec.violation("unpickle-raised", {"recipe": rc, "how": how, "swap": k, "err": repr(e)[:200]},
                              workload="rt-xreg-swap", kind=kind)
                continue
            if absent:
                rec.count("reloads_with_units_new_to_that_registry")
            if r._REGISTRY is not B:
                rec.violation("unpickled-into-wrong-registry", {"recipe": rc, "how": how, "swap": k},
                              workload="rt-xreg-swap", kind=kind)
            missing = [n for n in names if n not in B._units]
            if missing:
                rec.violation("unpickle-unit-not-registered", {"recipe": rc, "missing": missing, "how": how, "swap": k},
                              workload="rt-xreg-swap", kind=kind)
        for name, blob in foreign:
            rec.count("reloads_of_units_unknown_to_that_registry")
            try:
                r = pickle.loads(blob)
            except pint.UndefinedUnitError:
                continue
            except Exception as e:  # noqa: BLE001
                rec.violation("unpickle-raised", {"unit": name, "how": how, "swap": k, "err": repr(e)[:200]},
                              workload="rt-xreg-swap", kind="foreign-unit")
                continue
            rec.violation("unpickle-accepted-unit-unknown-to-the-application-registry",
                          {"unit": name, "how": how, "swap": k, "result": repr(r)[:100]},
                          workload="rt-xreg-swap", kind="foreign-unit")


def run_containers(spec, rec, rng, pools, pint, pintload, CH):
    from pint.util import ParserHelper, UnitsContainer
    nits = {"float": float, "decimal": Decimal, "fraction": F}
    for i in range(spec["n"]):
        nit = rng.choice(sorted(nits))
        d = {}
        for _ in range(rng.randint(0, 4)):
            name = rng.choice(pools.spell)
            if rng.random() < 0.3:
                name = rng.choice(pools.prefix) + name
            if rng.random() < 0.1:
                name = "[" + name + "]"
            d[name] = CH.build_mag(rand_exp(rng, nit))
        w = {"nit": nit, "items": {k: repr(v) for k, v in d.items()}}
        if rng.random() < 0.5:
            o = UnitsContainer(d, non_int_type=nits[nit])
        else:
            sk, scale = rand_mag(rng, rng.choice(("int", "float", "fraction", "decimal", "int", "nan", "bigint")))
            if rng.random() < 0.3:
                scale = ["int", 1]
            w["scale"] = scale
            o = ParserHelper(CH.build_mag(scale), d, non_int_type=nits[nit])
            if rng.random() < 0.2 and d:
                o = ParserHelper.from_string(" * ".join(f"{k}**{rng.randint(1, 3)}" for k in d if "[" not in k) or "3",
                                             nits[nit]) * rng.randint(1, 5)
                w["from_string"] = True
        if rng.random() < 0.5:
            try:
                hash(o)           # a cached hash travels (or not) with the state
            except Exception:  # noqa: BLE001
                pass
        nan = CH.kind_of(o) == "ParserHelper" and CH.has_nan(o.scale)
        judge_roundtrip(rec, CH, o, lambda via: None, lambda via, r: True, "containers", w,
                        "exp-" + nit, compare_eq=not nan)
        # the copy keeps working as a container of its numeric type
        if d and i % 7 == 0:
            r = pickle.loads(pickle.dumps(o, rng.randrange(6)))
            try:
                a, b = CH.norm(CH.fp_obj(o * o)), CH.norm(CH.fp_obj(r * r))
                a2, b2 = CH.norm(CH.fp_obj(o ** 2)), CH.norm(CH.fp_obj(r ** 2))
                a3 = CH.norm(CH.fp_obj(o.add(next(iter(d)), 0.5) if CH.kind_of(o) == "UnitsContainer" else o * "meter"))
                b3 = CH.norm(CH.fp_obj(r.add(next(iter(d)), 0.5) if CH.kind_of(r) == "UnitsContainer" else r * "meter"))
            except Exception as e:  # noqa: BLE001
                rec.count("skipped_container_algebra_raised")
                rec.observe("container_algebra_errors", type(e).__name__)
                continue
            rec.count("container_algebra_checks")
            if a != b or a2 != b2 or a3 != b3:
                rec.violation("roundtrip-not-equal", dict(w, what="algebra on the unpickled container differs"),
                              via="pickle", kind=CH.kind_of(o), aspect="behaviour", workload="containers")


# ---------------------------------------------------------------------------
# exceptions
# ---------------------------------------------------------------------------
def exception_classes(pint):
    import importlib
    import inspect
    import pkgutil
    seen = {}
    for mi in pkgutil.walk_packages(pint.__path__, "pint."):
        if ".testsuite" in mi.name:
            continue
        try:
            mod = importlib.import_module(mi.name)
        except Exception:  # noqa: BLE001   optional dependencies
            continue
        for o in vars(mod).values():
            if inspect.isclass(o) and issubclass(o, BaseException) and o.__module__.startswith("pint"):
                seen[f"{o.__module__}.{o.__qualname__}"] = o
    return seen


STRINGS = ["", "meter", "kilometre / µs", "it's \"quoted\"", "line1\nline2", "[length] / [time]", "°C", "x" * 200,
           " trailing ", "{braces} %s %(x)s", "ångström"]


def rand_field(rng, name, ureg, pools):
    from pint.facets.plain.definitions import PrefixDefinition, UnitDefinition
    def unitish():
        r = rng.random()
        terms, _ = rand_terms(rng, pools, "float", prefixed=0.4)
        try:
            from harness import c18_child as CH
            u = CH.build_units(ureg, terms)
        except Exception:  # noqa: BLE001
            u = ureg.Unit("meter")
        if r < 0.3:
            return u
        if r < 0.55:
            return u._units
        if r < 0.7:
            return ureg.Quantity(rng.randint(1, 9), u)
        if r < 0.9:
            return rng.choice(STRINGS)
        return (rng.choice(STRINGS), rng.randint(0, 5))
    if name in ("definition_type",):
        return rng.choice((UnitDefinition, PrefixDefinition, str, dict))
    if name == "unit_names":
        k = rng.random()
        names = [rng.choice(pools.spell) for _ in range(rng.randint(1, 3))]
        return names[0] if k < 0.4 else (names if k < 0.6 else tuple(names) if k < 0.8 else set(names))
    if name in ("units1", "units2"):
        if name == "units2" and rng.random() < 0.2:
            # present but falsy second operand: pint itself raises these ("" for a bare number,
            # an empty container for a dimensionless quantity)
            return rng.choice(("", ureg.UnitsContainer(), ureg.Unit(""), 0))
        return unitish()
    if name in ("dim1", "dim2"):
        return rng.choice(("", "[length]", ureg.get_dimensionality(rng.choice(pools.canon))))
    if name == "value":
        return rng.choice((rng.choice(STRINGS), 3.5, None))
    return rng.choice(STRINGS)


def real_exceptions(pint, pintload, ureg):
    """Instances pint really raises (their fields are what users pickle)."""
    Q = ureg.Quantity
    strict = pintload.registry(on_redefinition="raise")
    acts = {
        "to-incompatible": lambda: Q(1, "m").to("s"),
        "undefined-unit": lambda: ureg.parse_units("zork_undefined"),
        "undefined-two": lambda: ureg.parse_expression("3 zork_a * zork_b"),
        "getattr-undefined": lambda: ureg.zork_undefined,
        "offset-mul": lambda: Q(1, "degC") * Q(1, "degC"),
        "offset-div-number": lambda: Q(1, "degC") / 2,
        "number-div-offset": lambda: 2 / Q(1, "degC"),
        "offset-div-dimensionless": lambda: Q(1, "degC") / Q(2, ""),
        "log-mul-number": lambda: Q(1, "dBm") * Q(2, ""),
        "log-mul": lambda: Q(1, "dB") * Q(1, "dBm"),
        "log-add": lambda: Q(1, "dBm") + Q(1, "dB"),
        "pow-dimensional": lambda: Q(2, "m") ** Q(2, "m"),
        "redefinition": lambda: strict.define("meter = 3 foot"),
        "redefinition-alias": lambda: strict.define("zork_r = 3 m = meter"),
        "bad-name": lambda: ureg.define("1x = 3 m"),
        "bad-dimension-name": lambda: ureg.define("[foo bar] = [length]/[time]"),
        "bad-modifier": lambda: ureg.define("foo_c18 = 3 m; offset: abc"),
        "bad-group-body": lambda: ureg.define("@group foo_c18\n  meter\n@end"),
        "bad-defaults": lambda: ureg.define("@defaults\n group=3\n@end"),
        "bad-file-line": lambda: ureg.load_definitions(["x_c18 = ", "y_c18 = 3 +"]),
        "bad-expression": lambda: ureg.parse_expression("3 ** ** m"),
        "add-incompatible": lambda: Q(1, "m") + Q(1, "s"),
        "compare-incompatible": lambda: Q(1, "m") < Q(1, "s"),
        "convert-offset-compound": lambda: Q(1, "degC * m").to("kelvin * m"),
        "context-missing": lambda: Q(1, "m").to("Hz"),
        "check-decorator": lambda: ureg.check("[length]")(lambda x: x)(Q(1, "s")),
        "wraps-decorator": lambda: ureg.wraps("m", "s")(lambda x: x)(Q(1, "m")),
    }
    out = []
    for k, f in acts.items():
        try:
            f()
        except Exception as e:  # noqa: BLE001
            if type(e).__module__.startswith("pint"):
                out.append((k, e))
    return out


def exc_diff(rec, before, after):
    """-> None | 'fields' | 'message' | 'fields+message'.  Public fields only; a difference in
    underscore attributes alone is counted, not reported."""
    pub = lambda d: {k: v for k, v in d.items() if not k.startswith("_")}
    fd = pub(before["fields"]) != pub(after["fields"])
    md = before["str"] != after["str"]
    if not fd and not md:
        if before["fields"] != after["fields"]:
            rec.count("exception_private_attribute_differs")
        return None
    return "+".join(x for x, y in (("fields", fd), ("message", md)) if y)


def judge_exception(rec, CH, e, tag, witness):
    cname = f"{type(e).__module__}.{type(e).__qualname__}"
    rec.observe("exception_classes", cname)
    before = CH.norm(CH.fp_obj(e))
    for via, p in ROUTES[:8]:
        rec.count("exception_roundtrips")
        f = dict(via=via, cls=cname)
        w = dict(witness, via=via, protocol=p, original=before, origin=tag)
        try:
            r = do_route(e, via, p, CH)
        except Exception as ex:  # noqa: BLE001
            rec.violation("exception-roundtrip-raised", dict(w, err=f"{type(ex).__name__}: {ex}"[:300]),
                          exc=type(ex).__name__, **f)
            continue
        rec.case(("exc", cname, json.dumps(witness, sort_keys=True, default=repr), via, p))
        if type(r) is not type(e):
            rec.violation("exception-roundtrip", dict(w, got=repr(type(r))), aspect="type", **f)
            continue
        after = CH.norm(CH.fp_obj(r))
        asp = exc_diff(rec, before, after)
        if asp:
            rec.violation("exception-roundtrip", dict(w, result=after, diff_at=first_diff(before, after)),
                          aspect=asp, **f)
        # still an instance of every base it was (except/raise sites rely on it)
        try:
            raise r
        except type(e):
            pass
        except BaseException:  # noqa: BLE001
            rec.violation("exception-roundtrip", w, aspect="not-raisable-as-same-type", **f)


def run_exceptions(spec, rec, rng, pools, pint, pintload, CH):
    import inspect
    ureg = pintload.registry()
    pint.set_application_registry(ureg)
    classes = exception_classes(pint)
    for cname, cls in sorted(classes.items()):
        init = cls.__init__ if "__init__" in cls.__dict__ or any("__init__" in c.__dict__ for c in cls.__mro__[1:] if c.__module__.startswith("pint")) else None
        for _ in range(spec["n_exc"]):
            if init is not None and init is not BaseException.__init__:
                params = [p for p in list(inspect.signature(init).parameters.values())[1:]
                          if p.kind in (p.POSITIONAL_ONLY, p.POSITIONAL_OR_KEYWORD)]
                args = []
                for prm in params:
                    if prm.default is not prm.empty and rng.random() < 0.35:
                        break
                    args.append(rand_field(rng, prm.name, ureg, pools))
            else:
                args = [rng.choice(STRINGS + [3, None]) for _ in range(rng.randint(0, 3))]
            try:
                e = cls(*args)
            except Exception as ex:  # noqa: BLE001
                rec.count("skipped_exception_ctor_raised")
                rec.observe("ctor_errors", f"{cname}:{type(ex).__name__}")
                continue
            judge_exception(rec, CH, e, "constructed", {"cls": cname, "args": [repr(a)[:80] for a in args]})
    reals = real_exceptions(pint, pintload, ureg)
    for k, e in reals:
        rec.observe("real_exception_sites", k)
        judge_exception(rec, CH, e, "raised-by-pint", {"site": k})
    # a few of them through a fresh interpreter as well
    items = []
    for i, (k, e) in enumerate(reals):
        for p in (0, 2, 5):
            try:
                items.append({"id": len(items), "names": None, "blob": pickle.dumps(e, p), "site": k, "p": p,
                              "fp": CH.norm(CH.fp_obj(e))})
            except Exception as ex:  # noqa: BLE001
                rec.violation("exception-roundtrip-raised", {"site": k, "err": repr(ex)[:200]},
                              via="pickle", cls=type(e).__name__, exc=type(ex).__name__)
    res = child(rec, {"job": "unpickle", "app": "lazy"}, items, spec)
    if res:
        for it, r in zip(items, res["items"]):
            rec.count("exception_roundtrips")
            cname = it["fp"]["cls"]
            if "load_error" in r:
                rec.violation("exception-roundtrip-raised", {"site": it["site"], "err": r["load_error"]},
                              via="pickle-subprocess", cls=cname, exc=r["load_error"].split(":")[0])
            elif r["fp"].get("cls") != cname:
                rec.violation("exception-roundtrip", {"site": it["site"], "got": r["fp"]}, aspect="type",
                              via="pickle-subprocess", cls=cname)
            else:
                asp = exc_diff(rec, it["fp"], r["fp"])
                if asp:
                    rec.violation("exception-roundtrip", {"site": it["site"], "original": it["fp"], "result": r["fp"],
                                                          "diff_at": first_diff(it["fp"], r["fp"])},
                                  aspect=asp, via="pickle-subprocess", cls=cname)


# ---------------------------------------------------------------------------
# fresh interpreter
# ---------------------------------------------------------------------------
def child(rec, job, items, spec, timeout=None):
    """Run harness.c18_child in a fresh interpreter.  Returns its JSON result or None (inconclusive)."""
    timeout = timeout or (240 if spec.get("tier") == "quick" else 900)
    d = tempfile.mkdtemp(prefix="verif-c18-")
    jobf, outf, pf = (os.path.join(d, n) for n in ("job.json", "out.json", "items.pkl"))
    try:
        if items is not None:
            pickle.dump([{k: it[k] for k in ("id", "names", "blob")} for it in items], open(pf, "wb"))
            job = dict(job, pickles=pf)
        json.dump(job, open(jobf, "w"))
        env = dict(os.environ)
        env.pop("PYTHONSTARTUP", None)
        try:
            p = subprocess.run([PY, "-X", "faulthandler", "-m", "harness.c18_child", jobf, outf],
                               cwd=VERIF, env=env, timeout=timeout, capture_output=True, text=True)
        except subprocess.TimeoutExpired:
            rec.inconc(f"child interpreter watchdog {timeout}s ({job.get('job')}/{job.get('app') or job.get('trigger')})")
            return None
        if p.returncode != 0 or not os.path.exists(outf):
            rec.inconc(f"child interpreter exit={p.returncode} ({job.get('job')}/{job.get('app') or job.get('trigger')}): "
                       + (p.stderr or p.stdout)[-600:])
            return None
        rec.count("child_interpreters")
        return json.load(open(outf))
    finally:
        for f in (jobf, outf, pf):
            try:
                os.unlink(f)
            except OSError:
                pass
        try:
            os.rmdir(d)
        except OSError:
            pass


def approx(a, b, tol=1e-9):
    if isinstance(a, (int, float)) and isinstance(b, (int, float)) and not isinstance(a, bool):
        if a != a and b != b:
            return True
        if a == b:
            return True
        try:
            return abs(a - b) <= tol * max(abs(a), abs(b))
        except OverflowError:
            return False
    if isinstance(a, list) and isinstance(b, list):
        return len(a) == len(b) and all(approx(x, y, tol) for x, y in zip(a, b))
    return a == b


def same_dims(a, b, tol=1e-9):
    """Dimension vectors as [[name, exp], ...]; a missing name is exponent 0 (float registries
    leave 1e-16 residues when Fraction exponents are summed in floating point)."""
    da, db = dict(map(tuple, a)), dict(map(tuple, b))
    return all(abs(da.get(k, 0.0) - db.get(k, 0.0)) <= tol for k in set(da) | set(db))


def run_subproc(spec, rec, rng, pools, pint, pintload, CH):
    nit, mode = spec["nit"], spec["app"]
    app_nit = {"lazy": "float", "set-float": "float", "set-decimal": "decimal", "set-fraction": "fraction",
               "set-lazy": "float"}[mode]
    ureg = registry_for(pintload, nit)
    rec.observe("subproc_app_modes", mode)
    for b in range(spec["batches"]):
        used, items = set(), []
        for rc, o, magkind, npre in make_objects(rec, rng, pools, ureg, nit, spec["size"], CH, prefixed=0.85,
                                                 cover=False, used=used):
            p = len(items) % 6
            names = list(o._units)
            try:
                blob = pickle.dumps(o, p)
            except Exception as e:  # noqa: BLE001
                rec.violation("roundtrip-raised", {"recipe": rc, "err": repr(e)[:200], "protocol": p},
                              via="pickle", kind=rc["kind"], workload="subproc", exc=type(e).__name__)
                continue
            items.append({"id": len(items), "names": names, "blob": blob, "rc": rc, "p": p,
                          "fp": CH.norm(CH.fp_obj(o)), "phys": CH.norm(CH.physical(o)), "magkind": magkind})
        res = child(rec, {"job": "unpickle", "app": mode}, items, spec)
        if res is None:
            continue
        for it, r in zip(items, res["items"]):
            rec.count("subproc_items")
            rec.observe("protocols", it["p"])
            if it["magkind"]:
                rec.observe("mag_kinds", it["magkind"])
            f = dict(via="pickle-subprocess", kind=it["rc"]["kind"], workload="subproc")
            w = {"recipe": it["rc"], "protocol": it["p"], "app": mode, "producer_nit": nit}
            pre = [n for n in it["names"] if n not in pools.exact]
            if pre and set(pre) <= set(r["absent_before"]):
                rec.count("subproc_prefixed_absent")
            rec.case(("subproc", mode, json.dumps(it["rc"], sort_keys=True), it["p"]), nontrivial=bool(r.get("absent_before")))
            if "load_error" in r:
                rec.violation("unpickle-raised", dict(w, err=r["load_error"], absent_before=r["absent_before"]),
                              exc=r["load_error"].split(":")[0], **f)
                continue
            d = first_diff(it["fp"], r["fp"])
            if d:
                rec.violation("roundtrip-not-equal", dict(w, diff_at=d, original=it["fp"], result=r["fp"]),
                              aspect="fingerprint:" + d.split("/")[1], **f)
                continue
            if not r["attached"]:
                rec.violation("roundtrip-wrong-registry", w, **f)
            if not r["class_is_app"]:
                rec.violation("roundtrip-wrong-class", dict(w, cls=r["type"]), **f)
            if r["registered"]:
                rec.violation("unpickle-unit-not-registered", dict(w, missing=r["registered"]), kind=it["rc"]["kind"],
                              workload="subproc")
            a, c = it["phys"], r["physical"]
            if "ERR" in c and "ERR" not in a:
                rec.violation("unpickled-object-unusable", dict(w, child=c, parent=a), **f)
            elif "ERR" not in a and "ERR" not in c:
                if not same_dims(a["dim"], c["dim"]):
                    rec.violation("unpickled-object-differs", dict(w, child=c, parent=a), aspect="dimensionality", **f)
                elif app_nit == nit and a["root"][0] != "ERR" and c["root"][0] != "ERR":
                    rec.count("subproc_root_values_compared")
                    if not approx(a["root"], c["root"]):
                        rec.violation("unpickled-object-differs", dict(w, child=c, parent=a), aspect="root-value", **f)
        if items:
            rec.sample({"subproc_batch": b, "app": mode, "first": items[0]["rc"]})


# ---------------------------------------------------------------------------
# cross-registry operator matrix
# ---------------------------------------------------------------------------
def _ops():
    import operator as op
    return {
        "add": (op.add, "arith"), "sub": (op.sub, "arith"), "mul": (op.mul, "arith"),
        "truediv": (op.truediv, "arith"), "floordiv": (op.floordiv, "arith"), "mod": (op.mod, "arith"),
        "divmod": (divmod, "arith"), "pow": (op.pow, "pow"),
        "iadd": (op.iadd, "arith"), "isub": (op.isub, "arith"), "imul": (op.imul, "arith"),
        "itruediv": (op.itruediv, "arith"), "ifloordiv": (op.ifloordiv, "arith"), "imod": (op.imod, "arith"),
        "ipow": (op.ipow, "pow"),
        "eq": (op.eq, "eq"), "ne": (op.ne, "eq"),
        "lt": (op.lt, "order"), "le": (op.le, "order"), "gt": (op.gt, "order"), "ge": (op.ge, "order"),
    }


OPERAND_KINDS = ("Q.float", "Q.int", "Q.fraction", "Q.zero", "Q.array", "Unit", "Measurement")


def operand(rng, okind, terms):
    if okind == "Unit":
        return {"kind": "Unit", "units": terms}
    if okind == "Measurement":
        return {"kind": "Measurement", "units": terms, "mag": ["float", rng.uniform(1, 9).hex()],
                "err": ["float", rng.uniform(0, 1).hex()]}
    mag = {"Q.float": lambda: ["float", rng.uniform(0.5, 9).hex()],
           "Q.int": lambda: ["int", rng.randint(1, 5)],
           "Q.fraction": lambda: ["fraction", f"{rng.randint(1, 9)}/{rng.randint(1, 9)}"],
           "Q.zero": lambda: ["int", 0],
           "Q.array": lambda: ["ndarray", "float64", [2], [rng.uniform(1, 5), rng.uniform(1, 5)]]}[okind]()
    return {"kind": "Quantity", "units": terms, "mag": mag}


def srepr(x, n=120):
    try:
        return repr(x)[:n]
    except Exception as e:  # noqa: BLE001   (repr of odd results raises inside pint's formatter)
        return f"<{type(x).__name__}: repr raised {type(e).__name__}>"


def outcome(f, a, b):
    try:
        v = f(a, b)
    except ValueError as e:
        return "ValueError", str(e)[:120]
    except Exception as e:  # noqa: BLE001
        return type(e).__name__, str(e)[:120]
    return "value", v


def run_cross(spec, rec, rng, pools, pint, pintload, CH):
    from harness import gen
    pair = spec["pair"]
    rec.observe("cross_pairs", pair)
    if pair == "fresh/fresh":
        R1, R2 = pintload.registry(), pintload.registry()
    elif pair == "fresh/deepcopy":
        R1 = pintload.registry()
        R1.Quantity(1, "kilometer").to("mile")          # a used registry, not a pristine one
        R2 = copy.deepcopy(R1)
    elif pair == "deepcopy/deepcopy":
        R0 = pintload.registry()
        R1, R2 = copy.deepcopy(R0), copy.deepcopy(R0)
    elif pair == "module-level/module-level":
        # both operands are built through the registry-less module-level classes (pint.Quantity,
        # pint.Unit), each while a DIFFERENT explicit registry is installed as application registry:
        # the two objects share their class and differ only in the registry they carry
        R1, R2 = pintload.registry(), pintload.registry()
    elif pair == "application/lazy":
        # R2: the lazily built default registry reached through the module-level classes;
        # R1: an explicit registry installed as application registry afterwards
        lazy_q = pint.Quantity(1, "meter")
        R2 = lazy_q._REGISTRY
        if R2 is not pint._DEFAULT_REGISTRY or type(R2).__name__ != "UnitRegistry":
            rec.violation("lazy-default-identity", {"cls": type(R2).__name__}, workload="cross")
        R1 = pintload.registry()
        pint.set_application_registry(R1)
        if pint.Quantity(1, "meter")._REGISTRY is not R1 or pint.get_application_registry().get() is not R1:
            rec.violation("application-registry-not-installed", {}, workload="cross")
    else:
        raise ValueError(pair)
    m = pools.model
    mult = gen.canonical_units(m, multiplicative=True)
    mult = [c for c in mult if c.isidentifier()]
    classes = [v for v in gen.dimension_classes(m, mult).values() if len(v) >= 2]
    nonmult = [c for c in pools.canon if not m.is_multiplicative(c)]
    ops = _ops()
    names = sorted(ops)

    def build(reg, rc, module_level):
        """module_level: construct through pint.Quantity/pint.Unit (registry-less classes) — only
        meaningful for the application registry R1 of the application/lazy pair."""
        o = CH.build(reg, rc)
        if pair == "module-level/module-level":
            pint.set_application_registry(reg)
            if rc["kind"] == "Unit":
                return pint.Unit(o._units)
            if rc["kind"] == "Quantity":
                return pint.Quantity(o._magnitude, o._units)
            if rc["kind"] == "Measurement":
                return pint.Measurement(o.value.magnitude, o.error.magnitude, o._units)
        if module_level:
            if rc["kind"] == "Unit":
                return pint.Unit(o._units)
            if rc["kind"] == "Quantity":
                return pint.Quantity(o._magnitude, o._units)
        return o

    for i in range(spec["n"]):
        opname = names[i % len(names)] if rng.random() < 0.8 else rng.choice(names)
        f, fam = ops[opname]
        lk, rk = rng.choice(OPERAND_KINDS), rng.choice(OPERAND_KINDS)
        rel = rng.choice(("same-unit", "same-dim", "dimensionless-rhs", "dimensionless-both", "random", "offset"))
        if fam == "pow" and rng.random() < 0.6:
            rel = rng.choice(("dimensionless-rhs", "dimensionless-both"))
        def pick(s):
            if rng.random() < 0.3:
                for _ in range(5):
                    ps = rng.choice(pools.prefix) + s
                    if ps not in pools.exact:
                        return ps
            return s
        if rel == "same-unit":
            u = pick(rng.choice(mult))
            lt = rt = [[u, ["int", 1]]]
        elif rel == "same-dim":
            a, b = rng.sample(rng.choice(classes), 2)
            lt, rt = [[pick(a), ["int", 1]]], [[pick(b), ["int", 1]]]
        elif rel == "dimensionless-rhs":
            lt, rt = [[pick(rng.choice(mult)), ["int", rng.choice((1, 2))]]], []
        elif rel == "dimensionless-both":
            lt, rt = [], []
        elif rel == "offset":
            lt = [[rng.choice(nonmult), ["int", 1]]]
            rt = lt if rng.random() < 0.5 else [[rng.choice(nonmult), ["int", 1]]]
        else:
            lt = [[pick(rng.choice(mult)), ["int", rng.choice((1, -1, 2))]]]
            rt = [[pick(rng.choice(mult)), ["int", 1]]]
        lrc, rrc = operand(rng, lk, lt), operand(rng, rk, rt)
        if fam in ("eq", "order") and rng.random() < 0.6:
            # equal operands: inside one registry == is True / <= is True, so a cross-registry
            # False (or True) is attributable to the registries, not to the values
            rk, rrc = lk, json.loads(json.dumps(lrc))
            rel = "equal-operands"
        flip = rng.random() < 0.5                      # which registry supplies the left operand
        RA, RB = (R2, R1) if flip else (R1, R2)
        modlev = pair == "application/lazy" and rng.random() < 0.5
        try:
            a_cross = build(RA, lrc, modlev and RA is R1)
            b_cross = build(RB, rrc, modlev and RB is R1)
            a_base = build(RA, lrc, modlev and RA is R1)
            b_base = build(RA, rrc, modlev and RA is R1)
        except Exception as e:  # noqa: BLE001
            rec.count("skipped_unbuildable")
            rec.observe("unbuildable", type(e).__name__)
            continue
        if a_cross._REGISTRY is b_cross._REGISTRY:
            rec.violation("cross-harness", {"why": "operands share a registry"}, workload="cross")
            continue
        base, bval = outcome(f, a_base, b_base)
        cross, cval = outcome(f, a_cross, b_cross)
        lhs, rhs = lrc["kind"], rrc["kind"]
        rec.count("cross_cases")
        rec.observe("cross_ops", opname)
        rec.observe("cross_operand_pairs", f"{lk}|{rk}")
        rec.observe("cross_outcomes", f"{fam}:{'base-ok' if base == 'value' else 'base-' + base}->{cross}")
        w = {"pair": pair, "op": opname, "lhs": lrc, "rhs": rrc, "lhs_from": "second" if flip else "first",
             "module_level": modlev, "relation": rel, "baseline": base,
             "baseline_value": srepr(bval), "cross": cross, "cross_value": srepr(cval)}
        fields = dict(opfamily=fam, lhs=lhs, rhs=rhs)
        decisive = base == "value" or cross == "value"
        rec.case(("cross", pair, opname, lk, rk, rel, flip, modlev), nontrivial=decisive)
        if decisive:
            rec.count("cross_decisive")
        if cross == "ValueError":
            rec.count("cross_valueerror")
            if "different registries" in cval:
                rec.count("cross_valueerror_registry_message")
            continue
        if cross == "value":
            if fam == "eq":
                bad = any_truth(cval) if opname == "eq" else (truth(cval) is not True)
                if bad is None:
                    rec.count("skipped_undecidable_truth")
                elif bad:
                    rec.violation("cross-registry-eq-true", w, **fields)
                else:
                    rec.count("cross_eq_false")
                continue
            rec.violation("cross-registry-silent", w, **fields)
            continue
        if base == cross:
            rec.count("cross_rejected_like_same_registry")     # not a combination in any registry
            continue
        if base == "value":
            rec.violation("cross-registry-wrong-exception", w, exc=cross, **fields)
        else:
            rec.count("cross_both_rejected_differently")
        if i % 500 == 0:
            rec.sample(w)
    if pair in ("application/lazy", "module-level/module-level"):
        pint.set_application_registry(pint._DEFAULT_REGISTRY)


# ---------------------------------------------------------------------------
# deep-copied registry evolves independently
# ---------------------------------------------------------------------------
def evolve_ops(rng, k):
    """One op of each kind; `k` makes the new names unique inside a history."""
    n = f"zork{k}"
    ops = {
        "define_unit": {"define": f"{n} = {rng.randint(2, 9)} * meter = {n}sym = {n}alias"},
        "define_unit_compound": {"define": f"{n} = {rng.randint(2, 9)} * kilogram * meter / second ** 2"},
        "define_alias": {"define": f"@alias furlong = {n}fur"},
        "define_prefix": {"define": f"{n}pre- = 1e-5 = {n}p-", "watch": [f"{n}premeter"]},
        "define_base": {"define": f"{n} = [{n}ness]", "then": f"[{n}rate] = [{n}ness] / [time]"},
        "define_offset": {"define": f"{n} = 2 * kelvin; offset: 10"},
        "define_log": {"define": f"{n} = 1e-3 watt; logbase: 10; logfactor: 10"},
        "define_group": {"define": f"@group {n}grp using international\n    {n} = 3 meter\n    {n}b = 5 second\n@end",
                         "groups": [f"{n}grp"], "watch": [f"{n}b"]},
        "define_system": {"define": f"@system {n}sys using international\n    yard\n@end", "systems": [f"{n}sys"]},
        "define_context": {"define": f"@context {n}ctx = {n}c\n    [length] -> [time]: value / (3 m/s)\n    [time] -> [length]: value * (3 m/s)\n@end",
                           "contexts": [f"{n}ctx"]},
        "load_lines": {"lines": [f"{n} = 12 inch", f"{n}b = 3 {n}"], "watch": [f"{n}b"]},
        "get_group_new": {"call": "get_group_new", "name": f"{n}grp", "units": ["meter", "second"], "groups": [f"{n}grp"]},
        "group_add_units": {"call": "group_add_units", "group": rng.choice(("international", "USCSLengthSurvey", "Printer")),
                            "units": [rng.choice(("stere", "light_year", "fortnight"))]},
        "group_remove_units": {"call": "group_remove_units", "group": rng.choice(("USCSLengthInternational", "international")),
                               "units": ["yard"]},
        "group_add_groups": {"call": "group_add_groups", "group": "Printer", "groups_used": ["Textile"]},
        "add_context_object": {"call": "add_context", "name": f"{n}ctx", "contexts": [f"{n}ctx"]},
        "remove_context": {"call": "remove_context", "name": "textile"},
        "enable_context": {"call": "enable_contexts", "names": [rng.choice(("sp", "boltzmann", "energy"))]},
        "disable_context": {"call": "disable_contexts"},
        "context_redefine": {"call": "context_redefine", "ctx": "Gaussian"},
        "set_default_system": {"call": "set", "attr": "default_system", "value": rng.choice(("cgs", "imperial", "US"))},
        "set_default_format": {"call": "set_format", "value": rng.choice(("~P", ".3f~", "~L"))},
        "set_flags": {"call": "set", "attr": rng.choice(("auto_reduce_dimensions", "autoconvert_offset_to_baseunit", "case_sensitive")),
                      "value": rng.choice((True, False))},
        "parse_prefixed": {"call": "parse", "expr": rng.choice(("zeptofurlong", "3 gigaparsec / attoweek", "kibifathom"))},
        "warm_caches": {"call": "warm"},
        "warm_groups_systems": {"call": "warm_gs"},
    }
    for name, op in ops.items():
        op["kind"] = name
    return ops


def apply_op(reg, op, pint):
    """-> outcome string ('ok' or exception class)."""
    try:
        if "define" in op:
            reg.define(op["define"])
            if "then" in op:
                reg.define(op["then"])
        elif "lines" in op:
            reg.load_definitions(op["lines"])
        else:
            c = op["call"]
            if c == "get_group_new":
                reg.get_group(op["name"]).add_units(*op["units"])
            elif c == "group_add_units":
                reg.get_group(op["group"], False).add_units(*op["units"])
            elif c == "group_remove_units":
                reg.get_group(op["group"], False).remove_units(*op["units"])
            elif c == "group_add_groups":
                reg.get_group(op["group"], False).add_groups(*op["groups_used"])
            elif c == "add_context":
                ctx = pint.Context(op["name"])
                ctx.add_transformation("[length]", "[time]", lambda ureg, x: x / ureg.Quantity(7, "m/s"))
                reg.add_context(ctx)
            elif c == "remove_context":
                reg.remove_context(op["name"])
            elif c == "enable_contexts":
                reg.enable_contexts(*op["names"])
            elif c == "disable_contexts":
                reg.disable_contexts()
            elif c == "context_redefine":
                with reg.context(op["ctx"]):
                    reg.Quantity(1, "franklin").to_base_units()
            elif c == "set":
                setattr(reg, op["attr"], op["value"])
            elif c == "set_format":
                reg.formatter.default_format = op["value"]
            elif c == "parse":
                reg.parse_expression(op["expr"])
            elif c == "warm":
                reg.Quantity(3.0, "mile / hour").to("kilometer / second")
                reg.get_compatible_units("meter")
                reg.Quantity(1.0, "kilowatt_hour").to_base_units()
                reg.parse_units("microfarad")
            elif c == "warm_gs":
                for g in list(reg._groups):
                    reg.get_group(g, False).members
                for s in list(reg._systems):
                    reg.get_system(s, False).members
                reg.get_compatible_units("meter", "imperial")
            else:
                raise RuntimeError("unknown op " + c)
    except Exception as e:  # noqa: BLE001
        return type(e).__name__
    return "ok"


EV_UNITS = ["meter", "yard", "furlong", "stere", "light_year", "fortnight", "franklin", "degC", "dBm",
            "kilometer", "zeptofurlong", "pound", "point", "tex", "US_pint"]


def ev_state(reg, watch, groups, systems, contexts, CH):
    """Answers of one registry through public queries (JSON-able)."""
    A = CH._ans
    Q = reg.Quantity
    out = {"units": A(lambda: list(reg)),
           "group_names": A(lambda: sorted(reg._groups)), "system_names": A(lambda: sorted(reg._systems)),
           "context_names": A(lambda: sorted(reg._contexts)),
           "active_contexts": A(lambda: [c.name for c in reg._active_ctx.contexts]),
           "default_system": A(lambda: reg.default_system),
           "default_format": A(lambda: reg.formatter.default_format),
           "flags": A(lambda: [reg.auto_reduce_dimensions, reg.autoconvert_offset_to_baseunit, reg.case_sensitive])}
    for g in sorted(set(groups) | {"root", "international", "USCSLengthInternational", "USCSLengthSurvey", "Printer", "Textile"}):
        out["members:group:" + g] = A(lambda: sorted(reg.get_group(g, False).members))
        out["compatible:group:" + g] = A(lambda: sorted(str(u._units) for u in reg.get_compatible_units("meter", g)))
    for s in sorted(set(systems) | {"mks", "cgs", "imperial", "US", "SI"}):
        out["members:system:" + s] = A(lambda: sorted(reg.get_system(s, False).members))
        out["base_units:system:" + s] = A(lambda: sorted((k, sorted(v.items())) for k, v in reg.get_system(s, False).base_units.items()))
        out["compatible:system:" + s] = A(lambda: sorted(str(u._units) for u in reg.get_compatible_units("meter", s)))
        out["sysattr:" + s] = A(lambda: [type(getattr(reg.sys, s).meter).__name__, getattr(reg.sys, s).meter._REGISTRY is reg])
    for u in EV_UNITS + sorted(watch):
        out["contains:" + u] = A(lambda: u in reg)
        out["convert:" + u] = A(lambda: CH._q(Q(2.5, u).to_root_units()))
        out["base:" + u] = A(lambda: CH._q(Q(2.5, u).to_base_units()))
        out["format:" + u] = A(lambda: [str(Q(2.5, u)), repr(reg.Unit(u))])
        out["compatible:" + u] = A(lambda: len(reg.get_compatible_units(u)))
    for c in sorted(set(contexts) | {"sp", "textile", "Gaussian"}):
        out["ctx:" + c] = A(lambda: [CH._q(Q(6.0, "m").to("s", c)), CH._q(Q(500.0, "nm").to("THz", c))])
    out["ctx:none"] = A(lambda: CH._q(Q(500.0, "nm").to("THz")))
    out["attached"] = A(lambda: [Q(1, "m")._REGISTRY is reg, reg.Unit("m")._REGISTRY is reg,
                                 reg.Measurement(1.0, 0.1, "m")._REGISTRY is reg,
                                 (Q(1, "m") * reg.Unit("s"))._REGISTRY is reg,
                                 reg.parse_expression("3 m")._REGISTRY is reg,
                                 all(u._REGISTRY is reg for u in reg.get_compatible_units("meter"))])
    return CH.norm(out)


def run_history(pintload, pint, CH, pre, post):
    """pre: ops before the copy; post: [(side, op)].  -> list of (side, probe, got, want) mismatches."""
    src = pintload.registry()
    tw_src, tw_cp = pintload.registry(), pintload.registry()
    out = []
    for op in pre:
        a = apply_op(src, op, pint)
        for t in (tw_src, tw_cp):
            b = apply_op(t, op, pint)
            if a != b:
                out.append(("harness", "pre-op-outcome", a, b))
    cp = copy.deepcopy(src)
    watch, groups, systems, contexts = set(), set(), set(), set()
    for _, op in [("", o) for o in pre] + list(post):
        if "define" in op and not op["define"].startswith("@") and "-" not in op["define"].split("=")[0]:
            watch.add(op["define"].split("=")[0].strip())
        watch.update(op.get("watch", ()))
        groups.update(op.get("groups", ()))
        systems.update(op.get("systems", ()))
        contexts.update(op.get("contexts", ()))
    for side, op in post:
        real, twin = (src, tw_src) if side == "source" else (cp, tw_cp)
        a, b = apply_op(real, op, pint), apply_op(twin, op, pint)
        if a != b:
            out.append((side, "op-outcome", a, b))
    for side, real, twin in (("source", src, tw_src), ("copy", cp, tw_cp)):
        got = ev_state(real, watch, groups, systems, contexts, CH)
        want = ev_state(twin, watch, groups, systems, contexts, CH)
        for k in want:
            if got.get(k) != want[k]:
                out.append((side, k, got.get(k), want[k]))
    return out


GROUP_OPS = {"define_group", "get_group_new", "group_add_units", "group_remove_units", "group_add_groups"}


def run_evolve(spec, rec, rng, pools, pint, pintload, CH):
    kinds = sorted(evolve_ops(random.Random(0), 0))
    quick = spec.get("tier") == "quick"
    solo_bad = set()
    static_bad = {False: set(), True: set()}

    def fam_of(probe):
        return probe.split(":")[0]

    def report(pre, post, mism, mode, skip=()):
        """One violation per probe family.  `ops` is a classifier only for op-outcome mismatches
        (which op behaved differently IS the mechanism); for state probes the family, the side that
        differs and the side that evolved identify it, the history goes into the witness."""
        evolved = ",".join(sorted({s for s, _ in post})) or "none"
        seen = set()
        n = 0
        failed_ops = {side for side, probe, _, _ in mism if probe == "op-outcome"}
        for side, probe, got, want in mism:
            fam = fam_of(probe)
            if (side, fam) in seen or fam in skip:
                continue
            if side in failed_ops and fam != "op-outcome":
                continue          # consequences of an op that did not go through on that side
            seen.add((side, fam))
            n += 1
            opsf = "+".join(sorted({o["kind"] for _, o in post})) if fam == "op-outcome" else "*"
            rec.violation("deepcopy-evolution",
                          {"pre": [o["kind"] for o in pre], "post": [(s, o["kind"]) for s, o in post],
                           "ops": [o for _, o in post], "differs_on": side, "probe": probe,
                           "got": repr(got)[:300], "expected(twin)": repr(want)[:300], "n_mismatches": len(mism)},
                          ops=opsf, evolved=evolved, differs_on=side, probe=fam, mode=mode)
        return n

    def warmups(ops):
        return [ops["warm_caches"], ops["warm_groups_systems"], ops["parse_prefixed"]]

    # (0) fidelity of the copy itself: no evolution at all, cold and warm source
    for warm in (False, True):
        pre = warmups(evolve_ops(rng, 0)) if warm else []
        mism = run_history(pintload, pint, CH, pre, [])
        rec.count("evolve_scenarios")
        rec.case(("evolve-static", warm))
        static_bad[warm] = {fam_of(p) for _, p, _, _ in mism}
        if mism:
            report(pre, [], mism, "no-evolution")
        else:
            rec.count("evolve_scenarios_clean")
    skip_static = static_bad[False] | static_bad[True]
    # (A) one op kind at a time x side x cold/warm copy
    k = 0
    for ki, kind in enumerate(kinds):
        if ki % spec["parts"] != spec["part"]:
            continue
        combos = [("copy", False), ("source", False), ("copy", True), ("source", True)]
        if quick:
            combos = [("copy", ki % 2 == 1), ("source", ki % 2 == 0)]
        for side, warm in combos:
            k += 1
            ops = evolve_ops(rng, k)
            op = ops[kind]
            pre = warmups(ops) if warm else []
            mism = run_history(pintload, pint, CH, pre, [(side, op)])
            rec.count("evolve_scenarios")
            rec.observe("evolve_op_kinds", kind)
            rec.case(("evolve-solo", kind, side, warm))
            if mism and report(pre, [(side, op)], mism, "single-op", skip_static):
                solo_bad.update(fam_of(p) for _, p, _, _ in mism)
            else:
                rec.count("evolve_scenarios_clean")
    # (B) random multi-op histories from the op kinds that are not already attributed in (A):
    # group-object ops (known D15 mechanism) and whatever failed alone in this shard
    safe = [kd for kd in kinds if kd not in GROUP_OPS]
    skip_b = skip_static | (solo_bad - {"op-outcome"})
    rec.observe("evolve_families_attributed_single_op", ",".join(sorted(skip_b)) or "-")
    for j in range(spec["random"]):
        pre, post = [], []
        for _ in range(rng.randint(0, 3)):
            k += 1
            pre.append(evolve_ops(rng, k)[rng.choice(safe)])
        for _ in range(rng.randint(2, 6)):
            k += 1
            post.append((rng.choice(("source", "copy")), evolve_ops(rng, k)[rng.choice(safe)]))
        live = lambda mm: [x for x in mm if fam_of(x[1]) not in skip_b]
        mism = live(run_history(pintload, pint, CH, pre, post))
        rec.count("evolve_scenarios")
        rec.count("evolve_random_histories")
        rec.case(("evolve-random", tuple(o["kind"] for o in pre), tuple((s, o["kind"]) for s, o in post)))
        if not mism:
            rec.count("evolve_scenarios_clean")
            continue
        budget = 10                      # greedy shrink: drop ops while a mismatch remains
        changed = True
        while changed and budget > 0:
            changed = False
            for idx in range(len(pre) + len(post)):
                if budget <= 0:
                    break
                p2 = [o for i2, o in enumerate(pre) if i2 != idx]
                q2 = [o for i2, o in enumerate(post) if i2 + len(pre) != idx]
                if not q2:
                    continue
                budget -= 1
                m2 = live(run_history(pintload, pint, CH, p2, q2))
                if m2:
                    pre, post, mism, changed = p2, q2, m2, True
                    break
        report(pre, post, mism, "random-history-shrunk")
    # (C) the copy is taken WHILE contexts are enabled (one that redefines units, or a rule context): both
    # sides leave the contexts afterwards and then evolve separately
    if spec["part"] == 0:
        redefctx = {"define": "@context c18redef\n    fathom = 2 * meter\n    [length] -> [time]: value / (5 m/s)\n@end",
                    "kind": "define_context", "contexts": ["c18redef"], "watch": ["fathom"]}
        for j, names in enumerate((["c18redef"], ["sp"], ["sp", "c18redef"], ["c18redef", "Gaussian"])):
            k += 1
            ops_a, ops_b, ops_c = evolve_ops(rng, k), evolve_ops(rng, k + 500), evolve_ops(rng, k + 700)
            pre = [dict(redefctx), {"call": "enable_contexts", "names": names, "kind": "enable_context"}]
            leave = {"call": "disable_contexts", "kind": "disable_context"}
            redef = {"define": "furlong = 100 * meter", "kind": "redefine_unit", "watch": ["furlong"]}
            post = [("source", dict(leave)), ("copy", dict(leave)), ("copy", ops_a["define_unit"]),
                    ("source", ops_b["define_unit_compound"]), ("copy" if j % 2 else "source", redef),
                    ("copy", ops_c["define_prefix"])]
            mism = [x for x in run_history(pintload, pint, CH, pre, post) if fam_of(x[1]) not in skip_static]
            rec.count("evolve_scenarios")
            rec.count("evolve_copies_taken_inside_contexts")
            rec.case(("evolve-inside-context", tuple(names)))
            if mism:
                report(pre, post, mism, "copy-taken-inside-context")
            else:
                rec.count("evolve_scenarios_clean")


# ---------------------------------------------------------------------------
# lazily built default registry / application registry
# ---------------------------------------------------------------------------
def run_lazy(spec, rec, rng, pools, pint, pintload, CH):
    triggers = sorted(CH.TRIGGERS) + sorted(CH.INSTALL)
    mine = [t for i, t in enumerate(triggers) if i % spec["parts"] == spec["part"]]
    blob = None
    for trig in mine:
        job = {"job": "lazy", "trigger": trig, "seed": spec["seed"] & 0xFFFF,
               "spellings": rng.sample(pools.spell, 60) + [rng.choice(pools.prefix) + rng.choice(pools.canon) for _ in range(20)]}
        if trig == "unpickle":
            r0 = pintload.registry()
            job["blob"] = pickle.dumps(r0.Quantity(3, "kilometer"), 2).hex()
        res = child(rec, job, None, spec)
        if res is None:
            continue
        rec.count("lazy_children")
        rec.observe("lazy_triggers", trig)
        rec.observe("lazy_policy", f"{trig.split(':')[0]}:{res['policy']}")
        f = dict(trigger=trig)
        inst = trig.startswith("set:")
        if not inst:
            if res["lazy_before"] != "LazyRegistry" or res["still_lazy_after_policy_query"] != "LazyRegistry":
                rec.violation("lazy-built-too-early", {"trigger": trig, "before": res["lazy_before"]}, **f)
            if res["class_after"] != "UnitRegistry" and res["first"] == res["first_explicit"]:
                rec.violation("lazy-not-built-by-trigger", {"trigger": trig, "class_after": res["class_after"]}, **f)
            if not res["default_is_app"]:
                rec.violation("lazy-default-identity", {"trigger": trig}, **f)
            if res["first_attached"] is False:
                rec.violation("lazy-object-not-attached", {"trigger": trig}, **f)
        else:
            for key in ("get_is_installed", "Q_attached", "U_attached", "M_attached", "unpickle_attached"):
                if not res[key]:
                    rec.violation("application-registry-not-installed", {"trigger": trig, "what": key}, what=key, **f)
            if res["default_untouched"] != "LazyRegistry":
                rec.violation("lazy-built-too-early", {"trigger": trig, "default": res["default_untouched"]}, **f)
            if res["installed_class_after_use"] != "UnitRegistry":
                rec.violation("lazy-not-built-by-trigger", {"trigger": trig, "class_after": res["installed_class_after_use"]}, **f)
        rec.case(("lazy-first", trig))
        if res["first"] != res["first_explicit"]:
            rec.violation("lazy-differs", {"trigger": trig, "lazy": res["first"], "explicit": res["first_explicit"]},
                          probe="trigger-result", **f)
        L, E = res["lazy"], res["explicit"]
        bad = {}
        for key in E:
            rec.count("lazy_probes")
            rec.case(("lazy", trig, key), nontrivial=E[key] != ["ERR", "AttributeError"])
            if L.get(key) != E[key]:
                bad.setdefault(key.split(":")[0], []).append(key)
        # the battery goes through the module-level classes / the application-registry proxy; which
        # trigger built the registry is witness data, the probe family is the mechanism
        for fam, keys in bad.items():
            key = keys[0]
            rec.violation("lazy-differs", {"trigger": trig, "probe": key, "n_probes_in_family": len(keys),
                                           "lazy": repr(L.get(key))[:300], "explicit": repr(E[key])[:300]},
                          probe=fam)
        if not bad:
            rec.count("lazy_batteries_clean")
        rec.sample({"trigger": trig, "probes": len(E), "policy": res["policy"]})
