"""C04 — units form a commutative group under * / ** with a canonical representation.

Oracle: arithmetic on plain exponent dicts (Fractions) written here; exact Gaussian
elimination written here for the pi-theorem clause.  Monitors: icontract class invariants
on the live UnitsContainer class (zero exponent / non-str key / stale hash, recorded at
every method boundary during the whole run) and operand fingerprints around every call.
"""
import itertools
import random
from decimal import Decimal
from fractions import Fraction as F

PID = "C04"
DEPS = ("icontract",)
RULE = ("exhaustive: all containers over {a,b,c} with exponents in {-2..2} (125), all 15625 "
        "ordered pairs and (thorough) all 1.95M triples, for UnitsContainer and ParserHelper with "
        "float/Decimal/Fraction non_int_type, Unit objects, quantity units and dimensionalities of "
        "a generated 3-base-unit registry; rational exponents {+-1/2, +-3/2} for pairs in thorough; "
        "random containers over the default registry; random pi-theorem variable sets. distinct = "
        "(layer, law, operands); non-trivial = at least one operand non-empty")
ASSUMPTIONS = [
    "float exponents are dyadic rationals so float arithmetic on them is exact",
    "constructing a container with an explicit zero exponent is an input, not an operation; never generated",
]


def exhaustive(tier):
    return True


def required(tier):
    return {"pair_laws": 100000, "pow_laws": 2000, "triple_laws": 10000, "hash_eq_checks": 100000,
            "snapshots_compared": 100000, "container_invariant_evals": 100000, "pi_sets": 200, "identity_element_reused": 1000, "combined_unit_dimensionality_vs_fresh": 2000, "dim_homomorphism_primed_operands": 1000, "pi_sets_all_dimensionless": 10,
            "layers": 6}


LAYERS = ["uc-float", "uc-decimal", "uc-fraction", "ph-float", "ph-fraction", "unit", "qunit", "dim"]


def shards(tier, seed):
    out = []
    for layer in LAYERS:
        out.append({"kind": "laws", "layer": layer, "name": layer,
                    "triples": 8000 if tier == "quick" else 0, "rational": tier == "thorough"})
    if tier == "thorough":
        for layer in ("uc-float", "uc-fraction", "ph-float", "unit"):
            for part in range(4):
                out.append({"kind": "triples", "layer": layer, "part": part, "parts": 4,
                            "name": f"triples-{layer}-{part}"})
    for i in range(2 if tier == "quick" else 6):
        out.append({"kind": "random", "name": f"random{i}", "n": 4000 if tier == "quick" else 40000})
    for i in range(2 if tier == "quick" else 6):
        out.append({"kind": "pi", "name": f"pi{i}", "n": 400 if tier == "quick" else 6000})
    return out


NAMES = ("a", "b", "c")


def all_expdicts(exps):
    out = []
    for combo in itertools.product(exps, repeat=len(NAMES)):
        out.append({n: F(e) for n, e in zip(NAMES, combo) if e != 0})
    return out


class Layer:
    """Adapter: build an object from an exponent dict, read its exponents back."""

    def __init__(self, name, pint, rec):
        from pint.util import UnitsContainer, ParserHelper
        self.name = name
        kind, _, nitname = name.partition("-")
        self.kind = kind
        self.nit = {"float": float, "decimal": Decimal, "fraction": F, "": float}[nitname]
        self.UC, self.PH = UnitsContainer, ParserHelper
        self.ureg = None
        if kind in ("unit", "qunit", "dim"):
            self.nit = F
            self.ureg = pint.UnitRegistry(
                ["a = [da]", "b = [db]", "c = [dc]", "[dd] = [da] * [db] ** 2 / [dc]"],
                non_int_type=F, cache_folder=None)

    def num(self, e: F):
        if e.denominator == 1:
            return int(e)
        if self.nit is F:
            return e
        return self.nit(e.numerator) / self.nit(e.denominator)

    def make(self, d):
        dd = {k: self.num(v) for k, v in d.items()}
        if self.kind == "uc":
            return self.UC(dd, non_int_type=self.nit)
        if self.kind == "ph":
            return self.PH(1, dd, non_int_type=self.nit)
        if self.kind == "unit":
            return self.ureg.Unit(self.ureg.UnitsContainer(dd))
        if self.kind == "qunit":
            return self.ureg.Quantity(F(3), self.ureg.UnitsContainer(dd))
        if self.kind == "dim":
            return self.ureg.UnitsContainer({f"[d{k}]": v for k, v in dd.items()})
        raise ValueError(self.kind)

    def cont(self, o):
        if self.kind == "unit":
            return o._units
        if self.kind == "qunit":
            return o._units
        return o

    def items(self, o):
        c = self.cont(o)
        out = {}
        for k, v in c._d.items():
            k = k[2:-1] if k.startswith("[d") else k
            out[k] = F(v) if not isinstance(v, float) else F(v)
        return out

    def raw_zero(self, o):
        return [k for k, v in self.cont(o)._d.items() if v == 0]

    def H(self, o):
        return hash(self.cont(o)) if self.kind == "qunit" else hash(o)

    def eq(self, x, y):
        if self.kind == "qunit":
            return x._units == y._units
        return x == y

    def powable(self):
        return True


def madd(a, b, s=1):
    d = dict(a)
    for k, v in b.items():
        nv = d.get(k, 0) + s * v
        if nv == 0:
            d.pop(k, None)
        else:
            d[k] = nv
    return d


def run_shard(spec, rec):
    from harness import pintload, monitors
    import pint

    if not monitors.install_container_invariants():
        rec.inconc("icontract not importable: container invariants not installed")
        return
    rng = random.Random(spec["seed"])
    try:
        if spec["kind"] == "laws":
            run_laws(spec, rec, rng, pint, monitors)
        elif spec["kind"] == "triples":
            run_triples(spec, rec, rng, pint, monitors)
        elif spec["kind"] == "random":
            run_random(spec, rec, rng, pint, pintload, monitors)
        else:
            run_pi(spec, rec, rng, pint, pintload)
    finally:
        monitors.drain(rec, spec["name"])


class Checker:
    def __init__(self, L, rec, monitors):
        self.L, self.rec, self.mon = L, rec, monitors

    def bad(self, law, **w):
        self.rec.violation("law:" + law, dict(w, layer=self.L.name), layer=self.L.kind, law=law)

    def result(self, law, got, want: dict, **w):
        """The produced object must have exactly the model exponents and no zero entry."""
        L = self.L
        z = L.raw_zero(got)
        if z:
            self.bad("zero-exponent-survives", op=law, zero_keys=z, items=repr(dict(L.cont(got)._d)), **w)
        it = {k: v for k, v in L.items(got).items() if v != 0}
        if it != want:
            self.bad(law, got=str(it), want=str(want), **w)
        return it == want and not z

    def snapshot(self, *objs):
        return [self.mon.fp(o) for o in objs]

    def unchanged(self, law, before, *objs):
        self.rec.count("snapshots_compared", len(objs))
        after = [self.mon.fp(o) for o in objs]
        if after != before:
            self.bad("operand-mutated", op=law, before=repr(before)[:300], after=repr(after)[:300])

    def eqhash(self, law, o1, o2, should_equal: bool, **w):
        L = self.L
        x, y = o1, o2
        self.rec.count("hash_eq_checks")
        e = L.eq(x, y)
        if e is not should_equal and e != should_equal:
            self.bad("eq-iff-same-items", op=law, eq=repr(e), model_equal=should_equal, **w)
        if should_equal:
            try:
                if L.H(x) != L.H(y):
                    self.bad("eq-implies-same-hash", op=law, **w)
            except ValueError:
                pass  # ParserHelper with scale != 1 is documented unhashable


def fresh(L, d):
    return L.make(d)


def pair_laws(ck, L, dx, dy, rec):
    x, y = L.make(dx), L.make(dy)
    hx, hy = L.H(x), L.H(y)   # force the cached hashes BEFORE deriving anything
    before = ck.snapshot(x, y)
    rec.count("pair_laws")
    w = {"x": str(dx), "y": str(dy)}
    p = x * y
    ck.result("mul", p, madd(dx, dy), **w)
    p2 = y * x
    ck.eqhash("commutative", p, p2, True, **w)
    ck.eqhash("mul-vs-fresh", p, fresh(L, madd(dx, dy)), True, **w)
    q = x / y
    ck.result("div", q, madd(dx, dy, -1), **w)
    ck.eqhash("div-vs-fresh", q, fresh(L, madd(dx, dy, -1)), True, **w)
    back = q * y
    ck.result("div-then-mul", back, dx, **w)
    ck.eqhash("x/y*y==x", back, x, True, **w)
    ck.eqhash("eq", x, y, dx == dy, **w)
    if L.H(x) != hx or L.H(y) != hy:
        ck.bad("hash-changed", **w)
    ck.unchanged("pair", before, x, y)


def pow_laws(ck, L, dx, rec, ks):
    x = L.make(dx)
    L.H(x)
    before = ck.snapshot(x)
    w = {"x": str(dx)}
    empty = fresh(L, {})
    for k in ks:
        rec.count("pow_laws")
        kk = L.num(k)
        try:
            r = x ** kk
        except Exception as e:  # noqa: BLE001
            ck.bad("pow-raised", k=str(k), err=repr(e), **w)
            continue
        want = {n: v * k for n, v in dx.items() if v * k != 0}
        ck.result("pow", r, want, k=str(k), **w)
        ck.eqhash("pow-vs-fresh", r, fresh(L, want), True, k=str(k), **w)
        if k == 0:
            ck.eqhash("u**0==dimensionless", r, empty, True, **w)
        for j in ks:
            if k == 0 or j == 0 or (k * j).denominator > 2:
                continue
            try:
                rr = r ** L.num(j)
                direct = x ** L.num(k * j)
            except Exception as e:  # noqa: BLE001
                ck.bad("pow-raised", k=str(k), j=str(j), err=repr(e), **w)
                continue
            ck.eqhash("(u**a)**b==u**(a*b)", rr, direct, True, a=str(k), b=str(j), **w)
    # exact rational exponents given as Fraction objects (also on float-typed containers): the laws
    # quantify over Fraction exponents, and int * Fraction stays exact whatever the container's type
    # Only where the container's own numeric type is Fraction: a float-typed ParserHelper coerces
    # exponents to float in its constructor (by design), so (u**(1/10))**3 != u**(3/10) there on the
    # unchanged tree; demanding exactness of float-typed containers would be a false alarm.
    if dx and L.kind in ("uc", "ph", "unit") and L.nit is F:
        for a, b in ((F(1, 3), 3), (F(1, 10), 3), (F(2, 7), F(7, 2))):
            rec.count("pow_laws")
            try:
                r1 = (x ** a) ** b
                r2 = x ** (a * b)
                pa, pb = x ** a, x ** F(b)
                prod = pa * (x ** (1 - a))
            except Exception as e:  # noqa: BLE001
                ck.bad("pow-raised", k=str(a), j=str(b), err=repr(e), **w)
                continue
            ck.eqhash("(u**a)**b==u**(a*b) [Fraction exponents]", r1, r2, True, a=str(a), b=str(b), **w)
            ck.eqhash("u**a*u**(1-a)==u [Fraction exponents]", prod, x, True, a=str(a), **w)
    s = x / x
    ck.result("u/u", s, {}, **w)
    ck.eqhash("u/u==dimensionless", s, empty, True, **w)
    # the identity element keeps working as one: u**0 and u/u, USED in further products and quotients (also
    # with non-integer exponents), give what the empty expression gives, in the layer's own numeric type
    if dx and L.kind in ("uc", "ph", "unit"):
        try:
            z = x ** L.num(F(0))
        except Exception:  # noqa: BLE001
            z = None
        for e in (F(1), F(1, 2), F(-3, 2)):
            dy = {n: v * e for n, v in dx.items()}
            if L.nit is not F and any(v.denominator not in (1, 2) for v in dy.values()):
                continue
            try:
                y = fresh(L, dy)
                yinv = fresh(L, {n: -v for n, v in dy.items()})
            except Exception:  # noqa: BLE001
                continue
            for iname, ident in (("u**0", z), ("u/u", s)):
                if ident is None:
                    continue
                rec.count("identity_element_reused")
                try:
                    q1, q2 = ident / y, ident * y
                except Exception as ex:  # noqa: BLE001
                    ck.bad("identity-element-unusable", identity=iname, y=str(dy), err=repr(ex)[:200], **w)
                    continue
                ck.eqhash(f"({iname})/v==v**-1", q1, yinv, True, y=str(dy), **w)
                ck.eqhash(f"({iname})*v==v", q2, y, True, y=str(dy), **w)
                if L.nit is not float:
                    bad_t = [repr(v) for v in L.cont(q1)._d.values() if isinstance(v, float)]
                    if bad_t:
                        ck.bad("float-exponent-in-exact-layer", identity=iname, y=str(dy), exponents=bad_t, **w)
    if L.kind == "uc" or L.kind == "ph":
        inv = 1 / x
        ck.result("1/u", inv, {n: -v for n, v in dx.items()}, **w)
    ck.unchanged("pow", before, x)


def run_laws(spec, rec, rng, pint, monitors):
    L = Layer(spec["layer"], pint, rec)
    ck = Checker(L, rec, monitors)
    rec.observe("layers", spec["layer"])
    ints = all_expdicts((-2, -1, 0, 1, 2))
    ks = [F(-2), F(-1), F(0), F(1), F(2), F(1, 2), F(-1, 2)]
    for dx in ints:
        rec.case((L.name, "pow", str(dx)), nontrivial=bool(dx))
        pow_laws(ck, L, dx, rec, ks)
    for dx in ints:
        for dy in ints:
            rec.case((L.name, "pair", str(dx), str(dy)), nontrivial=bool(dx or dy))
            pair_laws(ck, L, dx, dy, rec)
    rec.sample({"layer": L.name, "x": str(ints[37]), "y": str(ints[101]),
                "x*y": str(madd(ints[37], ints[101]))})
    if spec["rational"]:
        rat = all_expdicts((F(-3, 2), F(-1, 2), 0, F(1, 2), F(3, 2), 1))
        for dx in rat:
            for dy in rat:
                rec.case((L.name, "ratpair", str(dx), str(dy)), nontrivial=bool(dx or dy))
                pair_laws(ck, L, dx, dy, rec)
    # container-only API: add / remove / rename keep the invariant and do not mutate
    if L.kind in ("uc", "ph"):
        for dx in ints:
            if not dx:
                continue
            x = L.make(dx)
            L.H(x)
            before = ck.snapshot(x)
            k0 = next(iter(dx))
            for delta in (-2, -1, 1, 2):
                r = x.add(k0, delta)
                ck.result("add", r, madd(dx, {k0: F(delta)}), x=str(dx), key=k0, delta=delta)
                ck.eqhash("add-vs-fresh", r, fresh(L, madd(dx, {k0: F(delta)})), True, x=str(dx))
            r = x.remove([k0])
            ck.result("remove", r, {k: v for k, v in dx.items() if k != k0}, x=str(dx))
            ck.eqhash("remove-vs-fresh", r, fresh(L, {k: v for k, v in dx.items() if k != k0}), True, x=str(dx))
            r = x.rename(k0, "zz")
            want = {("zz" if k == k0 else k): v for k, v in dx.items()}
            if L.H(r) != L.H(L.make(want)) or not L.eq(r, L.make(want)):
                ck.bad("rename", x=str(dx))
            if L.kind == "ph":
                # ParserHelper also multiplies / divides by a bare name
                r = x * "zz"
                ck.result("ph*str", r, madd(dx, {"zz": F(1)}), x=str(dx))
                ck.eqhash("ph*str-vs-fresh", r, fresh(L, madd(dx, {"zz": F(1)})), True, x=str(dx))
                r = x / k0
                ck.result("ph/str", r, madd(dx, {k0: F(-1)}), x=str(dx))
                ck.eqhash("ph/str-vs-fresh", r, fresh(L, madd(dx, {k0: F(-1)})), True, x=str(dx))
                r = "zz" / x
                ck.result("str/ph", r, madd({"zz": F(1)}, dx, -1), x=str(dx))
            c = x.copy()
            ck.eqhash("copy", c, x, True, x=str(dx))
            c2 = c * L.make({"a": F(1)})   # mutating the copy's derivation must not touch x
            ck.unchanged("add/remove/rename/copy", before, x)
            rec.count("container_api_checks")
    # sampled triples (complete in the thorough 'triples' shards)
    for _ in range(spec["triples"]):
        dx, dy, dz = rng.choice(ints), rng.choice(ints), rng.choice(ints)
        triple_law(ck, L, dx, dy, dz, rec)
    if L.kind == "ph":
        run_scaled_parserhelper(ck, L, rec, rng, ints)
    if L.kind in ("unit", "qunit"):
        run_dim_homomorphism(ck, L, rec, ints, rng)


def triple_law(ck, L, dx, dy, dz, rec):
    x, y, z = L.make(dx), L.make(dy), L.make(dz)
    rec.count("triple_laws")
    rec.case((L.name, "triple", str(dx), str(dy), str(dz)), nontrivial=bool(dx or dy or dz))
    l = (x * y) * z
    r = x * (y * z)
    want = madd(madd(dx, dy), dz)
    ck.result("assoc-left", l, want, x=str(dx), y=str(dy), z=str(dz))
    ck.eqhash("associative", l, r, True, x=str(dx), y=str(dy), z=str(dz))
    d1 = (x / y) / z
    d2 = x / (y * z)
    ck.eqhash("x/y/z==x/(y*z)", d1, d2, True, x=str(dx), y=str(dy), z=str(dz))


def run_triples(spec, rec, rng, pint, monitors):
    L = Layer(spec["layer"], pint, rec)
    ck = Checker(L, rec, monitors)
    ints = all_expdicts((-2, -1, 0, 1, 2))
    for i, dx in enumerate(ints):
        if i % spec["parts"] != spec["part"]:
            continue
        for dy in ints:
            for dz in ints:
                triple_law(ck, L, dx, dy, dz, rec)
    rec.count("pair_laws", 0)


def run_scaled_parserhelper(ck, L, rec, rng, ints):
    """ParserHelper carries a scale: * / ** act on it like on a number; == compares it."""
    PH = L.PH
    scales = [F(1), F(2), F(1, 2), F(-3), F(5, 4)]
    for _ in range(3000):
        dx, dy = rng.choice(ints), rng.choice(ints)
        sx, sy = rng.choice(scales), rng.choice(scales)
        conv = (lambda s: s) if L.nit is F else (lambda s: float(s))
        x = PH(conv(sx), {k: L.num(v) for k, v in dx.items()}, non_int_type=L.nit)
        y = PH(conv(sy), {k: L.num(v) for k, v in dy.items()}, non_int_type=L.nit)
        before = ck.snapshot(x, y)
        rec.count("parserhelper_scaled")
        rec.case((L.name, "scaled", str(sx), str(dx), str(sy), str(dy)))
        p, q = x * y, x / y
        ck.result("ph-mul", p, madd(dx, dy))
        ck.result("ph-div", q, madd(dx, dy, -1))
        close = (lambda a, b: a == b) if L.nit is F else (lambda a, b: abs(float(a) - float(b)) <= 1e-12 * abs(float(b)))
        if not close(F(p.scale), sx * sy) or not close(F(q.scale), sx / sy):
            ck.bad("ph-scale", sx=str(sx), sy=str(sy), mul=repr(p.scale), div=repr(q.scale))
        r = x ** 2
        ck.result("ph-pow", r, {k: v * 2 for k, v in dx.items()})
        if F(r.scale) != sx ** 2:
            ck.bad("ph-scale", sx=str(sx), pow2=repr(r.scale))
        z = x ** 0
        ck.result("ph-pow0", z, {}, x=str(dx), scale=str(sx))
        if (x == y) != (sx == sy and dx == dy):
            ck.bad("ph-eq", x=(str(sx), str(dx)), y=(str(sy), str(dy)))
        n = x * 3
        if F(n.scale) != sx * 3 or L.items(n) != dx:
            ck.bad("ph-number-mul", x=(str(sx), str(dx)))
        ck.unchanged("ph-scaled", before, x, y)


def run_dim_homomorphism(ck, L, rec, ints, rng):
    ureg = L.ureg
    dimof = {"a": {"[da]": F(1)}, "b": {"[db]": F(1)}, "c": {"[dc]": F(1)}}

    def model_dim(d):
        out = {}
        for k, v in d.items():
            out = madd(out, {kk: vv * v for kk, vv in dimof[k].items()})
        return out

    for it in range(4000):
        dx, dy = rng.choice(ints), rng.choice(ints)
        x, y = L.make(dx), L.make(dy)
        if it % 2:
            # KEPT operands: their own dimensionality (and what hangs on it) was asked for before they are combined
            x.dimensionality, y.dimensionality
            getattr(x, "dimensionless", None), getattr(y, "dimensionless", None)
            rec.count("dim_homomorphism_primed_operands")
        k = rng.choice((-2, -1, 2, 3))
        rec.count("dim_homomorphism")
        rec.case((L.name, "dimhom", str(dx), str(dy), k), nontrivial=bool(dx or dy))
        for name, obj, want in (("mul", x * y, model_dim(madd(dx, dy))),
                                ("div", x / y, model_dim(madd(dx, dy, -1))),
                                ("pow", x ** k, model_dim({n: v * k for n, v in dx.items()}))):
            got = {kk: F(vv) for kk, vv in obj.dimensionality._d.items()}
            zero = [kk for kk, vv in obj.dimensionality._d.items() if vv == 0]
            if got != want or zero:
                ck.bad("dimensionality-homomorphism", op=name, x=str(dx), y=str(dy), k=k,
                       got=str(got), want=str(want))
            # and as container algebra on the dimensionalities themselves
        dd = x.dimensionality * y.dimensionality
        if {kk: F(vv) for kk, vv in dd._d.items()} != model_dim(madd(dx, dy)):
            ck.bad("dimensionality-product", x=str(dx), y=str(dy))


def run_random(spec, rec, rng, pint, pintload, monitors):
    """Random containers over the whole default registry, through Unit and Quantity."""
    from harness import refmodel as R, gen
    m = R.default_model(pintload.REPO)
    names = gen.canonical_units(m)
    rec.observe("layers", "default-registry")
    for nit in (float, F):
        ureg = pintload.registry(non_int_type=nit)
        L = Layer("uc-float" if nit is float else "uc-fraction", pint, rec)
        L.kind, L.ureg, L.name = "unit", ureg, f"unit-default-{nit.__name__}"
        ck = Checker(L, rec, monitors)
        for i in range(spec["n"] // 2):
            dx = gen.compound(rng, names, 1, 4)
            dy = gen.compound(rng, names, 1, 4)
            if rng.random() < 0.5:   # overlap so that cancellations happen
                for k in rng.sample(list(dx), rng.randint(1, len(dx))):
                    dy[k] = rng.choice((-dx[k], dx[k], F(1)))
            mk = lambda d: ureg.Unit(ureg.UnitsContainer({k: int(v) for k, v in d.items()}))  # noqa: E731
            x, y = mk(dx), mk(dy)
            hash(x), hash(y)
            primed = i % 2 == 1
            if primed:
                # operands that were already asked for their dimensionality / compatibility (kept Unit objects)
                x.dimensionality, y.dimensionality, x.dimensionless, x.is_compatible_with(y)
            before = ck.snapshot(x, y)
            rec.case((L.name, str(sorted(dx.items())), str(sorted(dy.items()))))
            rec.count("pair_laws")
            p, q = x * y, x / y
            ck.result("mul", p, madd(dx, dy))
            ck.result("div", q, madd(dx, dy, -1))
            ck.eqhash("commutative", p, y * x, True, x=str(dx), y=str(dy))
            ck.eqhash("x/y*y==x", q * y, x, True, x=str(dx), y=str(dy))
            # the dimensionality a combined unit reports is the one a freshly built unit with the same
            # content reports (no memo carried over from the operands), and u / u is dimensionless
            for opn, obj in (("mul", p), ("div", q), ("pow", x ** -2), ("self-div", x / x)):
                rec.count("combined_unit_dimensionality_vs_fresh")
                twin = ureg.Unit(ureg.UnitsContainer(dict(obj._units._d)))
                if dict(obj.dimensionality._d) != dict(twin.dimensionality._d) or obj.dimensionless != twin.dimensionless:
                    ck.bad("combined-unit-dimensionality-differs-from-fresh-unit", op=opn, x=str(dx), y=str(dy),
                           primed_operands=primed, got=str(obj.dimensionality), want=str(twin.dimensionality))
            if not (x / x).dimensionless or dict((x / x).dimensionality._d):
                ck.bad("self-quotient-not-dimensionless", x=str(dx), primed_operands=primed)
            z = x ** 0
            ck.result("pow0", z, {}, x=str(dx))
            ck.eqhash("u**0==dimensionless", z, ureg.Unit(""), True, x=str(dx))
            qq = ureg.Quantity(nit(2), x) * ureg.Quantity(nit(3), y)
            ck.result("quantity-mul-units", qq.units, madd(dx, dy))
            qd = ureg.Quantity(nit(2), x) / ureg.Quantity(nit(3), x)
            ck.result("quantity-self-div-units", qd.units, {})
            ck.unchanged("random", before, x, y)
            if i % 1000 == 0:
                rec.sample({"x": gen.render_units(dx), "y": gen.render_units(dy)})


# ---------------------------------------------------------------------------
def rank_and_nullity(rows):
    """rows: list of lists of Fractions -> rank (own Gaussian elimination)."""
    mat = [list(r) for r in rows]
    rank, ncol = 0, len(mat[0]) if mat else 0
    for c in range(ncol):
        piv = next((r for r in range(rank, len(mat)) if mat[r][c] != 0), None)
        if piv is None:
            continue
        mat[rank], mat[piv] = mat[piv], mat[rank]
        pv = mat[rank][c]
        mat[rank] = [v / pv for v in mat[rank]]
        for r in range(len(mat)):
            if r != rank and mat[r][c] != 0:
                f = mat[r][c]
                mat[r] = [a - f * b for a, b in zip(mat[r], mat[rank])]
        rank += 1
    return rank


def run_pi(spec, rec, rng, pint, pintload):
    from harness import refmodel as R, gen
    m = R.default_model(pintload.REPO)
    names = [c for c in gen.canonical_units(m) if m.root(c)[2]]
    ureg = pintload.registry()
    small = [c for c in names if len(m.root(c)[2]) <= 3]
    bydim = {}
    for c in small:
        bydim.setdefault(tuple(sorted(m.root(c)[2].items())), []).append(c)
    same_dim = [v for k, v in sorted(bydim.items()) if len(v) >= 2]
    for i in range(spec["n"]):
        nv = rng.randint(1 if i % 7 == 0 else 2, 6)
        # few base dimensions so that the null space is usually non-trivial
        pool = rng.sample(small, 4)
        variables = {}
        # boundary: variables that are dimensionless ratios of two units of one dimension
        # (every variable in one iteration out of ten: the dimensionality matrix is then empty)
        mode = rng.random()
        for j in range(nv):
            if mode < 0.1 or (mode < 0.3 and rng.random() < 0.4):
                a, b = rng.sample(rng.choice(same_dim), 2)
                d = {a: F(1), b: F(-1)}
                rec.count("pi_dimensionless_variables")
            else:
                d = gen.compound(rng, pool, 1, 2, exps=(-2, -1, 1, 2))
            variables[f"V{j}"] = d
        if mode < 0.1:
            rec.count("pi_sets_all_dimensionless")
        strs = {k: gen.render_units(d) for k, d in variables.items()}
        dims = {k: m.dimvec(d) for k, d in variables.items()}
        alld = sorted({x for d in dims.values() for x in d})
        rows = [[dims[k].get(x, F(0)) for k in variables] for x in alld]
        rank = rank_and_nullity(rows) if rows else 0
        nullity = nv - rank
        rec.count("pi_sets")
        rec.case(("pi", tuple(sorted(strs.items()))), nontrivial=nullity > 0)
        rec.observe("pi_nullity", nullity)
        try:
            res = ureg.pi_theorem(strs)
        except Exception as e:  # noqa: BLE001
            rec.violation("pi-raised", {"vars": strs, "err": repr(e)}, law="pi")
            continue
        w = {"vars": strs, "result": [{k: str(v) for k, v in r.items()} for r in res]}
        if len(res) != nullity:
            rec.violation("pi-wrong-count", dict(w, nullity=nullity), law="pi")
            continue
        vecs = []
        for r in res:
            tot = {}
            for k, e in r.items():
                if e == 0:
                    rec.violation("pi-zero-exponent", w, law="pi")
                tot = madd(tot, {x: v * F(e) for x, v in dims[k].items()})
            if tot:
                rec.violation("pi-not-dimensionless", dict(w, residual=str(tot)), law="pi")
            vecs.append([F(r.get(k, 0)) for k in variables])
        if vecs and rank_and_nullity(vecs) != len(vecs):
            rec.violation("pi-not-independent", w, law="pi")
        if i % 100 == 0:
            rec.sample({"vars": strs, "pi": w["result"]})
