"""C11 — context conversions apply the declared rules along a shortest chain.

Oracle: harness/ctxmodel.py — own reader of the @context blocks, own BFS returning ALL
shortest chains over dimension vectors (most recent context wins per edge), rule equations
evaluated by the reference model's own parser over exact root-unit quantities, parameters
resolved call kwargs -> enclosing context -> declared defaults, redefinition overlays.
pint's answer must equal the value of SOME shortest chain (ties are broken by set order,
which depends on PYTHONHASHSEED: the same cases are replayed under several hash seeds).
"""
import itertools
import random
from fractions import Fraction as F

PID = "C11"
RULE = ("bundled contexts (spectroscopy, boltzmann, energy, chemistry, textile exact; Gaussian, ESU "
        "at 1e-9): every ordered pair of rule endpoints x random units of those dimensions x activation "
        "form {enable_contexts, with, per-call to(), decorator, Context object, alias} x parameters; "
        "generated registries with 2-4 generated contexts (monomial equations, parameters, overlapping "
        "rules, parallel chains, redefinitions), stacks of 1-4, every activation form; each generated "
        "case set is replayed under 4 PYTHONHASHSEEDs. distinct = (context stack, form, src, dst); "
        "non-trivial = source and target dimensionality differ")
ASSUMPTIONS = [
    "any shortest chain is accepted; when several enclosing contexts could donate parameters "
    "(3+ levels with different values) every donor is accepted and the observed one is recorded",
    "Gaussian/ESU involve k_C ** 0.5: compared at 1e-9 relative",
]


def exhaustive(tier):
    return False


def required(tier):
    return {"cross_dimension_checked": 5000, "multi_step_chains": 300, "unreachable_checked": 200,
            "same_dimension_checked": 300, "forms": 6, "redefinition_cases": 100,
            "param_from_enclosing": 100, "tie_cases": 5, "inplace_conversions": 1000}


def shards(tier, seed):
    out = []
    for i in range(4 if tier == "quick" else 8):
        out.append({"kind": "bundled", "name": f"bundled{i}", "n": 1500 if tier == "quick" else 8000})
    # the same generated case streams under different hash seeds
    streams = 3 if tier == "quick" else 12
    for st in range(streams):
        for hs in range(4):
            out.append({"kind": "generated", "name": f"gen{st}-h{hs}", "seed": 7000 + 31 * st + seed * 1009,
                        "hashseed": 100 * hs + st + 1, "n": 20 if tier == "quick" else 80})
    return out


NODE_UNITS = {
    "[length]": ["meter", "nanometer", "angstrom", "inch", "mile"],
    "[frequency]": ["hertz", "terahertz", "1 / minute"],
    "[energy]": ["joule", "electron_volt", "erg", "kilocalorie"],
    "[wavenumber]": ["1 / meter", "reciprocal_centimeter", "1 / inch"],
    "[temperature]": ["kelvin", "millikelvin", "degree_Rankine"],
    "[mass]": ["gram", "kilogram", "pound", "dalton"],
    "[energy] / [substance]": ["joule / mole", "kilocalorie / mole", "electron_volt / particle"],
    "[substance]": ["mole", "millimole", "particle"],
    "[substance] / [volume]": ["mole / liter", "molar", "millimole / meter ** 3"],
    "[mass] / [volume]": ["gram / liter", "kilogram / meter ** 3", "pound / gallon"],
    "[substance] / [mass]": ["mole / kilogram", "millimole / gram"],
    "[mass] / [mass]": ["gram / kilogram", "pound / ton"],
    "[mass] / [length]": ["tex", "denier", "gram / meter"],
    "[length] / [mass]": ["number_meter", "number_english", "meter / gram"],
    "[charge]": ["coulomb", "ampere_hour"],
    "[gaussian_charge]": ["franklin"],
    "[current]": ["ampere", "milliampere"],
    "[gaussian_current]": ["statampere"],
    "[electric_potential]": ["volt", "kilovolt"],
    "[gaussian_electric_potential]": ["statvolt"],
    "[resistance]": ["ohm"],
    "[gaussian_resistance]": ["statohm"],
    "[time]": ["second"],
    "[luminosity]": ["candela"],
}
BUNDLED = {
    "spectroscopy": (["[length]", "[frequency]", "[energy]", "[wavenumber]", "[mass]", "[time]"], "sp"),
    "boltzmann": (["[temperature]", "[energy]", "[mass]"], None),
    "energy": (["[energy]", "[energy] / [substance]", "[mass]", "[length]"], None),
    "chemistry": (["[substance]", "[mass]", "[substance] / [volume]", "[mass] / [volume]",
                   "[substance] / [mass]", "[mass] / [mass]", "[time]"], "chem"),
    "textile": (["[mass] / [length]", "[length] / [mass]", "[mass]"], None),
    "Gaussian": (["[charge]", "[gaussian_charge]", "[current]", "[gaussian_current]",
                  "[electric_potential]", "[gaussian_electric_potential]", "[resistance]",
                  "[gaussian_resistance]", "[mass]"], "Gau"),
}


def parse_units(R, expr):
    v, d = R.evaluate(expr)
    assert v.v == 1, expr
    return d


def equal(a, b):
    if isinstance(a, float) or isinstance(b, float):
        fa, fb = float(a), float(b)
        return abs(fa - fb) <= 1e-9 * max(abs(fa), abs(fb), 1e-300)
    return a == b


def run_shard(spec, rec):
    from harness import pintload, refmodel as R, ctxmodel as CM
    import pint

    rng = random.Random(spec["seed"])
    if spec["kind"] == "bundled":
        run_bundled(spec, rec, rng, pint, pintload, R, CM)
    else:
        run_generated(spec, rec, rng, pint, R, CM)


def judge(rec, pint, got, cands, w, fields, cross, chains_len=None):
    """got: ('ok', magnitude) | ('dimerr',) | ('other', repr).  cands: set or 'dimerr'."""
    if cross:
        rec.count("cross_dimension_checked")
    else:
        rec.count("same_dimension_checked")
    if cands == "dimerr" or cands == {"dimerr"}:
        rec.count("unreachable_checked")
        if got[0] != "dimerr":
            rec.violation("unreachable-target-converted", dict(w, got=repr(got)[:200]), **fields)
        return
    vals = {c for c in cands if not isinstance(c, str)}
    if got[0] == "ok":
        if fields.get("built") == "code" and fields.get("redefinition"):
            # Context.redefine() parses its line with floats whatever the registry's numeric type
            got = ("ok", float(got[1]))
        if not any(equal(got[1], c) for c in vals):
            rec.violation("value-not-from-a-shortest-chain",
                          dict(w, got=str(got[1]), acceptable=[str(c) for c in list(vals)[:4]]), **fields)
        elif len(vals) > 1:
            rec.count("tie_cases")
            rec.observe("tie_choice", "first" if equal(got[1], sorted(vals, key=float)[0]) else "other")
    elif got[0] == "dimerr":
        if vals and "dimerr" not in cands:
            rec.violation("reachable-target-refused", dict(w, acceptable=[str(c) for c in list(vals)[:4]]), **fields)
    elif got[0] == "zerodiv":
        if "zerodiv" not in cands:
            rec.violation("unexpected-zero-division", w, **fields)
    else:
        rec.violation("conversion-raised", dict(w, got=repr(got)[:300]), **fields)


INPLACE = [False]   # this case converts in place (ito on a copy) instead of with to(): documented as equivalent


def conv(q, dst, *ctx, **kw):
    if INPLACE[0]:
        q2 = q.__class__(q.magnitude, q.units)
        q2.ito(dst, *ctx, **kw)
        return q2
    return q.to(dst, *ctx, **kw)


def attempt(pint, fn):
    try:
        q = fn()
        return ("ok", q.magnitude if hasattr(q, "magnitude") else q)
    except pint.DimensionalityError:
        return ("dimerr",)
    except ZeroDivisionError:
        return ("zerodiv",)
    except Exception as e:  # noqa: BLE001
        return ("other", type(e).__name__ + ": " + str(e)[:200])


def discover_nodes(m, R, CM, gen):
    """Every rule endpoint of every bundled context -> units of that dimension, found through the
    model's dimension classes (plus the hand-written compounds of NODE_UNITS)."""
    classes = gen.dimension_classes(m, [c for c in gen.canonical_units(m) if m.root(c)[0].v > 0])
    by_dim = {}
    for key, units in classes.items():
        by_dim[CM.dimkey(dict(key))] = [u for u in units if u.isidentifier()][:8]
    for expr_list in NODE_UNITS.values():
        for expr in expr_list:
            d = parse_units(R, expr)
            by_dim.setdefault(CM.dimkey(m.dimvec(d)), [])
            if expr not in by_dim[CM.dimkey(m.dimvec(d))]:
                by_dim[CM.dimkey(m.dimvec(d))].append(expr)
    out = {}
    for cname, cd in m.contexts.items():
        nodes = []
        for r in cd["relations"]:
            for end in (r["src"], r["dst"]):
                k = CM.dimkey(m.dimvec(end))
                if k in by_dim and by_dim[k] and k not in nodes:
                    nodes.append(k)
        for extra in ("[mass]", "[time]", "[length]"):
            k = CM.dimkey(m.dimvec({extra: 1}))
            if k not in nodes:
                nodes.append(k)
        out[cname] = nodes
    return out, by_dim


def run_bundled(spec, rec, rng, pint, pintload, R, CM):
    from harness import gen
    m = R.default_model(pintload.REPO)
    ureg = pintload.registry(non_int_type=F)
    Q = ureg.Quantity
    ctx_nodes, by_dim = discover_nodes(m, R, CM, gen)
    for cname, nodes in ctx_nodes.items():
        rec.observe("bundled_context_endpoints", f"{cname}:{len(nodes) - 3}")
    for i in range(spec["n"]):
        cname = rng.choice(list(ctx_nodes))
        nodes = ctx_nodes[cname]
        alias = (m.contexts[cname]["aliases"] or [None])[0]
        a, b = rng.sample(nodes, 2) if rng.random() < 0.9 else (nodes[0], nodes[0])
        ua, ub = rng.choice(by_dim[a]), rng.choice(by_dim[b])
        da, db = parse_units(R, ua), parse_units(R, ub)
        x = F(rng.randint(1, 9999), rng.choice((1, 3, 10, 1000)))
        kwargs, mparams = {}, {}
        decl = m.contexts[cname]["defaults"]
        if cname == "spectroscopy" and rng.random() < 0.6:
            n = F(rng.randint(10, 30), 10)
            kwargs["n"] = n
            mparams["n"] = n
        if cname == "chemistry":
            mw = F(rng.randint(1, 500), 10)
            vol = F(rng.randint(1, 50), 10)
            sm = F(rng.randint(1, 50), 10)
            kwargs = {"mw": Q(mw, "gram / mole"), "volume": Q(vol, "liter"), "solvent_mass": Q(sm, "kilogram")}
            mparams = {"mw": CM.MQ(mw, {"gram": F(1), "mole": F(-1)}),
                       "volume": CM.MQ(vol * F(1, 1000), {"meter": F(3)}),
                       "solvent_mass": CM.MQ(sm * 1000, {"gram": F(1)})}
        params = {k: F(v) for k, v in decl.items()}
        params.update(mparams)
        stack = [CM.ActiveCtx(cname, params)]
        cands = CM.convert_candidates(m, stack, x, da, db)
        cross = CM.dimkey(m.dimvec(da)) != CM.dimkey(m.dimvec(db))
        key_name = rng.choice([cname, alias or cname])
        form = rng.choice(("to-call", "with", "enable", "decorator", "object", "is_compatible"))
        rec.observe("forms", form)
        INPLACE[0] = rng.random() < 0.35
        if INPLACE[0]:
            rec.count("inplace_conversions")
        rec.observe("entry_points", form + ("/ito" if INPLACE[0] else "/to"))
        q = Q(x, ua)
        if form == "to-call":
            got = attempt(pint, lambda: conv(q, ub, key_name, **kwargs))
        elif form == "with":
            def f():
                with ureg.context(key_name, **kwargs):
                    return conv(q, ub)
            got = attempt(pint, f)
        elif form == "enable":
            def f():
                ureg.enable_contexts(key_name, **kwargs)
                try:
                    return conv(q, ub)
                finally:
                    ureg.disable_contexts(1)
            got = attempt(pint, f)
        elif form == "decorator":
            fn = ureg.with_context(key_name, **kwargs)(lambda z: conv(z, ub))
            got = attempt(pint, lambda: fn(q))
        elif form == "object":
            got = attempt(pint, lambda: conv(q, ub, ureg._contexts[cname], **kwargs))
        else:
            res = attempt(pint, lambda: q.is_compatible_with(ub, key_name, **kwargs))
            want = not (cands == "dimerr" or cands == {"dimerr"})
            rec.case(("bundled", cname, form, ua, ub), nontrivial=cross)
            if res[0] != "ok" or res[1] is not want:
                if not (res[0] == "zerodiv" or (isinstance(cands, set) and "zerodiv" in cands)):
                    rec.violation("is_compatible_with-disagrees", {"context": cname, "src": ua, "dst": ub,
                                                                  "got": repr(res), "model_reachable": want},
                                  context=cname, form=form, workload="bundled")
            continue
        if ureg._active_ctx.contexts:
            rec.violation("context-left-active", {"context": cname, "form": form}, context=cname, form=form,
                          workload="bundled")
            ureg.disable_contexts()
        rec.case(("bundled", cname, form, ua, ub, str(x)), nontrivial=cross)
        if isinstance(cands, set) and cross:
            lens = 1
        w = {"context": cname, "form": form, "src": f"{x} {ua}", "dst": ub, "kwargs": {k: str(v) for k, v in kwargs.items()}}
        judge(rec, pint, got, cands, w, dict(context=cname, form=form, workload="bundled"), cross)
        if cross and CM.LAST["steps"] >= 2:
            rec.count("multi_step_chains")
        rec.observe("chain_steps", CM.LAST["steps"])
        if cross and isinstance(cands, set):
            # chain length through the model graph, for the evidence
            pass
        if i % 100 == 0:
            rec.sample(dict(w, result=repr(got)[:80]))
        # no context: cross-dimension must fail, same-dimension unchanged
        if rng.random() < 0.2:
            plain = attempt(pint, lambda: conv(q, ub))
            if cross and plain[0] != "dimerr":
                rec.violation("cross-dimension-without-context", dict(w, got=repr(plain)), context="none",
                              form="plain", workload="bundled")


# ---------------------------------------------------------------------------
def gen_context_file(rng):
    """Gen registry text + generated @context blocks (text only; the model reads it back)."""
    from harness.gendef import Gen
    g = Gen(rng, n_dims=rng.randint(3, 4), n_units=rng.randint(6, 14), offsets=0, neg_rate=0.0)
    pools = {}
    for c, t in g.units.items():
        if t["kind"] in ("base", "mult") and len(t["dims"]) == 1 and list(t["dims"].values()) == [1] \
                and t["factor"] > 0:
            pools.setdefault(next(iter(t["dims"])), []).append(c)
    nodes = sorted(pools)
    if len(nodes) < 3:
        return None
    ctxs = []
    lines = []
    recipes = []      # the same contexts as data, for construction in code (Context + add_transformation)
    # derived dimension NAMES for some nodes: a rule endpoint may be written with either spelling
    alias_of = {}
    dim_lines = []
    for i, nd in enumerate(nodes):
        if rng.random() < 0.6:
            alias_of[nd] = f"[ctal{i}]"
            dim_lines.append(f"[ctal{i}] = {nd}")
    nctx = rng.randint(2, 4)
    redefinable = [c for c, t in g.units.items() if t["kind"] == "mult" and t["factor"] > 0
                   and all(F(v).denominator == 1 for v in t["root"].values()) and t["root"]]
    redefined = []
    for ci in range(nctx):
        name = f"CT{ci}"
        has_p = rng.random() < 0.7
        pdef = rng.randint(2, 9)
        head = f"@context({'p=' + str(pdef) if has_p else ''}) {name} = ct{ci}" if has_p else f"@context {name} = ct{ci}"
        body = []
        recipe = dict(name=name, alias=f"ct{ci}", defaults={"p": pdef} if has_p else {}, rules=[], redefs=[])
        nrules = rng.randint(1, 5)
        used_edges = set()
        for ri in range(nrules):
            a, b = rng.sample(nodes, 2)
            if (a, b) in used_edges or (b, a) in used_edges:
                # one rule per edge and context: which of two rules for the same edge of ONE context
                # wins is not stated (and differs between text and code once spellings differ)
                continue
            used_edges.add((a, b))
            ua, ub = rng.choice(pools[a]), rng.choice(pools[b])
            k = rng.choice((2, 3, 5, 7, "1 / 2", "3 / 4"))
            form = rng.randrange(4)
            if has_p and not body:
                form = 2     # a declared parameter must occur in some equation
            if form == 0:
                eq = f"value * {k} * {ub} / {ua}"
            elif form == 1:
                eq = f"{k} * {ua} * {ub} / value"
            elif form == 2 and has_p:
                eq = f"value * p * {ub} / {ua}"
            else:
                eq = f"value ** 2 * {k} * {ub} / {ua} ** 2"
            arrow = "<->" if rng.random() < 0.3 and form != 1 else "->"
            if arrow == "<->" and form in (0, 2, 3):
                # a bidirectional monomial must be dimensionally valid both ways: only 1/value form is
                arrow = "->"
            sa = alias_of[a] if a in alias_of and rng.random() < 0.4 else a
            sb = alias_of[b] if b in alias_of and rng.random() < 0.4 else b
            body.append(f"    {sa} {arrow} {sb}: {eq}")
            recipe["rules"].append((sa, sb, arrow == "<->", form if not (form == 2 and not has_p) else 3, k, ua, ub))
        if redefinable and rng.random() < 0.55:
            # often the SAME unit as an earlier context, with another value: stacking the two in either
            # order must let the most recently enabled one win
            u = rng.choice(redefined) if redefined and rng.random() < 0.6 else rng.choice(redefinable)
            redefined.append(u)
            t = g.units[u]
            expr = " * ".join(f"{r} ** {int(e)}" if e > 0 else f"{r} ** ({int(e)})" for r, e in t["root"].items())
            body.append(f"    {u} = {rng.randint(2, 9)} / {rng.randint(2, 9)} * {expr}")
            recipe["redefs"].append(body[-1].strip())
        lines += [head] + body + ["@end"]
        ctxs.append((name, f"ct{ci}", has_p, pdef))
        recipes.append(recipe)
    base_text = g.text() + "\n".join(dim_lines) + "\n"
    return g, base_text + "\n".join(lines) + "\n", ctxs, pools, base_text, recipes


def build_in_code(pint, ureg, recipes):
    """The generated contexts again, as Context objects built with add_transformation / redefine."""
    def make(form, k, ua, ub):
        kf = F(k.replace(" ", "")) if isinstance(k, str) else F(k)
        if form == 0:
            return lambda ureg, value, **kw: value * kf * ureg.Unit(ub) / ureg.Unit(ua)
        if form == 1:
            return lambda ureg, value, **kw: kf * ureg.Unit(ua) * ureg.Unit(ub) / value
        if form == 2:
            return lambda ureg, value, p, **kw: value * p * ureg.Unit(ub) / ureg.Unit(ua)
        return lambda ureg, value, **kw: value ** 2 * kf * ureg.Unit(ub) / ureg.Unit(ua) ** 2
    for r in recipes:
        ctx = pint.Context(r["name"], aliases=(r["alias"],), defaults=dict(r["defaults"]))
        for sa, sb, bidir, form, k, ua, ub in r["rules"]:
            fn = make(form, k, ua, ub)
            ctx.add_transformation(sa, sb, fn)
            if bidir:
                ctx.add_transformation(sb, sa, fn)
        for line in r["redefs"]:
            ctx.redefine(line)
        ureg.add_context(ctx)


def run_generated(spec, rec, rng, pint, R, CM):
    for gi in range(spec["n"]):
        made = gen_context_file(rng)
        if made is None:
            continue
        g, text, ctxs, pools, base_text, recipes = made
        built = "text" if gi % 2 == 0 else "code"
        rec.observe("context_construction", built)
        try:
            if built == "text":
                ureg = pint.UnitRegistry(text.splitlines(), non_int_type=F, cache_folder=None)
            else:
                ureg = pint.UnitRegistry(base_text.splitlines(), non_int_type=F, cache_folder=None)
                build_in_code(pint, ureg, recipes)
                rec.count("registries_with_contexts_built_in_code")
        except Exception as e:  # noqa: BLE001
            rec.violation("generated-file-refused", {"text": text, "err": repr(e)[:300]}, context="generated",
                          form="load", workload="generated")
            continue
        m = R.read_text(text)
        Q = ureg.Quantity
        nodes = sorted(pools)
        allunits = [c for c, t in g.units.items() if t["kind"] in ("base", "mult") and t["factor"] > 0]
        for case in range(60):
            depth = rng.choice((1, 1, 2, 2, 3, 4))
            entries = []
            for _ in range(depth):
                name, alias, has_p, pdef = rng.choice(ctxs)
                kw = {}
                if has_p and rng.random() < 0.5:
                    kw["p"] = F(rng.randint(2, 20))
                elif not has_p and rng.random() < 0.2:
                    kw["p"] = F(rng.randint(2, 20))
                entries.append((name, alias, kw))
            form = rng.choice(("enable", "with-nested", "single-call", "to-call", "object", "alias", "stepwise", "stepwise"))
            rec.observe("forms", form)
            INPLACE[0] = rng.random() < 0.35
            if INPLACE[0]:
                rec.count("inplace_conversions")
            rec.observe("entry_points", form + ("/ito" if INPLACE[0] else "/to"))
            if form in ("single-call", "to-call"):
                common = {}
                for _, _, kw in entries:
                    common.update(kw)
                entries = [(n, a, dict(common)) for n, a, _ in entries]
            # ---- model: effective parameters; donors = any enclosing entry -------------------
            def effective(donor_choice):
                effs = []
                for i, (name, alias, kw) in enumerate(entries):
                    decl = {k: F(v) for k, v in m.contexts[name]["defaults"].items()}
                    if form in ("single-call", "to-call"):
                        p = dict(decl, **kw)       # one call: no enclosing context
                    else:
                        donor = effs[donor_choice[i]] if i > 0 else {}
                        p = dict(decl)
                        p.update(donor)
                        p.update(kw)
                    effs.append(p)
                return effs
            choices = itertools.product(*[range(max(1, i)) for i in range(len(entries))]) \
                if form not in ("single-call", "to-call") else [tuple(0 for _ in entries)]
            a = rng.choice(nodes)
            b = rng.choice(nodes)
            ua, ub = rng.choice(pools[a]), rng.choice(pools[b])
            if rng.random() < 0.15:
                ub = rng.choice(allunits)
            redef_units = [ln.split("=")[0].strip() for n, _, _ in entries for ln in m.contexts[n]["redefs"]]
            if redef_units and rng.random() < 0.35:
                # ask about a unit the active contexts redefine (possibly several of them, differently)
                if rng.random() < 0.5:
                    ub = rng.choice(redef_units)
                else:
                    ua = rng.choice(redef_units)
            x = F(rng.randint(1, 999), rng.choice((1, 2, 5)))
            cands = set()
            try:
                for ch in choices:
                    effs = effective(ch)
                    stack = [CM.ActiveCtx(n, e) for (n, _, _), e in zip(entries, effs)]
                    c = CM.convert_candidates(m, stack, x, {ua: F(1)}, {ub: F(1)})
                    cands |= {"dimerr"} if c == "dimerr" else c
            except KeyError as e:
                # a rule needs a parameter nobody provides: pint raises too; not part of C11
                rec.count("skipped_missing_parameter")
                continue
            if cands == {"dimerr"}:
                cands = "dimerr"
            donors_matter = len(entries) >= 3 and form not in ("single-call", "to-call")
            cross = CM.dimkey(m.dimvec({ua: 1})) != CM.dimkey(m.dimvec({ub: 1}))
            q = Q(x, ua)

            def run_pint():
                if form == "enable":
                    for name, alias, kw in entries:
                        ureg.enable_contexts(name, **kw)
                    try:
                        return conv(q, ub)
                    finally:
                        ureg.disable_contexts(len(entries))
                if form in ("with-nested", "object", "alias", "stepwise"):
                    def nest(i):
                        if i == len(entries):
                            return conv(q, ub)
                        name, alias, kw = entries[i]
                        key = name if form in ("with-nested", "stepwise") else alias if form == "alias" else ureg._contexts[name]
                        with ureg.context(key, **kw):
                            if form == "stepwise" and i + 1 < len(entries):
                                # the SAME conversion is asked at every level of the growing stack; only the
                                # innermost answer is judged, the outer ones must leave nothing behind
                                try:
                                    conv(q, ub)
                                except Exception:  # noqa: BLE001
                                    pass
                            return nest(i + 1)
                    return nest(0)
                if form == "single-call":
                    with ureg.context(*[n for n, _, _ in entries], **entries[0][2]):
                        return conv(q, ub)
                return conv(q, ub, *[n for n, _, _ in entries], **entries[0][2])
            got = attempt(pint, run_pint)
            if ureg._active_ctx.contexts:
                rec.violation("context-left-active", {"text": text, "entries": str(entries), "form": form},
                              context="generated", form=form, workload="generated")
                ureg.disable_contexts()
            has_redef = any(m.contexts[n]["redefs"] for n, _, _ in entries)
            if has_redef:
                rec.count("redefinition_cases")
            if any(i > 0 and "p" not in kw and m.contexts[n]["defaults"].get("p") is not None
                   for i, (n, _, kw) in enumerate(entries)) and form not in ("single-call", "to-call"):
                rec.count("param_from_enclosing")
            rec.case(("gen", spec["seed"], gi, case), nontrivial=cross)
            w = {"text": text, "entries": [(n, {k: str(v) for k, v in kw.items()}) for n, _, kw in entries],
                 "form": form, "src": f"{x} {ua}", "dst": ub}
            fields = dict(context="generated", form=form, workload="generated", redefinition=has_redef,
                          depth=min(len(entries), 3), built=built)
            judge(rec, pint, got, cands, w, fields, cross)
            if cross and CM.LAST["steps"] >= 2:
                rec.count("multi_step_chains")
            rec.observe("chain_steps", CM.LAST["steps"])
            rec.observe("parallel_shortest_chains", min(CM.LAST["nchains"], 5))
            if case == 0 and gi == 0:
                rec.sample({"contexts": text[text.find("@context"):][:600], "entries": str(entries), "form": form,
                            "src": f"{x} {ua}", "dst": ub, "got": repr(got)[:80]})
        order_flips(rec, pint, ureg, m, CM, ctxs, text, built, rng)


def order_flips(rec, pint, ureg, m, CM, ctxs, text, built, rng):
    """Two contexts that redefine the SAME unit differently, stacked in one order, then the other, then the
    first again on the same registry: the most recently enabled one must win every time."""
    redef = {}
    for name, alias, has_p, pdef in ctxs:
        for ln in m.contexts[name]["redefs"]:
            redef.setdefault(ln.split("=")[0].strip(), []).append((name, alias))
    done = 0
    for u, owners in sorted(redef.items()):
        owners = list(dict.fromkeys(owners))
        if len(owners) < 2 or done >= 3:
            continue
        done += 1
        c1, c2 = owners[0], owners[1]
        root = {k: F(v) for k, v in m.root(u)[1].items()}
        x = F(rng.randint(1, 99))
        for order in ((c1, c2), (c2, c1), (c1, c2), (c2, c1)):
            form = rng.choice(("single-call", "with-nested", "enable", "to-call"))
            INPLACE[0] = rng.random() < 0.35
            if INPLACE[0]:
                rec.count("inplace_conversions")
            rec.observe("entry_points", form + ("/ito" if INPLACE[0] else "/to"))
            names = [n for n, _ in order]
            stack = [CM.ActiveCtx(n, {k: F(v) for k, v in m.contexts[n]["defaults"].items()}) for n in names]
            try:
                cands = CM.convert_candidates(m, stack, x, {u: F(1)}, root)
            except KeyError:
                continue
            q = ureg.Quantity(x, u)
            dst = ureg.UnitsContainer({k: int(v) if v == int(v) else v for k, v in root.items()})

            def run():
                if form == "single-call":
                    with ureg.context(*names):
                        return conv(q, dst)
                if form == "to-call":
                    return conv(q, dst, *names)
                if form == "enable":
                    for n in names:
                        ureg.enable_contexts(n)
                    try:
                        return conv(q, dst)
                    finally:
                        ureg.disable_contexts(len(names))
                with ureg.context(names[0]):
                    with ureg.context(names[1]):
                        return conv(q, dst)
            got = attempt(pint, run)
            rec.count("order_flip_conversions")
            rec.case(("flip", text[:40], u, tuple(names), form), nontrivial=True)
            w = {"text": text, "entries": names, "form": form, "src": f"{x} {u}", "dst": str(root)}
            judge(rec, pint, got, cands if cands != "dimerr" else "dimerr", w,
                  dict(context="generated", form=form, workload="order-flip", redefinition=True, depth=2, built=built),
                  False)
