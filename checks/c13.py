"""C13 — answers do not depend on query history: caches are transparent.

Oracle: a shadow twin — a fresh registry brought to the same declarative state (same
definitions through the same loading path, same context stack, same default system) that
is asked each distinct question exactly once.  The aged registry is asked the same small
pool of questions again and again between state changes; every answer must equal the
twin's.  A second registry is created / used / extended in between and must not matter.
Cache hit/insert counters (counting dict proxies swapped into the registry) show that the
compared answers were really served from memo layers.
"""
import itertools
import random
from fractions import Fraction as F

PID = "C13"
RULE = ("histories over the default registry: questions {convert, parse_units, parse_expression, "
        "get_base_units, get_root_units, get_dimensionality, get_compatible_units, format, to_compact, "
        "to_base_units} drawn from a pool of 46, state changes {define next unit, enable/disable a "
        "rule context, enable/disable a redefining context, set default_system, create+use a second "
        "registry}; bounded-exhaustive histories (length <= 2 quick / 3 thorough over a 14-op alphabet) and "
        "random histories up to length 60; every answer compared with a fresh twin at the same "
        "declarative state. distinct = (state signature, question); non-trivial = the same question was "
        "already asked earlier in that history under a different state or served from a cache")
ASSUMPTIONS = [
    "twin = fresh registry + the same define() calls + the same stack/system (a define-twin, so the "
    "loading-path difference D11 of C10 is not re-reported here)",
    "only additions of new names are generated (redefinitions legitimately change answers)",
]


def exhaustive(tier):
    return False


def required(tier):
    return {"answers_compared": 2500, "repeated_after_state_change": 800, "cache_hits_observed": 500,
            "state_changes": 300, "distinct_states": 15, "second_registry_touches": 20,
            "redefinition_histories": 20, "keyword_activations": 50, "keyword_override_histories": 20, "redefining_context_histories": 8, "new_name_histories": 6, "derived_spelling_histories": 10, "compatible_listing_histories": 4, "explicit_system_histories": 8}


NEWDEFS = ["vfu0 = 3 * meter = vf0", "vfu1 = 7 * vfu0", "vfu2 = 2 * pound * vfu1 / second ** 2",
           "vfu3 = 5 * kilovfu0", "vfu4 = 1.5 * degree_Celsius * 0 + 2 * kelvin"]
NEWDEFS = NEWDEFS[:4] + ["dab = 5 * meter"]   # a NEW name that earlier lookups read as deca+barn
# third step: an existing unit is defined AGAIN (on_redefinition='warn' is the default); every answer
# memoised for the units built on it (vfu1, and later vfu2, vfu3, kilovfu0) must follow
NEWDEFS = NEWDEFS[:2] + ["vfu0 = 4 * meter = vf0"] + NEWDEFS[2:]
# second step: a new PREFIX (to_compact, parse_units and conversions must take it into account at once)
NEWDEFS = NEWDEFS[:1] + ["vpfx- = 1e33"] + NEWDEFS[1:]
# last step: an ALIAS whose spelling earlier lookups read as prefix + unit (kyd = kilo + yard)
NEWDEFS = NEWDEFS + ["@alias vfu0 = kyd"]
DEFNAMES = ("vfu0", "vpfx", "vfu1", "vfu0", "vfu2", "vfu3", "dab", "kyd")
SYSTEMS = ["mks", "cgs", "imperial", "SI", None]

QUESTIONS = [
    ("convert", "mile", "kilometer"), ("convert", "pound", "gram"), ("convert", "ounce", "kilogram"),
    ("convert", "inch ** 2", "centimeter ** 2"), ("convert", "foot * pound / second ** 2", "newton"),
    ("convert", "nanometer", "terahertz"), ("convert", "joule", "hertz"), ("convert", "vfu0", "meter"),
    ("convert", "vfu1", "foot"), ("convert", "kilovfu0", "mile"), ("convert", "vfu2", "newton"),
    ("convert", "degree_Celsius", "kelvin"), ("convert", "stone", "ounce"), ("convert", "meter", "second"),
    ("parse_units", "kilometers / hour"), ("parse_units", "vf0 ** 2"), ("parse_units", "lbs"),
    ("parse_units", "degC / meter"), ("parse_units", "mega vfu1"),
    ("parse_expression", "3 km + 200 m"), ("parse_expression", "2 vfu1 / s"), ("parse_expression", "5 ounces"),
    ("base", "pound"), ("base", "mile / hour"), ("base", "newton"), ("base", "vfu1"), ("base", "ounce"),
    ("base", "stone"), ("root", "pound"), ("root", "ounce"), ("root", "vfu2"), ("root", "kilometer"),
    ("dim", "newton"), ("dim", "vfu2"), ("dim", "ounce"),
    ("compat", "pound"), ("compat", "meter"), ("compat", "vfu0"),
    ("format", "mile / hour", "~P"), ("format", "vfu1", "~"), ("format", "ounce", ""),
    ("compact", "pound", 12345678), ("compact", "vfu0", 0.000012),
    ("base_sys", "pound", "cgs"), ("base_sys", "mile / hour", "imperial"), ("base_sys", "ounce", "cgs"),
    ("base_sys", "newton", "imperial"), ("base_sys", "stone", "mks"),
    ("convert_raw", "dab", "barn"), ("convert_raw", "dab", "meter"), ("convert_raw", "kyd", "meter"),
    ("to_base", "ounce", 3), ("to_base", "vfu2", 2), ("to_base", "stone", 5),
    # DERIVED spellings (prefixed, plural, symbol-like alias) of units that the history defines later
    ("parse_units", "vfu0s"), ("convert", "millivfu1", "meter"), ("parse_units", "kilovfu0s / vfu1"),
    ("convert", "megavf0", "meter"),
    # units that depend on `pound` (redefined by the context 'vredef') at several removes, also through
    # symbols and aliases (reyn = psi * second, psi = force_pound / inch ** 2, force_pound = g_0 * pound)
    ("convert", "reyn", "pascal * second"), ("convert", "kip_per_square_inch", "pascal"),
    ("convert", "horsepower", "watt"), ("convert", "slug", "kilogram"), ("convert", "foot_pound", "joule"),
    ("convert", "US_ton", "kilogram"), ("convert", "UK_force_ton", "newton"), ("convert", "poundal", "newton"),
    ("convert", "jute", "tex"), ("convert", "number_english", "number_meter"),
    ("convert", "international_british_thermal_unit", "joule"), ("convert", "psi", "bar"),
    ("root", "reyn"), ("base", "ksi"), ("to_base", "horsepower", 2),
    # answers that depend on the set of defined prefixes
    ("compact", "meter", 2e35), ("compact", "vfu0", 5e34), ("parse_units", "vpfxmeter"),
    ("convert", "vpfxmeter", "meter"), ("compact", "gram", 3e36),
    # 'dab' reads as decabarn until the history defines a unit of that name; afterwards the exact name wins
    ("parse_units", "dab"), ("convert", "dab", "meter"), ("convert", "dab", "barn"), ("dim", "dab"),
    ("parse_units", "kyd"), ("convert", "kyd", "meter"),
]

OPS = ["q"] * 0 + ["define", "ctx_rule_on", "ctx_kw_on", "ctx_redef_on", "ctx_off", "sys", "second", "q0", "q1", "q2", "q3",
                   "q4", "q5", "q6", "q7"]


def shards(tier, seed):
    out = []
    L = 2 if tier == "quick" else 3
    parts = 6 if tier == "quick" else 24
    for i in range(parts):
        out.append({"kind": "bfs", "part": i, "parts": parts, "length": L, "name": f"bfs{i}"})
    for i in range(10 if tier == "quick" else 24):
        out.append({"kind": "random", "name": f"random{i}", "n": 10 if tier == "quick" else 120,
                    "nit": "fraction" if i % 3 == 2 else "float"})
    for i in range(2 if tier == "quick" else 4):
        out.append({"kind": "sysarg", "name": f"sysarg{i}", "n": 4 if tier == "quick" else 40,
                    "nit": "fraction" if i % 2 else "float"})
    for i in range(2 if tier == "quick" else 6):
        out.append({"kind": "newname", "name": f"newname{i}", "n": 3 if tier == "quick" else 30,
                    "nit": "fraction" if i % 2 else "float"})
    for i in range(2 if tier == "quick" else 6):
        out.append({"kind": "compatctx", "name": f"compatctx{i}", "n": 3 if tier == "quick" else 25,
                    "nit": "fraction" if i % 2 else "float"})
    for i in range(2 if tier == "quick" else 6):
        out.append({"kind": "spellings", "name": f"spellings{i}", "n": 8 if tier == "quick" else 80,
                    "nit": "fraction" if i % 2 else "float"})
    for i in range(2 if tier == "quick" else 6):
        out.append({"kind": "redefctx", "name": f"redefctx{i}", "n": 4 if tier == "quick" else 30,
                    "nit": "fraction" if i % 2 else "float"})
    for i in range(2 if tier == "quick" else 6):
        out.append({"kind": "ctxkw", "name": f"ctxkw{i}", "n": 15 if tier == "quick" else 200,
                    "nit": "fraction" if i % 2 else "float"})
    for i in range(2 if tier == "quick" else 6):
        out.append({"kind": "redefine", "name": f"redefine{i}", "n": 12 if tier == "quick" else 150,
                    "nit": "fraction" if i % 2 else "float"})
    return out


class CountingDict(dict):
    """dict subclass counting hits / misses / inserts (swapped into the registry caches)."""
    stats = None

    def __getitem__(self, k):
        try:
            v = dict.__getitem__(self, k)
        except KeyError:
            self.stats["miss"] += 1
            raise
        self.stats["hit"] += 1
        return v

    def __setitem__(self, k, v):
        self.stats["insert"] += 1
        dict.__setitem__(self, k, v)


def watch(ureg):
    stats = {}
    for attr in ("dimensionality", "root_units", "conversion_factor", "parse_unit"):
        d = getattr(ureg._cache, attr)
        cd = CountingDict(d)
        cd.stats = stats.setdefault(attr, {"hit": 0, "miss": 0, "insert": 0})
        setattr(ureg._cache, attr, cd)
    b = CountingDict(ureg._base_units_cache)
    b.stats = stats.setdefault("base_units", {"hit": 0, "miss": 0, "insert": 0})
    ureg._base_units_cache = b
    return stats


def _items(d):
    """Exponent dict -> comparable list; 1 and Fraction(1, 1) are the same exponent (which of the two a
    memo layer hands back depends on who filled it first - a representation detail, not an answer)."""
    from fractions import Fraction
    out = []
    for k, v in sorted(d.items()):
        if isinstance(v, (int, Fraction)):
            v = str(Fraction(v))
        else:
            v = repr(v)
        out.append((k, v))
    return out


def answer(ureg, pint, q):
    """One read-only question -> comparable value."""
    try:
        kind = q[0]
        if kind == "convert":
            return repr(ureg.convert(ureg.non_int_type(1), q[1], q[2]))
        if kind == "parse_units":
            return repr(_items(ureg.parse_units(q[1])._units._d))
        if kind == "parse_expression":
            r = ureg.parse_expression(q[1])
            return repr((r.magnitude, _items(r._units._d)))
        if kind == "base":
            f, u = ureg.get_base_units(q[1])
            return repr((f, _items(u._units._d)))
        if kind == "base_sys":
            # the explicit system= argument: an answer for ANOTHER system than the default one
            f, u = ureg.get_base_units(q[1], system=q[2])
            return repr((f, _items(u._units._d)))
        if kind == "convert_raw":
            # units given as a raw mapping of spellings (not re-parsed to canonical names by a string parse)
            return repr(ureg.convert(ureg.non_int_type(1), ureg.UnitsContainer({q[1]: 1}), q[2]))
        if kind == "root":
            f, u = ureg.get_root_units(q[1])
            return repr((f, _items(u._units._d)))
        if kind == "dim":
            return repr(_items(dict(ureg.get_dimensionality(q[1]))))
        if kind == "compat":
            return repr(sorted(str(x) for x in ureg.get_compatible_units(q[1])))
        if kind == "format":
            return format(ureg.Quantity(ureg.non_int_type("2.5"), q[1]), q[2])
        if kind == "compact":
            r = ureg.Quantity(q[2], q[1]).to_compact()
            return repr((r.magnitude, _items(r._units._d)))
        if kind == "to_base":
            r = ureg.Quantity(q[2], q[1]).to_base_units()
            return repr((r.magnitude, _items(r._units._d)))
    except pint.DimensionalityError:
        return "DimensionalityError"
    except pint.UndefinedUnitError:
        return "UndefinedUnitError"
    except Exception as e:  # noqa: BLE001
        return "raised:" + type(e).__name__
    raise ValueError(q)


def make_redef_context(pint):
    c = pint.Context("vredef")
    c.redefine("pound = 0.5 kg")
    return c


class World:
    def __init__(self, pint, pintload, nit=float):
        self.pint, self.pintload, self.nit = pint, pintload, nit
        self.twins = {}
        self.fresh_per_question = False   # spellings workload: a twin registry is never asked twice
        self._base_names = None

    def base_names(self):
        if self._base_names is None:
            self._base_names = set(self.fresh()._units)
        return self._base_names

    def through_auto_registered(self, ureg, q):
        """Finding D17 (recorded for C08): a prefixed unit that was looked up is stored under its CANONICAL
        name in the table of defined units, so that name can be prefixed / pluralised again afterwards
        ('ukilosecond' once 'kilosecond' was resolved). True when a word of the question is read through such
        an entry (the canonical name is literally part of the word)."""
        import re
        for tok in re.findall(r"[A-Za-z_]+", " ".join(str(x) for x in q[1:])):
            try:
                cands = ureg.parse_unit_name(tok)
            except Exception:  # noqa: BLE001
                continue
            for _p, name, _s in cands:
                if name not in self.base_names() and name in tok and name != tok and name not in DEFNAMES:
                    return True
        return False

    def fresh(self):
        u = self.pintload.registry(non_int_type=self.nit)
        u.add_context(make_redef_context(self.pint))
        return u

    def twin_answer(self, state, q):
        key = (state, q)
        if key in self.twins:
            return self.twins[key]
        ndefs, stack, system = state
        tw = None if self.fresh_per_question else self.twins.get(("registry", state))
        if tw is None:
            tw = self.fresh()
            for line in NEWDEFS[:ndefs]:
                tw.define(line)
            if system != "mks":
                tw.default_system = system
            for c in stack:
                enable_token(tw, c)
            if not self.fresh_per_question:
                self.twins[("registry", state)] = tw
            if len([k for k in self.twins if k[0] == "registry"]) > 40:
                # bound memory: drop the oldest twin registries (their answers stay memoised)
                for k in [k for k in self.twins if k[0] == "registry"][:10]:
                    del self.twins[k]
        a = answer(tw, self.pint, q)
        self.twins[key] = a
        return a


def enable_token(reg, token):
    """'sp' or 'sp|n=1.25' (keyword override for this activation)."""
    if "|" in token:
        name, kv = token.split("|")
        k, v = kv.split("=")
        reg.enable_contexts(name, **{k: float(v)})
    else:
        reg.enable_contexts(token)


def run_history(ops, world, rec, rng, tag, pool=None):
    pint = world.pint
    ureg = world.fresh()
    stats = watch(ureg)
    ndefs, stack, system = 0, [], "mks"
    asked = {}     # question -> state signature when last asked
    trace = []
    defined_inside_redef = set()   # names defined while a redefining context was active (finding D18)
    fixed_pool = pool
    pool = rng.sample(QUESTIONS, 8)
    pool[:3] = rng.sample(QUESTIONS[-26:-11], 3)   # always some dependants of the redefined unit
    if any(o.startswith("ctx_") for o in ops):
        # histories that switch contexts always ask the questions those contexts answer
        pool[3] = ("convert", "nanometer", "terahertz")
        pool[4] = ("convert", "joule", "hertz")
    if fixed_pool:
        pool = fixed_pool
    pool[3] = rng.choice(QUESTIONS[-6:])           # and one question about the name that gets defined later
    if not fixed_pool:
        # and one about a derived spelling (prefixed / plural) of a unit that gets defined later
        pool[6] = rng.choice([q for q in QUESTIONS if any(w in repr(q) for w in
                                                          ("kilovfu0", "mega vfu1", "vfu0s", "millivfu1", "megavf0"))])
    for op in ops:
        state_before = (ndefs, tuple(stack), system)
        if op == "define":
            if ndefs < len(NEWDEFS):
                try:
                    ureg.define(NEWDEFS[ndefs])
                except Exception as e:  # noqa: BLE001
                    # the fresh twin takes every line of NEWDEFS, so a definition the aged registry
                    # refuses is itself an answer that depends on the history
                    lost = closure_defs(defined_inside_redef)
                    rec.violation("answer-depends-on-history",
                                  {"question": ["define", NEWDEFS[ndefs]], "aged_registry": f"{type(e).__name__}: {e}"[:300],
                                   "fresh_twin": "accepted", "state": repr(state_before),
                                   "trace": [list(map(str, t)) for t in trace[-60:]]},
                                  question_kind="define", redefining_context_active="vredef" in stack,
                                  redefining_context_used_earlier=any(t == ("enable", "vredef") for t in trace)
                                  and "vredef" not in stack,
                                  touches_base_units=False, workload=tag,
                                  asks_about_name_first_read_as_prefixed_unit_then_defined=False,
                                  reads_through_auto_registered_prefixed_unit=False,
                                  asks_about_unit_defined_inside_redefining_context=any(
                                      n in NEWDEFS[ndefs] for n in lost))
                    defined_inside_redef.add(DEFNAMES[ndefs])
                    rec.count("definitions_refused_by_aged_registry")
                else:
                    if "vredef" not in stack:
                        # defined (again) outside the redefining context: this name is no longer lost
                        defined_inside_redef.discard(DEFNAMES[ndefs])
                if "vredef" in stack:
                    defined_inside_redef.add(DEFNAMES[ndefs])
                ndefs += 1
                trace.append(("define", NEWDEFS[ndefs - 1]))
                rec.count("state_changes")
            continue
        if op == "ctx_kw_on":
            # a rule context enabled WITH a keyword override (possibly nested inside a plain one):
            # the override belongs to this activation only
            c = rng.choice(("sp|n=1.25", "sp|n=1.5"))
            enable_token(ureg, c)
            stack.append(c)
            trace.append(("enable", c))
            rec.count("state_changes")
            rec.count("keyword_activations")
            continue
        if op == "ctx_sp_on":
            ureg.enable_contexts("sp")
            stack.append("sp")
            trace.append(("enable", "sp"))
            rec.count("state_changes")
            continue
        if op == "ctx_rule_on":
            c = rng.choice(("sp", "energy", "boltzmann"))
            ureg.enable_contexts(c)
            stack.append(c)
            trace.append(("enable", c))
            rec.count("state_changes")
            continue
        if op == "ctx_redef_on":
            ureg.enable_contexts("vredef")
            stack.append("vredef")
            trace.append(("enable", "vredef"))
            rec.count("state_changes")
            continue
        if op == "ctx_off":
            if stack:
                ureg.disable_contexts(1)
                stack.pop()
                trace.append(("disable", 1))
                rec.count("state_changes")
            continue
        if op == "sys":
            system = rng.choice(SYSTEMS)
            ureg.default_system = system
            trace.append(("default_system", system))
            rec.count("state_changes")
            continue
        if op == "second":
            other = pint.UnitRegistry(cache_folder=None)   # float registry: shares process-wide lru caches
            other.define("vfu0 = 11 * second")      # same name, different meaning, other registry
            other.define("pound = 1 * kilogram")
            other.enable_contexts("sp")
            other.default_system = "cgs"
            for q in pool[:3]:
                answer(other, pint, q)
            trace.append(("second-registry",))
            rec.count("second_registry_touches")
            continue
        q = pool[int(op[1:]) % len(pool)]
        state = (ndefs, tuple(stack), system)
        rec.observe("distinct_states", repr(state))
        h0 = sum(s["hit"] for s in stats.values())
        got = answer(ureg, pint, q)
        hits = sum(s["hit"] for s in stats.values()) - h0
        want = world.twin_answer(state, q)
        rec.count("answers_compared")
        repeated = q in asked and asked[q] != state
        if repeated:
            rec.count("repeated_after_state_change")
        if hits:
            rec.count("cache_hits_observed")
        rec.case((repr(state), q), nontrivial=repeated or hits > 0)
        trace.append(("ask", q))
        asked[q] = state
        if got != want:
            in_redef = "vredef" in stack
            was_redef = any(t == ("enable", "vredef") for t in trace)
            rec.violation("answer-depends-on-history",
                          {"question": list(q), "aged_registry": got[:300], "fresh_twin": want[:300],
                           "state": repr(state), "trace": [list(map(str, t)) for t in trace[-60:]]},
                          question_kind=q[0], redefining_context_active=in_redef,
                          redefining_context_used_earlier=was_redef and not in_redef,
                          touches_base_units=q[0] in ("base", "to_base", "compact"), workload=tag,
                          reads_through_auto_registered_prefixed_unit=world.through_auto_registered(ureg, q),
                          asks_about_name_first_read_as_prefixed_unit_then_defined=("dab" in repr(q) and ndefs > NEWDEFS.index("dab = 5 * meter")),
                          asks_about_unit_defined_inside_redefining_context=any(
                              n in repr(q) or (n == "vfu0" and "vf0" in repr(q)) for n in
                              closure_defs(defined_inside_redef)))
    for name, s in stats.items():
        for k, v in s.items():
            rec.count(f"cache_{name}_{k}", v)


def closure_defs(names):
    """vfu1 is built on vfu0, vfu2 on vfu1, vfu3 on vfu0: a lost unit breaks its dependants."""
    dep = {"vfu1": {"vfu0"}, "vfu2": {"vfu1", "vfu0"}, "vfu3": {"vfu0"}, "kyd": {"vfu0"}}
    out = set(names)
    for k, v in dep.items():
        if v & out:
            out.add(k)
    return out


def run_shard(spec, rec):
    from harness import pintload
    import pint

    rng = random.Random(spec["seed"])
    from fractions import Fraction
    nit = Fraction if spec.get("nit") == "fraction" else float
    world = World(pint, pintload, nit)
    rec.observe("numeric_types", nit.__name__)
    if spec["kind"] == "bfs":
        k = 0
        # each enumerated state-change prefix is followed by the full question pool, asked twice
        alphabet = ["define", "ctx_rule_on", "ctx_kw_on", "ctx_redef_on", "ctx_off", "sys", "second"]
        for L in range(1, spec["length"] + 1):
            for seq in itertools.product(alphabet, repeat=L):
                k += 1
                if k % spec["parts"] != spec["part"]:
                    continue
                ops = ["q%d" % i for i in range(8)]
                for op in seq:
                    ops.append(op)
                    ops += ["q%d" % i for i in range(8)]
                run_history(ops, world, rec, rng, "bfs")
        rec.sample({"bfs_prefix_example": list(itertools.islice(itertools.product(alphabet, repeat=spec["length"]), 5, 6))})
    elif spec["kind"] == "sysarg":
        # base units asked for an EXPLICIT system and, for the same units, for the default one
        pool = [("base_sys", "pound", "cgs"), ("base", "pound"), ("base_sys", "mile / hour", "imperial"),
                ("base", "mile / hour"), ("base_sys", "ounce", "cgs"), ("base", "ounce"), ("to_base", "ounce", 3),
                ("base_sys", "stone", "mks")]
        for i in range(spec["n"]):
            order = list(range(8))
            if i % 2:
                rng.shuffle(order)
            allq = [f"q{j}" for j in order]
            ops = list(allq)
            for _ in range(rng.randint(1, 4)):
                ops += [rng.choice(("sys", "sys", "ctx_rule_on", "ctx_off", "define"))] + allq
            run_history(ops, world, rec, rng, "sysarg", pool=list(pool))
            rec.count("explicit_system_histories")
    elif spec["kind"] == "newname":
        # every definition step of NEWDEFS in turn, with the questions about the names they introduce
        # (dab: read as deca + barn until defined; vpfx: a new prefix; vfu*) asked before and after each
        names_q = [q for q in QUESTIONS if any(t in repr(q) for t in ("dab", "kyd", "vpfx", "vfu0", "vf0"))]
        for i in range(spec["n"]):
            pool = ([q for q in names_q if "dab" in repr(q) or "kyd" in repr(q)][:6]
                    + rng.sample([q for q in names_q if "dab" not in repr(q) and "kyd" not in repr(q)], 2))
            allq = [f"q{j}" for j in range(len(pool))]
            ops = list(allq)
            for _ in range(len(NEWDEFS)):
                if rng.random() < 0.25:
                    ops += [rng.choice(("sys", "ctx_rule_on", "ctx_off", "second"))]
                ops += ["define"] + allq
            run_history(ops, world, rec, rng, "newname", pool=pool)
            rec.count("new_name_histories")
    elif spec["kind"] == "spellings":
        # spellings a registry resolves lazily (prefix symbol + unit symbol, plurals), then spellings BUILT ON
        # them by one more prefix or suffix (kss, mkm, kilometerss) which a new registry mostly refuses:
        # what was asked before must not change any of the answers
        psym = ["k", "m", "M", "c", "u", "n", "kilo", "milli"]
        usym = ["m", "s", "g", "Pa", "Hz", "W", "N", "J", "V", "meter", "second", "gram", "hour"]
        for i in range(spec["n"]):
            firsts = [rng.choice(psym) + rng.choice(usym) for _ in range(3)]
            pool = []
            for f in firsts:
                pool.append(("parse_units", f))
            pool.append(("parse_units", "dab"))            # index 3 is replaced by run_history
            for f in firsts:
                d = rng.choice((rng.choice(psym) + f, f + "s", rng.choice(psym) + f + "s"))
                pool.append(rng.choice((("parse_units", d), ("convert", d, f), ("parse_expression", "2 " + d))))
            pool.append(("parse_units", firsts[0] + "s"))
            allq = [f"q{j}" for j in range(8)]
            ops = []
            for r in range(4):
                order = list(allq)
                if r:
                    rng.shuffle(order)
                ops += order
                if rng.random() < 0.3:
                    ops += [rng.choice(("sys", "ctx_rule_on", "ctx_off", "second"))]
            world.fresh_per_question = True
            run_history(ops, world, rec, rng, "spellings", pool=pool)
            rec.count("derived_spelling_histories")
    elif spec["kind"] == "compatctx":
        # compatible-unit listings asked inside and outside rule contexts, also for dimensions that have NO unit
        # of their own (joule / mole: the listing there is the union of what the context links it to): the
        # listings of the linked dimensions must read the same before, inside and after
        pool0 = [("compat", "joule / mole"), ("compat", "joule"), ("compat", "gram"), ("parse_units", "dab"),
                 ("compat", "kelvin"), ("compat", "joule / kelvin / mole"), ("compat", "hertz"), ("compat", "meter")]
        for i in range(spec["n"]):
            order = list(range(8))
            if i:
                rng.shuffle(order)
            allq = [f"q{j}" for j in order]
            ops = list(allq)
            for _ in range(rng.randint(2, 4)):
                ops += ["ctx_rule_on"] + allq + [rng.choice(("ctx_off", "ctx_rule_on", "sys"))] + allq
            world.fresh_per_question = True
            run_history(ops, world, rec, rng, "compatctx", pool=list(pool0))
            rec.count("compatible_listing_histories")
    elif spec["kind"] == "redefctx":
        # every question about a unit that depends on the unit redefined by the context 'vredef' (directly,
        # or through symbols / aliases several definitions away) is asked before, inside and after it
        deps = QUESTIONS[-26:-11]
        for i in range(spec["n"]):
            pool = [deps[(i * 8 + j) % len(deps)] for j in range(8)]
            allq = [f"q{j}" for j in range(8)]
            ops = allq + ["ctx_redef_on"] + allq
            if rng.random() < 0.5:
                ops += [rng.choice(("ctx_rule_on", "sys", "second"))] + allq
            ops += ["ctx_off"] + allq + ["ctx_redef_on"] + allq + ["ctx_off", "ctx_off"] + allq
            run_history(ops, world, rec, rng, "redefctx", pool=pool)
            rec.count("redefining_context_histories")
    elif spec["kind"] == "ctxkw":
        # the same rule context plainly and with keyword overrides, nested and one after the other: an
        # override belongs to its activation only, later plain activations answer like a fresh registry's
        ctxq = [("convert", "nanometer", "terahertz"), ("convert", "joule", "hertz"), ("convert", "mile", "kilometer")]
        for i in range(spec["n"]):
            pool = ctxq + rng.sample(QUESTIONS, 5)
            ask = lambda: ["q0", "q1"] + [f"q{rng.randrange(8)}" for _ in range(rng.randint(0, 2))]  # noqa: E731
            ops = ask()
            depth = 0
            for _ in range(rng.randint(3, 9)):
                r = rng.random()
                if r < 0.3:
                    ops.append("ctx_sp_on"); depth += 1
                elif r < 0.6:
                    ops.append("ctx_kw_on"); depth += 1
                elif depth:
                    ops.append("ctx_off"); depth -= 1
                else:
                    ops.append(rng.choice(("ctx_sp_on", "ctx_kw_on"))); depth += 1
                ops += ask()
            ops += ["ctx_off"] * depth + ["q0", "ctx_sp_on", "q0", "q1", "ctx_off", "q0"]
            run_history(ops, world, rec, rng, "ctxkw", pool=pool)
            rec.count("keyword_override_histories")
    elif spec["kind"] == "redefine":
        # an existing unit is defined again after answers about the units built on it were memoised
        vq = [q for q in QUESTIONS if "vf" in repr(q) or "vpfx" in repr(q) or q[0] == "compact"]
        for i in range(spec["n"]):
            pool = rng.sample(vq, 8)
            reads = lambda: [f"q{rng.randrange(8)}" for _ in range(rng.randint(3, 10))]  # noqa: E731
            ops = ["define", "define", "define"] + reads()
            if rng.random() < 0.4:
                ops += [rng.choice(("sys", "ctx_rule_on", "second"))] + reads()
            ops += ["define"] + [f"q{j}" for j in range(8)]          # the redefinition, then every question
            for _ in range(rng.randint(0, 3)):
                ops += [rng.choice(("define", "sys", "ctx_rule_on", "ctx_off"))] + reads()
            run_history(ops, world, rec, rng, "redefine", pool=pool)
            rec.count("redefinition_histories")
    else:
        for i in range(spec["n"]):
            L = rng.randint(10, 60)
            ops = [rng.choice(OPS) for _ in range(L)]
            run_history(ops, world, rec, rng, "random")
            if i == 0:
                rec.sample({"random_history": ops[:25]})
