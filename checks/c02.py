"""C02 — conversion factors equal the exact ratio implied by the written definitions.

Oracle: exact Fractions from the independent reference model (or known by construction
for generated files).  Fraction registry: `==` and type in {Fraction, int}; Decimal
registry: Decimal type and <= 1e-22 relative; float registry: <= 1e-12 relative with the
observed maximum ulp distance reported.  Units tainted by a fractional power of a scale
(29 bundled units) are compared at 1e-9 in every registry.
"""
import math
import random
from decimal import Decimal
from fractions import Fraction as F

PID = "C02"
RULE = ("Fraction/Decimal/float registries: every ordered same-dimension pair of canonical "
        "multiplicative units (complete), identity / inverse / path laws on random x, prefix "
        "spelling x unit spelling products (sampled in quick, complete in thorough), random "
        "compound pairs compatible by construction, generated definition files with factors "
        "known by construction, final audit of root_units / conversion_factor caches. "
        "distinct = (registry, workload, src, dst); non-trivial = expected ratio != 1")
ASSUMPTIONS = [
    "reference model validated against truth-by-construction files (gendef) in this same run",
    "exactness demanded only of units not tainted by a non-integer power of a scale",
    "float tolerance 1e-12 relative (observed max ulp reported, not alarmed on below that)",
]


def exhaustive(tier):
    return tier == "thorough"


def required(tier):
    return {"exact_pairs": 5000, "type_checks": 5000, "law_checks": 1000,
            "prefix_products": 2000, "cache_entries_audited": 500, "gen_units": 200,
            "primed_conversions": 1500, "array_conversions": 1000, "two_registry_conversions": 500, "argument_form_conversions": 2000}


def shards(tier, seed):
    out = []
    for nit in ("fraction", "decimal", "float"):
        parts = 3 if tier == "quick" else 6
        for i in range(parts):
            out.append({"kind": "pairs", "nit": nit, "part": i, "parts": parts,
                        "name": f"pairs-{nit}-{i}", "triples": 300 if tier == "quick" else 6000})
    parts = 2 if tier == "quick" else 8
    for i in range(parts):
        out.append({"kind": "prefix", "nit": "fraction", "part": i, "parts": parts,
                    "name": f"prefix{i}", "rate": 0.1 if tier == "quick" else 1.0})
    for i, nit in enumerate(("fraction", "fraction", "float", "decimal")):
        out.append({"kind": "compound", "nit": nit, "name": f"comp-{nit}-{i}",
                    "n": 5000 if tier == "quick" else 60000})
    for i in range(2 if tier == "quick" else 8):
        out.append({"kind": "generated", "name": f"gen{i}", "n": 30 if tier == "quick" else 200})
    for nit in ("fraction", "float", "decimal"):
        out.append({"kind": "primed", "nit": nit, "name": f"primed-{nit}"})
    # ndarray magnitudes (float and INTEGER dtype) through every conversion entry point, in place and not
    out.append({"kind": "tworeg", "name": "tworeg", "n": 12 if tier == "quick" else 150})
    out.append({"kind": "arrays", "nit": "float", "name": "arrays", "n": 1500 if tier == "quick" else 20000})
    return out


NIT = {"fraction": F, "decimal": Decimal, "float": float}


def tofrac(x):
    if isinstance(x, F):
        return x
    if isinstance(x, Decimal):
        return F(x)
    if isinstance(x, int):
        return F(x)
    if isinstance(x, float):
        return F(x)
    raise TypeError(type(x))


class Cmp:
    """Compare a real result with an exact expectation under the registry's rules."""

    def __init__(self, rec, nitname):
        self.rec, self.n = rec, nitname

    def __call__(self, got, want: F, exact_expected: bool, ctx: dict, mech="factor"):
        rec, n = self.rec, self.n
        rec.count("type_checks")
        rec.observe("result_types", f"{n}:{type(got).__name__}:{'exact' if exact_expected else 'tainted'}")
        try:
            g = tofrac(got)
        except TypeError:
            rec.violation("not-a-number", dict(ctx, got=repr(got)), nit=n)
            return
        if exact_expected and n == "fraction":
            if not isinstance(got, (F, int)):
                rec.violation("float-contamination", dict(ctx, got=repr(got), type=type(got).__name__), nit=n)
                return
            if g != want:
                rec.violation(mech, dict(ctx, got=str(g), want=str(want)), nit=n)
            return
        if exact_expected and n == "decimal" and not isinstance(got, (Decimal, int)):
            rec.violation("float-contamination", dict(ctx, got=repr(got), type=type(got).__name__), nit=n)
            return
        tol = F(1, 10 ** 9) if not exact_expected else {"decimal": F(1, 10 ** 22),
                                                         "float": F(1, 10 ** 12),
                                                         "fraction": F(0)}[n]
        err = abs(g - want)
        if want != 0 and exact_expected and n == "float":
            try:
                rec.maximum("float_ulps_max", float(err) / math.ulp(float(want)))
            except OverflowError:
                pass
        if want != 0 and exact_expected and n == "decimal":
            rec.maximum("decimal_relerr_max_e-28", float(err / abs(want)) * 1e28)
        if err > abs(want) * tol:
            rec.violation(mech, dict(ctx, got=repr(got), want=str(want), want_float=float(want),
                                     exact_expected=exact_expected), nit=n)


def run_shard(spec, rec):
    from harness import pintload, refmodel as R, gen
    import pint

    rng = random.Random(spec["seed"])
    if spec["kind"] == "generated":
        return run_generated(spec, rec, rng, pint)
    if spec["kind"] == "tworeg":
        return run_tworeg(spec, rec, rng, pint)
    nitname = spec["nit"]
    nit = NIT[nitname]
    m = R.default_model(pintload.REPO)
    names = gen.canonical_units(m, multiplicative=True)
    classes = gen.dimension_classes(m, names)
    ureg = pintload.registry(non_int_type=nit)
    cmp = Cmp(rec, nitname)
    fac = {c: m.root(c)[0] for c in names}

    def num(fr: F):
        if nit is F:
            return fr
        if nit is Decimal:
            return Decimal(fr.numerator) / Decimal(fr.denominator)
        return float(fr)

    def want_ratio(a, b):
        fa, fb = fac[a], fac[b]
        exact = fa.exact and fb.exact
        if exact:
            return fa.v / fb.v, True
        return F(fa.f()) / F(fb.f()), False

    if spec["kind"] == "pairs":
        cls = [v for v in classes.values()]
        pairs = [(a, b) for v in cls for a in v for b in v]
        mine = [p for i, p in enumerate(pairs) if i % spec["parts"] == spec["part"]]
        one = nit(1)
        for a, b in mine:
            want, exact = want_ratio(a, b)
            rec.case((nitname, "pair", a, b), nontrivial=want != 1)
            if exact:
                rec.count("exact_pairs")
            try:
                got = ureg.convert(one, a, b)
            except Exception as e:  # noqa: BLE001
                rec.violation("raised", {"src": a, "dst": b, "err": repr(e)}, nit=nitname)
                continue
            cmp(got, want, exact, {"src": a, "dst": b})
        rec.sample({"pair": mine[len(mine) // 2], "ratio": str(want_ratio(*mine[len(mine) // 2])[0])})
        # laws on random x: identity, inverse, path independence
        big = [v for v in cls if len(v) >= 3]
        xs = [F(7, 3), F(-5, 4), F(123456789, 1000), F(1, 1024)]
        for _ in range(spec["triples"]):
            v = rng.choice(big)
            a, b, c = rng.sample(v, 3)
            exact = fac[a].exact and fac[b].exact and fac[c].exact
            if nit is not F or not exact:
                # in inexact arithmetic the laws hold only to rounding: compared below with tol
                pass
            x = rng.choice(xs)
            xv = num(x)
            rec.count("law_checks")
            rec.case((nitname, "law", a, b, c))
            try:
                ident = ureg.convert(xv, a, a)
                ab = ureg.convert(xv, a, b)
                back = ureg.convert(ab, b, a)
                abc = ureg.convert(ab, b, c)
                ac = ureg.convert(xv, a, c)
            except Exception as e:  # noqa: BLE001
                rec.violation("raised", {"a": a, "b": b, "c": c, "err": repr(e)}, nit=nitname)
                continue
            ctx = {"a": a, "b": b, "c": c, "x": str(x)}
            cmp(ident, x, True, dict(ctx, law="identity"), "law-identity")
            cmp(back, x, exact, dict(ctx, law="inverse"), "law-inverse")
            wac = x * want_ratio(a, c)[0]
            cmp(abc, wac, exact, dict(ctx, law="path a->b->c"), "law-path")
            cmp(ac, wac, exact, dict(ctx, law="direct a->c"), "law-path")
            # the same conversion asked with OBJECT arguments: of a Unit, a container or a Quantity given as
            # source / destination only the units count (two quantities of the same amount in different units
            # are still different units)
            wab = x * want_ratio(a, b)[0]
            rba = want_ratio(b, a)[0]
            try:
                forms = {"unit-objects": (ureg.Unit(a), ureg.Unit(b)),
                         "containers": (ureg.Unit(a)._units, ureg.Unit(b)._units),
                         "quantities-same-amount": (ureg.Quantity(num(rba), a), ureg.Quantity(nit(1), b)),
                         "quantities": (ureg.Quantity(nit(3), a), ureg.Quantity(nit(5), b))}
            except Exception:  # noqa: BLE001
                forms = {}
            for fname, (sa_, sb_) in forms.items():
                rec.count("argument_form_conversions")
                try:
                    got = ureg.convert(xv, sa_, sb_)
                except Exception as e:  # noqa: BLE001
                    rec.violation("raised", dict(ctx, form=fname, err=repr(e)[:200]), nit=nitname)
                    continue
                cmp(got, wab, exact, dict(ctx, form=fname), "argument-form-" + fname)
    elif spec["kind"] == "prefix":
        one = F(1)
        spells = [s for s, c in m.spell.items() if c in fac and s.isidentifier()]
        spells = [s for i, s in enumerate(sorted(spells)) if i % spec["parts"] == spec["part"]]
        for s in spells:
            c = m.spell[s]
            for p, pc in m.pspell.items():
                if rng.random() > spec["rate"]:
                    continue
                ps = p + s
                if ps in m.spell:
                    rec.count("prefix_spelling_is_exact_name")
                    continue
                readings = m.readings(ps)
                if len(readings) != 1:
                    rec.count("prefix_spelling_ambiguous_skipped")
                    continue
                rec.count("prefix_products")
                rec.case(("prefix", ps), nontrivial=True)
                want = m.prefixes[pc]["value"]
                try:
                    got = ureg.convert(one, ps, s)
                    got2 = ureg.convert(one, s, ps)
                except Exception as e:  # noqa: BLE001
                    rec.violation("raised", {"src": ps, "dst": s, "err": repr(e)}, nit=nitname)
                    continue
                ex = fac[c].exact   # a tainted unit's factor is a float even in exact registries
                cmp(got, want, ex, {"src": ps, "dst": s, "prefix": pc}, "prefix-factor")
                cmp(got2, 1 / want, ex, {"src": s, "dst": ps, "prefix": pc}, "prefix-factor")
                if rng.random() < 0.02:
                    rec.sample({"spelling": ps, "prefix": pc, "unit": c, "factor": str(want)})
    elif spec["kind"] == "primed":
        # History: the WRITTEN reference of a derived unit (kilometer / hour for kph, kilogram * meter /
        # second ** 2 for newton ...) is reduced first, which primes the memo layers with exactly that
        # container; then the derived unit is converted at exponents other than +-1.
        one = nit(1)
        derived = [c for c in names if len(m.units[c]["ref"]) >= 2 and fac[c].v > 0 and fac[c].exact
                   and all(F(e).denominator == 1 for e in m.units[c]["ref"].values())]
        for c in derived:
            ref = m.units[c]["ref"]
            try:
                cont = ureg.UnitsContainer({k: int(v) for k, v in ref.items()})
                ureg.get_root_units(cont)
                ureg.Quantity(one, cont).to_base_units()
            except Exception:  # noqa: BLE001
                rec.count("primed_reference_unreducible")
                continue
            mf, mr, _ = m.root(c)
            for k in (2, -2, 3, -1, 1):
                if nit is float and not (1e-100 < abs(float(mf.v)) ** abs(k) < 1e100):
                    continue
                rec.count("primed_conversions")
                rec.case((nitname, "primed", c, k), nontrivial=True)
                src = ureg.UnitsContainer({c: k})
                dst = ureg.UnitsContainer({r: int(e) * k for r, e in mr.items()})
                try:
                    got = ureg.convert(one, src, dst)
                except Exception as e:  # noqa: BLE001
                    rec.violation("raised", {"src": repr(dict(src)), "dst": repr(dict(dst)), "err": repr(e)[:200]}, nit=nitname)
                    continue
                cmp(got, mf.v ** k, True, {"src": f"{c}**{k}", "dst": repr(dict(dst)), "primed_with": repr(dict(cont))},
                    "factor-after-priming-the-memo")
        rec.sample({"primed_example": "get_root_units(kilometer/hour) then convert kilometer_per_hour**2"})
    elif spec["kind"] == "arrays":
        import numpy as np
        pos = [c for c in names if fac[c].v > 0 and 1e-30 < fac[c].f() < 1e30]
        Q = ureg.Quantity
        for i in range(spec["n"]):
            a = rng.choice(pos)
            b = rng.choice([c for c in classes[tuple(sorted(m.root(a)[2].items()))]
                            if fac[c].v > 0 and 1e-30 < fac[c].f() < 1e30])
            want = fac[a].f() / fac[b].f()
            ints = rng.random() < 0.6
            base = np.array([rng.randint(-5000, 5000) for _ in range(rng.randint(1, 4))],
                            dtype=np.int64 if ints else float)
            if not ints:
                base = base + rng.random()
            expect = base.astype(float) * want
            entry = rng.choice(("to", "ito", "m_as", "convert", "convert-inplace", "ito_base_units", "to_base_units"))
            rec.case(("arrays", a, b, entry, str(base.dtype)), nontrivial=a != b)
            rec.count("array_conversions")
            rec.observe("array_entry_points", f"{entry}:{base.dtype}")
            arg = base.copy()
            try:
                if entry == "to":
                    got = Q(arg, a).to(b).magnitude
                elif entry == "m_as":
                    got = Q(arg, a).m_as(b)
                elif entry == "ito":
                    q = Q(arg, a)
                    q.ito(b)
                    got = q.magnitude
                elif entry == "convert":
                    got = ureg.convert(arg, a, b)
                elif entry == "convert-inplace":
                    got = ureg.convert(arg, a, b, inplace=True)
                else:
                    q = Q(arg, a)
                    r = q.to_base_units() if entry == "to_base_units" else (q.ito_base_units(), q)[1]
                    got = r.to(b).magnitude if entry == "to_base_units" else Q(np.array(r.magnitude, dtype=float), r.units).to(b).magnitude
            except TypeError as e:
                # numpy refuses to write floats into an integer array: a refusal, not a wrong number
                rec.count("array_inplace_refused_by_numpy")
                continue
            except Exception as e:  # noqa: BLE001
                rec.violation("raised", {"src": a, "dst": b, "entry": entry, "dtype": str(base.dtype), "err": repr(e)[:200]},
                              nit=nitname)
                continue
            got = np.asarray(got, dtype=float)
            if got.shape != expect.shape or not np.allclose(got, expect, rtol=1e-9, atol=0):
                rec.violation("array-conversion-wrong", {"src": a, "dst": b, "entry": entry, "dtype": str(base.dtype),
                                                         "x": base.tolist(), "got": got.tolist(),
                                                         "want": expect.tolist()},
                              nit=nitname, entry=entry, dtype="int" if ints else "float")
            elif entry in ("to", "m_as", "convert", "to_base_units") and not np.array_equal(arg, base):
                rec.violation("array-operand-mutated", {"src": a, "dst": b, "entry": entry, "x": base.tolist(),
                                                        "after": arg.tolist()}, nit=nitname, entry=entry)
    elif spec["kind"] == "compound":
        pos = [c for c in names if fac[c].v > 0]
        for i in range(spec["n"]):
            a = gen.compound(rng, pos, 1, 3, exps=(-2, -1, 1, 2))
            b = {}
            for u, e in a.items():
                v = rng.choice([c for c in classes[tuple(sorted(m.root(u)[2].items()))] if fac[c].v > 0])
                b[v] = b.get(v, 0) + e
            b = {k: v for k, v in b.items() if v}
            fa, fb = m.expand(a)[0], m.expand(b)[0]
            exact = fa.exact and fb.exact
            want = (fa.v / fb.v) if exact else F(fa.f()) / F(fb.f())
            x = rng.choice((F(1), F(3, 7), F(-250)))
            form = rng.random() < 0.5
            A = gen.render_units(a) if form else ureg.UnitsContainer({k: int(v) for k, v in a.items()})
            B = gen.render_units(b) if form else ureg.UnitsContainer({k: int(v) for k, v in b.items()})
            rec.case((nitname, "compound", gen.render_units(a), gen.render_units(b)), nontrivial=want != 1)
            try:
                got = ureg.convert(num(x), A, B)
            except OverflowError:
                rec.count("numeric_range_skipped")
                continue
            except Exception as e:  # noqa: BLE001
                rec.violation("raised", {"src": str(A), "dst": str(B), "err": repr(e)}, nit=nitname)
                continue
            if nit is float and (abs(fa.f()) > 1e150 or abs(fa.f()) < 1e-150 or abs(fb.f()) > 1e150 or abs(fb.f()) < 1e-150):
                rec.count("numeric_range_skipped")
                continue
            cmp(got, x * want, exact, {"src": gen.render_units(a), "dst": gen.render_units(b), "x": str(x)})
            if i % 1000 == 0:
                rec.sample({"src": gen.render_units(a), "dst": gen.render_units(b), "ratio": float(want)})

    # ---- audit caches left by the run ------------------------------------------------
    def key_to_model(key):
        d = {}
        for k, v in dict(key).items():
            if k.startswith("delta_"):
                raise KeyError(k)
            d[k] = F(v) if not isinstance(v, float) else F(v).limit_denominator(64)
        return d

    for key, (f, units) in list(ureg._cache.root_units.items()):
        try:
            mf, mr, _ = m.expand(key_to_model(key))
        except KeyError:
            rec.count("cache_entries_unmodelled")
            continue
        if f is None:
            rec.count("cache_entries_nonmult")
            continue
        rec.count("cache_entries_audited")
        got_units = {k: (F(v) if not isinstance(v, float) else F(v).limit_denominator(64)) for k, v in dict(units).items()}
        if got_units != mr:
            rec.violation("cache-root-units", {"key": repr(dict(key)), "cached": repr(dict(units)), "model": str(mr)}, nit=nitname)
        if nit is float and not (1e-150 < abs(mf.f()) < 1e150):
            continue
        cmp(f, mf.v if mf.exact else F(mf.f()), mf.exact, {"cache": "root_units", "key": repr(dict(key))}, "cache-root-factor")
    for (src, dst), f in list(ureg._cache.conversion_factor.items()):
        try:
            fa, fb = m.expand(key_to_model(src))[0], m.expand(key_to_model(dst))[0]
        except KeyError:
            rec.count("cache_entries_unmodelled")
            continue
        rec.count("cache_entries_audited")
        exact = fa.exact and fb.exact
        if nit is float and not (1e-150 < abs(fa.f()) < 1e150 and 1e-150 < abs(fb.f()) < 1e150):
            continue
        want = (fa.v / fb.v) if exact else F(fa.f()) / F(fb.f())
        cmp(f, want, exact, {"cache": "conversion_factor", "src": repr(dict(src)), "dst": repr(dict(dst))}, "cache-conversion-factor")


def run_generated(spec, rec, rng, pint):
    from harness.gendef import Gen
    from harness import refmodel as R

    for i in range(spec["n"]):
        g = Gen(rng)
        nitname = rng.choice(("fraction", "fraction", "decimal", "float"))
        nit = NIT[nitname]
        txt = g.text(rng, shuffle=True, layout=rng.randrange(4))
        cmp = Cmp(rec, nitname)
        try:
            ureg = pint.UnitRegistry(txt.splitlines(), non_int_type=nit, cache_folder=None)
        except Exception as e:  # noqa: BLE001
            rec.violation("generated-file-refused", {"text": txt, "err": repr(e)}, nit=nitname)
            continue
        # the model is validated here too: must equal truth by construction
        model = R.read_text(txt)
        mult = g.mult_units()
        classes = {}
        for c in mult:
            classes.setdefault(tuple(sorted(g.units[c]["dims"].items())), []).append(c)
            mf = model.root(c)[0]
            rec.count("gen_units")
            if not mf.exact or mf.v != g.units[c]["factor"]:
                rec.violation("refmodel-disagrees-with-construction",
                              {"text": txt, "unit": c, "model": str(mf), "truth": str(g.units[c]["factor"])},
                              nit="model")
        for v in classes.values():
            for a in v:
                for b in v:
                    sa, pa = g.ref_spelling(a)
                    sb, pb = g.ref_spelling(b)
                    want = (pa * g.units[a]["factor"]) / (pb * g.units[b]["factor"])
                    lo, hi = F(1, 10 ** 100), F(10 ** 100)
                    if nit is not F and not all(lo < abs(z) < hi for z in (
                            want, g.units[a]["factor"], g.units[b]["factor"])):
                        rec.count("numeric_range_skipped")   # denormal / overflowing float factors
                        continue
                    if nit is float and max(g.units[a].get("stress", 0.0), g.units[b].get("stress", 0.0)) > 290:
                        # partial products of the definition chain leave the float range although the
                        # final factor is moderate (same bound as C09 / C10 / C14 / C15)
                        rec.count("numeric_range_skipped")
                        continue
                    rec.case(("gen", spec["seed"], i, sa, sb), nontrivial=want != 1)
                    try:
                        got = ureg.convert(nit(1), sa, sb)
                    except OverflowError:
                        rec.count("numeric_range_skipped")
                        continue
                    except Exception as e:  # noqa: BLE001
                        rec.violation("raised", {"text": txt, "src": sa, "dst": sb, "err": repr(e)}, nit=nitname)
                        continue
                    cmp(got, want, True, {"text": txt, "src": sa, "dst": sb}, "generated-factor")
        if i == 0:
            rec.sample({"generated_file": txt[:500]})



def run_tworeg(spec, rec, rng, pint):
    """Several registries alive in ONE process whose definition texts give the SAME prefix and unit names
    different values (kilo- = 1000 in one, 1024 in the next): every registry converts by its own text, whoever
    resolved the spelling first."""
    pnames = [("kilo", "k"), ("milli", "m"), ("mega", "M"), ("micro", "u"), ("centi", "c"), ("hecto", "h")]
    for i in range(spec["n"]):
        nitname = ("fraction", "decimal", "float")[i % 3]
        nit = NIT[nitname]
        cmp = Cmp(rec, nitname)
        regs = []
        for r in range(3):
            pv = {}
            for k, (pn, ps) in enumerate(pnames):
                if r == 0:
                    pv[pn] = F(10) ** (3, -3, 6, -6, -2, 2)[k]
                else:
                    pv[pn] = F(rng.randint(2, 4096), rng.choice((1, 1, 2, 5, 8)))
            yard = F(rng.randint(2, 50), rng.choice((1, 4, 10))) if r else F(9144, 10000)
            lines = [f"{pn}- = {v.numerator} / {v.denominator} = {ps}-" for (pn, ps), v in zip(pnames, pv.values())]
            lines += ["meter = [length] = m", "second = [time] = s", "gram = [mass] = g",
                      f"yard = {yard.numerator} / {yard.denominator} * meter = yd"]
            try:
                regs.append((pint.UnitRegistry(lines, non_int_type=nit, cache_folder=None), pv, yard, lines))
            except Exception as e:  # noqa: BLE001
                rec.violation("generated-file-refused", {"text": "\n".join(lines), "err": repr(e)}, nit=nitname)
        asks = [(pn, ps, u, us) for pn, ps in pnames for u, us in (("meter", "m"), ("second", "s"), ("yard", "yd"))]
        rng.shuffle(asks)
        for j, (pn, ps, u, us) in enumerate(asks):
            order = list(range(len(regs)))
            rng.shuffle(order)             # which registry meets the spelling first varies
            for ri in order:
                ureg, pv, yard, lines = regs[ri]
                base = yard if u == "yard" else F(1)
                for src, dst, want in ((pn + u, "meter" if u == "yard" else u, pv[pn] * base),
                                       (u, ps + us, 1 / pv[pn]),
                                       (f"{ps}{us} ** 2", f"{u} ** 2", pv[pn] ** 2)):
                    rec.count("two_registry_conversions")
                    rec.case(("tworeg", i, ri, src, dst), nontrivial=True)
                    try:
                        got = ureg.convert(nit(1), src, dst)
                    except Exception as e:  # noqa: BLE001
                        rec.violation("raised", {"text": "\n".join(lines), "src": src, "dst": dst, "err": repr(e)}, nit=nitname)
                        continue
                    cmp(got, want, True, {"text": "\n".join(lines), "src": src, "dst": dst, "registry_index": ri,
                                          "asked_order": order}, "factor-in-one-of-several-registries")
        if i == 0:
            rec.sample({"tworeg_text": regs[0][3][:4] + regs[1][3][:4]})
