"""C01 — conversion succeeds iff dimensionality is identical; predicates agree.

Oracle: dimension vectors of the INDEPENDENT reference model (default registry) or known
by construction (generated registries).  Observed: the outcome class of the real
`convert`, the five compatibility predicates, the compatible-unit listing, and every
entry the run left in the registry's dimensionality cache.
"""
import random
from decimal import Decimal
from fractions import Fraction as F

PID = "C01"
RULE = ("default registry: ordered pairs of canonical multiplicative units (complete in both "
        "tiers for convert; predicates sampled in quick, complete in thorough), every defined "
        "spelling + prefixed/plural spellings vs one representative per dimension class, "
        "random compound pairs (built to be compatible / to differ in one exponent) with "
        "symmetry/closure laws, generated registries (truth by construction), three "
        "non_int_types, case-insensitive and auto-reduce configurations. A case is distinct by "
        "(workload, config, unit expressions); non-trivial = model relation and outcome are "
        "both recorded (all cases), distinct by hashed key")
ASSUMPTIONS = [
    "reference model reads default_en.txt independently (validated against truth-by-construction files)",
    "non-multiplicative units are excluded from the conversion biconditional (statement: "
    "'built from multiplicative units'); no context is active",
]


def exhaustive(tier):
    return tier == "thorough"


BARE = [0]


def required(tier):
    return {"pairs_convertible": 1000, "pairs_refused": 10000, "predicate_evals": 5000, "predicate_evals_bare_number": 1000,
            "derived_dimension_specs": 1000, "derived_specs_matching_the_unit": 100,
            "listing_checked": 300, "listing_checked_dimensionless": 10, "cache_entries_audited": 300, "gen_registries": 10,
            "adjacent_exponent_twins": 1000}


def shards(tier, seed):
    nrow = 8 if tier == "quick" else 16
    out = [{"kind": "pairs", "part": i, "parts": nrow, "name": f"pairs{i}",
            "pred_rate": 0.12 if tier == "quick" else 1.0} for i in range(nrow)]
    out.append({"kind": "spellings", "name": "spell", "cap": 120 if tier == "quick" else 100000})
    ncomp = 2 if tier == "quick" else 12
    for i in range(ncomp):
        out.append({"kind": "compound", "name": f"comp{i}", "n": 6000 if tier == "quick" else 40000,
                    "nit": ("float", "fraction", "decimal")[i % 3]})
    for i in range(2 if tier == "quick" else 8):
        out.append({"kind": "generated", "name": f"gen{i}", "n": 25 if tier == "quick" else 130})
    for i in range(2 if tier == "quick" else 6):
        # dimension expressions written with DERIVED dimension names ([capacitance], [energy]/[force])
        out.append({"kind": "derived", "name": f"derived{i}", "n": 900 if tier == "quick" else 6000,
                    "nit": ("float", "fraction")[i % 2]})
    for cfg in ("casei", "casei", "casei", "casei", "autoreduce", "decimal", "fraction"):
        # case-insensitive resolution iterates over sets: several hash seeds ("schedules")
        out.append({"kind": "config", "name": f"{cfg}{len(out)}", "cfg": cfg,
                    "n": 6000 if tier == "quick" else 60000})
    return out


# ---------------------------------------------------------------------------
def dimstring(dm):
    """Render a model dimension vector as a pint dimension expression."""
    if not dm:
        return "[]"
    num = [f"{k} ** ({v})" if v != 1 else k for k, v in dm.items() if v > 0]
    den = [f"{k} ** ({-v})" if v != -1 else k for k, v in dm.items() if v < 0]
    s = " * ".join(num) if num else "1"
    for d in den:
        s += " / " + d
    return s


def outcome(fn, pint):
    try:
        v = fn()
        return "ok", v
    except pint.DimensionalityError:
        return "dimerr", None
    except OverflowError as e:
        return "range", str(e)[:100]
    except Exception as e:  # noqa: BLE001
        if "inf" in str(e) or "nan" in str(e).lower():
            return "range", str(e)[:100]
        return "other:" + type(e).__name__, str(e)[:200]


def run_shard(spec, rec):
    from harness import pintload, refmodel as R, gen
    import pint

    rng = random.Random(spec["seed"])
    kind = spec["kind"]
    if kind == "generated":
        return run_generated(spec, rec, rng, pint)

    m = R.default_model(pintload.REPO)
    names = gen.canonical_units(m, multiplicative=True)
    positive = [c for c in names if m.root(c)[0].v > 0]   # roots of negative scales are complex
    dim = {c: tuple(sorted(m.root(c)[2].items())) for c in m.units}
    classes = gen.dimension_classes(m, names)

    nit = {"decimal": Decimal, "fraction": F}.get(spec.get("cfg") or spec.get("nit"), float)
    kw = {"non_int_type": nit}
    if spec.get("cfg") == "casei":
        kw["case_sensitive"] = False
    if spec.get("cfg") == "autoreduce":
        kw["auto_reduce_dimensions"] = True
    ureg = pintload.registry(**kw)
    one = nit(1)
    Q = ureg.Quantity
    _lazy = {}
    _viol = rec.violation
    rec.violation = lambda mech, wit, **f: _viol(mech, wit, cfg=spec.get("cfg") or spec.get("nit") or "float", **f)

    def judge(a, b, same, tag, pred=False):
        """a, b: unit expressions (str or dict); same: model relation."""
        ua, ub = ua_(a), ua_(b)
        oc, val = outcome(lambda: ureg.convert(one, ua, ub), pint)
        rec.case((tag, spec.get("cfg"), str(a), str(b)))
        rec.count("pairs_convertible" if same else "pairs_refused")
        rec.observe("outcomes", f"{'same' if same else 'diff'}->{oc.split(':')[0]}")
        if oc == "range":
            # the float factor left the representable range: says nothing about the relation
            rec.count("numeric_range_skipped")
            return oc
        if same and oc != "ok":
            rec.violation("compatible-refused", {"src": str(a), "dst": str(b), "outcome": oc,
                                                 "detail": val, "cfg": spec.get("cfg")}, workload=tag)
        elif not same and oc == "ok":
            rec.violation("incompatible-converted", {"src": str(a), "dst": str(b),
                                                     "value": repr(val), "cfg": spec.get("cfg")},
                          workload=tag)
        elif not same and oc != "dimerr":
            rec.violation("wrong-exception", {"src": str(a), "dst": str(b), "outcome": oc,
                                              "detail": val}, workload=tag)
        if same and oc == "ok" and not isinstance(val, (int, float, F, Decimal)):
            rec.violation("not-a-number", {"src": str(a), "dst": str(b), "value": repr(val)},
                          workload=tag)
        if pred:
            predicates(a, b, same, tag)
        return oc

    def predicates(a, b, same, tag):
        sa = a if isinstance(a, str) else gen.render_units(a)
        sb = b if isinstance(b, str) else gen.render_units(b)
        try:
            qa, ubu = Q(one, ureg.Unit(ua_(a))), ureg.Unit(ua_(b))
        except Exception as e:  # noqa: BLE001
            rec.violation("predicate-raised", {"a": sa, "b": sb, "err": repr(e)}, workload=tag)
            return
        res = {}
        res["Unit.is_compatible_with"] = outcome(lambda: qa.units.is_compatible_with(ubu), pint)[1]
        res["Quantity.is_compatible_with"] = outcome(lambda: qa.is_compatible_with(ubu), pint)[1]
        res["Quantity.is_compatible_with(Quantity)"] = outcome(
            lambda: qa.is_compatible_with(Q(one, ubu)), pint)[1]
        res["ureg.is_compatible_with"] = outcome(lambda: ureg.is_compatible_with(qa, ubu), pint)[1]
        # the same predicates given STRINGS (they must read them like Quantity.to does)
        res["Quantity.is_compatible_with(str)"] = outcome(lambda: qa.is_compatible_with(sb), pint)[1]
        res["Unit.is_compatible_with(str)"] = outcome(lambda: qa.units.is_compatible_with(sb), pint)[1]
        if spec.get("cfg") != "autoreduce":
            # (a string FIRST argument is evaluated as an expression: under auto_reduce_dimensions that
            # multiplication meets the float-exponent rounding recorded as finding T3 of C15 / C03)
            res["ureg.is_compatible_with(str, str)"] = outcome(lambda: ureg.is_compatible_with(sa, sb), pint)[1]
        if nit is not float and isinstance(a, dict) and isinstance(b, dict) and rng.random() < 0.5 \
                and spec.get("cfg") != "autoreduce" \
                and all(v == int(v) and v != 0 for d in (a, b) for v in d.values()):
            # decimal (non-dyadic) exponents written in the strings: every exponent divided by ten, so
            # the relation is unchanged; exact registries read 0.1 as 1/10
            def tenth(d):
                return " * ".join(f"{k} ** {'-' if v < 0 else ''}{abs(int(v)) // 10}.{abs(int(v)) % 10}" for k, v in d.items())
            ta, tb = tenth(a), tenth(b)
            conv = outcome(lambda: ureg.convert(one, ta, tb), pint)[0]
            if conv in ("ok", "dimerr"):
                rec.count("decimal_exponent_string_predicates")
                for k, fn in (("Quantity.is_compatible_with(str)", lambda: Q(one, ta).is_compatible_with(tb)),
                              ("Unit.is_compatible_with(str)", lambda: ureg.Unit(ta).is_compatible_with(tb)),
                              ("ureg.is_compatible_with(str, str)", lambda: ureg.is_compatible_with(ta, tb))):
                    v = outcome(fn, pint)[1]
                    rec.count("predicate_evals")
                    if v is not (conv == "ok") or (conv == "ok") is not same:
                        rec.violation("predicate-disagrees", {"predicate": k, "a": ta, "b": tb, "conversion": conv,
                                                              "model_same_dimension": same, "got": v},
                                      predicate=k, workload=tag, exponents="decimal-in-string")
        if nit is float and rng.random() < 0.3:
            # the predicates must follow the object's CURRENT units: in-place arithmetic on an array
            # quantity replaces the units after its dimensionality has been read once
            import numpy as np
            try:
                qi = Q(np.array([1.0, 2.0]), ureg.Unit(ua_(a)))
                qi.dimensionality
                qi *= Q(2.0, ubu)
                want_same = not m.dimvec(b if isinstance(b, dict) else R.evaluate(b)[1])
                got_c = qi.is_compatible_with(ureg.Unit(ua_(a)))
                rec.count("predicate_evals")
                rec.count("inplace_predicate_checks")
                if got_c is not want_same:
                    rec.violation("predicate-stale-after-inplace-operation",
                                  {"a": sa, "times": sb, "is_compatible_with_original": got_c, "model": want_same,
                                   "dimensionality_reported": repr(dict(qi.dimensionality))}, predicate="is_compatible_with",
                                  workload=tag)
            except Exception as e:  # noqa: BLE001
                rec.count("inplace_predicate_skipped")
        for k, v in res.items():
            rec.count("predicate_evals")
            if v is not same:
                rec.violation("predicate-disagrees", {"predicate": k, "a": sa, "b": sb,
                                                      "model_same_dimension": same, "got": v},
                              predicate=k, workload=tag)
        # a bare NUMBER as the other side counts as dimensionless, whatever its value (zero and NaN included):
        # the predicate answers exactly what converting to the dimensionless unit does
        oc0 = outcome(lambda: qa.to(ureg.Unit("")), pint)[0]
        if oc0 in ("ok", "dimerr"):
            BARE[0] += 1
            nums = (0, 0.0, -0.0, float("nan"), 1, 2.5, Decimal(0), F(0), False, True, -3)
            for num in (nums[BARE[0] % len(nums)], nums[(BARE[0] * 7 + 3) % len(nums)]):
                for k, fn in (("Quantity.is_compatible_with(number)", lambda: qa.is_compatible_with(num)),
                              ("ureg.is_compatible_with(quantity, number)", lambda: ureg.is_compatible_with(qa, num))):
                    rec.count("predicate_evals_bare_number")
                    o2, v2 = outcome(fn, pint)
                    if o2 == "range":
                        # Quantity.dimensionless goes through the root-unit FACTOR, which left the float range
                        rec.count("numeric_range_skipped")
                        continue
                    if o2 != "ok" or v2 is not (oc0 == "ok"):
                        rec.violation("predicate-disagrees", {"predicate": k, "a": sa, "number": repr(num),
                                                              "converts_to_dimensionless": oc0, "got": (o2, repr(v2))},
                                      predicate=k, workload=tag)

    def ua_(x):
        if isinstance(x, str):
            return x
        return ureg.UnitsContainer({k: int(e) if F(e).denominator == 1 else
                                    (F(e) if nit is F else nit(F(e).numerator) / nit(F(e).denominator))
                                    for k, e in x.items()})

    def dim_predicates(a, dm_a, dm_other, tag, ds=None):
        """Quantity.check and the ureg.check decorator against a model-rendered dimension."""
        same = dm_a == dm_other
        ds = ds or dimstring(dict(dm_other))
        qa = Q(one, ua_(a))
        oc, v = outcome(lambda: qa.check(ds), pint)
        rec.count("predicate_evals")
        if oc != "ok" or v is not same:
            rec.violation("predicate-disagrees", {"predicate": "Quantity.check", "a": str(a),
                                                  "dimension": ds, "model": same, "got": (oc, v)},
                          predicate="Quantity.check", workload=tag)
        # two checked parameters, passed by keyword in the opposite order of the signature
        f2 = ureg.check(ds, "[]")(lambda x, y: 42)
        oc2, v2 = outcome(lambda: f2(y=Q(one, ""), x=qa), pint)
        rec.count("predicate_evals")
        if (oc2 == "ok") is not same or (oc2 != "ok" and oc2 != "dimerr"):
            rec.violation("predicate-disagrees", {"predicate": "ureg.check (keywords out of order)", "a": str(a),
                                                  "dimension_x": ds, "model": same, "got": (oc2, v2)},
                          predicate="ureg.check", workload=tag)
        f = ureg.check(ds)(lambda x: 42)
        oc, v = outcome(lambda: f(qa), pint)
        rec.count("predicate_evals")
        if (oc == "ok") is not same or (oc != "ok" and oc != "dimerr"):
            rec.violation("predicate-disagrees", {"predicate": "ureg.check", "a": str(a),
                                                  "dimension": ds, "model": same, "got": (oc, v)},
                          predicate="ureg.check", workload=tag)

    # ------------------------------------------------------------------
    if kind == "pairs":
        GROUPNAMES = sorted(g for g in ureg._groups if g != "root")
        SYSNAMES = sorted(ureg._systems)
        rows = [c for i, c in enumerate(names) if i % spec["parts"] == spec["part"]]
        for a in rows:
            for b in names:
                p = rng.random() < spec["pred_rate"]
                judge(a, b, dim[a] == dim[b], "pairs", pred=p)
                if p and rng.random() < 0.3:
                    dim_predicates(a, dim[a], dim[b], "pairs")
            rec.sample({"src": a, "class_size": len(classes[dim[a]])})
            # listing: complete class via the all-units group, as a set - asked AFTER a listing restricted to
            # some smaller group and one restricted to a system (whose answers C14 judges): what was listed
            # before must not narrow what is listed now
            for narrower in (rng.choice(GROUPNAMES), rng.choice(SYSNAMES)):
                outcome(lambda: ureg.get_compatible_units(a, narrower), pint)
                rec.count("narrower_listings_asked_first")
            oc, got = outcome(lambda: ureg.get_compatible_units(a, "root"), pint)
            want = set(classes[dim[a]])
            if not dim[a]:
                # dimensionless class (radian, percent, bit ...): the listing must at least be complete;
                # extras (pint lists angstrom_star there) are observed, not judged
                rec.count("listing_checked_dimensionless")
                gotn = {str(u) for u in got} if oc == "ok" else set()
                if oc != "ok" or not want <= gotn:
                    rec.violation("listing-differs", {"unit": a, "missing": sorted(want - gotn)[:8] if oc == "ok" else oc,
                                                      "extra": "(not judged for the dimensionless class)"},
                                  workload="pairs", dimensionless=True)
                for x in sorted(gotn - want - {c for c in m.units if not m.is_multiplicative(c)})[:3]:
                    rec.observe("dimensionless_listing_extras", x)
            if dim[a]:
                rec.count("listing_checked")
                gotn = {str(u) for u in got} if oc == "ok" else oc
                gotn = {g for g in gotn if not g.startswith("delta_")} if oc == "ok" else gotn
                wantn = want | {c for c in m.units if not m.is_multiplicative(c)
                                and dim[c] == dim[a]}
                if gotn != wantn:
                    rec.violation("listing-differs", {"unit": a,
                                                      "missing": sorted(wantn - gotn)[:8] if oc == "ok" else oc,
                                                      "extra": sorted(gotn - wantn)[:8] if oc == "ok" else oc},
                                  workload="pairs")
    elif kind == "derived":
        dnames = sorted(m.dims)
        basedims = sorted({k for v in dim.values() for k, _ in v})
        allclasses = {}
        for c in names:
            allclasses.setdefault(dim[c], []).append(c)

        def expand(items):
            acc = {}
            for d, e in items:
                m.dim_expand(d, F(e), acc)
            return tuple(sorted((k, v) for k, v in acc.items() if v))

        def render(items):
            txt = ""
            for j, (d, e) in enumerate(items):
                term = d if abs(e) == 1 else f"{d} ** {abs(e)}"
                if j == 0:
                    txt = term if e > 0 else "1 / " + term
                else:
                    txt += (" * " if e > 0 else " / ") + term
            return txt

        for i in range(spec["n"]):
            r = rng.random()
            if r < 0.3:
                items = [(dnames[i % len(dnames)], 1)]
            else:
                k = 2 if r < 0.75 else 3
                items = [(rng.choice(dnames if rng.random() < 0.8 else basedims), rng.choice((1, 1, -1, -1, 2, -2)))
                         for _ in range(k)]
            ds = render(items)
            target = expand(items)
            cls = allclasses.get(target)
            a = rng.choice(cls) if cls and rng.random() < 0.6 else rng.choice(names)
            rec.case(("derived", spec.get("nit"), ds, a), nontrivial=len(items) > 1 or items[0][0] in m.dims)
            rec.count("derived_dimension_specs")
            rec.observe("derived_spec_shapes", f"terms={len(items)};repeats={len(target) < sum(len(expand([it])) for it in items)}")
            # (1) the registry's own reading of the expression
            oc, got = outcome(lambda: ureg.get_dimensionality(ds), pint)
            gotn = tuple(sorted((k, F(v).limit_denominator(64)) for k, v in dict(got).items())) if oc == "ok" else oc
            if gotn != target:
                rec.violation("dimension-expression-misread", {"expression": ds, "got": str(gotn)[:300],
                                                               "want": str(target)[:300]},
                              predicate="get_dimensionality", workload="derived")
            # (2) the predicates against the conversion relation
            dim_predicates(a, dim[a], target, "derived", ds=ds)
            if dim[a] == target:
                rec.count("derived_specs_matching_the_unit")
    elif kind == "spellings":
        reps = [v[0] for v in classes.values()]
        spells = list(m.spell.items())
        rng.shuffle(spells)
        pf = list(m.pspell)
        for s, c in spells[: spec["cap"] * 8]:
            if not m.is_multiplicative(c):
                continue
            variants = [s, rng.choice(pf) + s]
            if len(s) > 1:
                variants.append(s + "s")
            for v in variants:
                if v != s and (v in m.spell or not s.isidentifier()):
                    continue   # '%', degree signs etc. are spellings but not prefixable tokens
                try:
                    pc, cc = m.resolve(v)
                except KeyError:
                    continue
                if not m.is_multiplicative(cc):
                    continue
                others = rng.sample(reps, 6) + [classes[dim[cc]][0]]
                for r in others:
                    judge(v, r, dim[cc] == dim[r], "spellings", pred=rng.random() < 0.1)
    elif kind in ("compound", "config"):
        exact = kind == "compound" and nit is F
        pool = positive
        n = spec["n"]
        made = []
        for i in range(n):
            a = gen.compound(rng, pool, 1, 4, rational=exact or rng.random() < 0.0)
            if not exact and rng.random() < 0.25:
                # dyadic rational exponents are exact in float/Decimal too
                k = rng.choice(list(a))
                a[k] = F(rng.choice((-3, -1, 1, 3)), 2)
            # b: replace each unit by a random same-dimension unit (compatible by the model)
            b = {}
            for u, e in a.items():
                v = rng.choice([c for c in classes[dim[u]] if m.root(c)[0].v > 0])
                b[v] = b.get(v, 0) + e
            b = {k: v for k, v in b.items() if v != 0}
            mode = rng.random()
            if mode < 0.35:
                k = rng.choice(pool)
                b[k] = b.get(k, 0) + rng.choice((-1, 1, 2))
                b = {k: v for k, v in b.items() if v != 0}
            elif mode < 0.45:
                b = gen.compound(rng, pool, 1, 3)
            da, db = m.dimvec(a), m.dimvec(b)
            same = da == db
            form = rng.random()
            A = gen.render_units(a) if form < 0.5 else a
            B = gen.render_units(b) if form < 0.5 else b
            oc = judge(A, B, same, kind, pred=rng.random() < 0.15)
            oc2 = judge(B, A, same, kind + "-sym")
            if (oc == "ok") != (oc2 == "ok") and "range" not in (oc, oc2):
                rec.violation("asymmetric", {"a": str(A), "b": str(B), "ab": oc, "ba": oc2},
                              workload=kind)
            dyadic = all(F(v).denominator in (1, 2, 4) for v in list(da.values()) + list(db.values()))
            if rng.random() < 0.2 and dyadic:
                dim_predicates(A, tuple(sorted(da.items())), tuple(sorted(db.items())), kind)
            if spec.get("cfg") == "autoreduce" and rng.random() < 0.5:
                # closure under products / quotients / powers as QUANTITY arithmetic, where this
                # configuration rewrites the units after every operation
                try:
                    # exact registry: in float registries auto-reduction is known to stumble over
                    # rounded exponent ratios (finding T3 of C15); that is not what is asked here
                    if "ar" not in _lazy:
                        _lazy["ar"] = pintload.registry(non_int_type=F, auto_reduce_dimensions=True)
                    ar = _lazy["ar"]
                    mkc = lambda d: ar.UnitsContainer({k: int(e) if F(e).denominator == 1 else F(e) for k, e in d.items()})  # noqa: E731
                    qa, qb = ar.Quantity(F(1), mkc(a)), ar.Quantity(F(1), mkc(b))
                    for opn, r, wd in (("mul", lambda: qa * qb, R.mmul(da, db)), ("div", lambda: qa / qb, R.mmul(da, db, -1)),
                                       ("pow", lambda: qa ** 2, R.mscale(da, 2))):
                        rec.count("autoreduce_closure_checks")
                        oc3, val3 = outcome(r, pint)
                        if oc3 == "range":
                            continue
                        gotd = {k: F(v) for k, v in dict(val3.dimensionality).items()} if oc3 == "ok" else oc3
                        if gotd != wd:
                            rec.violation("closure-under-quantity-arithmetic", {"a": gen.render_units(a), "b": gen.render_units(b),
                                                                                "op": opn, "got": str(gotd), "want": str(wd)},
                                          workload=kind, op=opn)
                except Exception as e:  # noqa: BLE001
                    rec.count("autoreduce_closure_skipped")
            made.append((a, b, same))
            # adjacent-exponent twins asked right after a successful conversion: the same unit names with
            # one exponent moved by one (-1 -> -2 in particular: hash(-1) == hash(-2) in CPython) must be
            # refused even though a look-alike pair has just been converted (memo keyed too coarsely)
            if same and oc == "ok" and rng.random() < 0.5:
                for which in ("dst", "src"):
                    tgt = dict(b if which == "dst" else a)
                    if not tgt:
                        continue
                    cand = [u for u, e in tgt.items() if e == -1] or list(tgt)
                    u0 = rng.choice(cand)
                    tgt[u0] = tgt[u0] - 1
                    tgt = {u: e for u, e in tgt.items() if e != 0}
                    if not tgt:
                        continue
                    A2, B2 = (a, tgt) if which == "dst" else (tgt, b)
                    same2 = m.dimvec(A2) == m.dimvec(B2)
                    if form < 0.5:
                        A2, B2 = gen.render_units(A2), gen.render_units(B2)
                    rec.count("adjacent_exponent_twins")
                    judge(A2, B2, same2, kind + "-twin")
            if i % 500 == 0:
                rec.sample({"a": gen.render_units(a), "b": gen.render_units(b), "same": same})
            # closure under product / quotient / power on two recorded compatible pairs
            if same and len(made) > 4 and rng.random() < 0.3:
                a2, b2, s2 = rng.choice(made)
                if s2:
                    for op in ("mul", "div", "pow"):
                        k = rng.choice((-1, 2))
                        if op == "pow":
                            x = {u: e * k for u, e in a.items()}
                            y = {u: e * k for u, e in b.items()}
                        else:
                            sgn = 1 if op == "mul" else -1
                            x, y = dict(a), dict(b)
                            for u, e in a2.items():
                                x[u] = x.get(u, 0) + sgn * e
                            for u, e in b2.items():
                                y[u] = y.get(u, 0) + sgn * e
                            x = {u: e for u, e in x.items() if e}
                            y = {u: e for u, e in y.items() if e}
                        rec.count("closure_checked")
                        judge(x, y, True, "closure-" + op)
    # ------------------------------------------------------------------
    # audit what this run left in the dimensionality cache
    for key, val in list(ureg._cache.dimensionality.items()):
        try:
            want = m.dimvec({k: F(v) if not isinstance(v, float) else F(v).limit_denominator(64)
                             for k, v in dict(key).items()
                             if not k.startswith("delta_")} |
                            {k[6:]: F(v) for k, v in dict(key).items() if k.startswith("delta_")})
        except KeyError:
            rec.count("cache_entries_unmodelled")
            continue
        got = {k: (F(v) if not isinstance(v, float) else F(v).limit_denominator(64))
               for k, v in dict(val).items()}
        # a float exponent in the KEY that is off by one ulp (-1.333333333333334 after auto-reduction)
        # legitimately leaves a 1e-15 residue in the cached vector: not an entry of the vector
        got = {k: v for k, v in got.items() if v != 0 or not isinstance(dict(val)[k], float)}
        rec.count("cache_entries_audited")
        if got != want:
            rec.violation("cache-wrong", {"key": repr(dict(key)), "cached": repr(dict(val)),
                                          "model": {k: str(v) for k, v in want.items()}},
                          workload=kind)


def run_generated(spec, rec, rng, pint):
    from harness.gendef import Gen
    from harness import gen

    for i in range(spec["n"]):
        g = Gen(rng)
        nit = rng.choice((float, F, Decimal))
        txt = g.text(rng, shuffle=True, layout=rng.randrange(4))
        try:
            ureg = pint.UnitRegistry(txt.splitlines(), non_int_type=nit, cache_folder=None)
        except Exception as e:  # noqa: BLE001
            rec.violation("generated-file-refused", {"text": txt, "err": repr(e)},
                          workload="generated")
            continue
        rec.count("gen_registries")
        mult = g.mult_units()
        one = nit(1)
        for a in mult:
            for b in mult:
                same = g.units[a]["dims"] == g.units[b]["dims"]
                sa, _ = g.ref_spelling(a, allow_prefix=True)
                sb, _ = g.ref_spelling(b, allow_prefix=True)
                oc, val = outcome(lambda: ureg.convert(one, sa, sb), pint)
                rec.case(("gen", spec["seed"], i, sa, sb))
                rec.count("pairs_convertible" if same else "pairs_refused")
                if oc == "range":
                    rec.count("numeric_range_skipped")   # float factor overflowed: says nothing about the relation
                    continue
                if (oc == "ok") is not same or (oc != "ok" and oc != "dimerr"):
                    rec.violation("generated-relation", {"text": txt, "src": sa, "dst": sb,
                                                         "model_same": same, "outcome": oc,
                                                         "detail": repr(val)}, workload="generated")
                if rng.random() < 0.1:
                    oc2, v2 = outcome(lambda: ureg.Unit(sa).is_compatible_with(ureg.Unit(sb)), pint)
                    rec.count("predicate_evals")
                    if v2 is not same:
                        rec.violation("predicate-disagrees",
                                      {"predicate": "Unit.is_compatible_with", "text": txt,
                                       "a": sa, "b": sb, "model": same, "got": (oc2, v2)},
                                      predicate="Unit.is_compatible_with", workload="generated")
        if i == 0:
            rec.sample({"generated_file": txt[:600]})
