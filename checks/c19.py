"""C19 — measurements carry uncertainty consistently through conversion and arithmetic.

Technique: the real pint (float registry + `uncertainties`) is driven by five workloads while
oracles written here decide each clause of the statement:

  ctor    every constructor form x values over 40 decades x units (offset units included):
          value / error / rel report the inputs back; negative errors are rejected.
  conv    EVERY ordered compatible pair of canonical multiplicative units (complete, both tiers),
          every pair of temperature scales (offset, absolute, delta_), the logarithmic units
          against their linear reference, the to_root/to_base/to_reduced/to_compact family:
          nominal == plain-quantity conversion, sigma == |slope| * sigma with the slope taken from
          the independent reference model (harness/refmodel: exact ratio of the written
          definitions; for offset units the affine maps scale*x+offset of the definition file),
          relative error invariant under multiplicative conversion.
  arith   (a) binary + - * / ** (and the in-place forms) over operand kinds M(easurement),
          U (Quantity with ufloat magnitude), Q (plain), N (number), u (bare ufloat);
          (b) random expression trees with shared leaves (correlation), (c) the offset-unit rule
          table.  Unit rules = the same computation on the plain nominal quantities (same
          outcome class, same units, same nominal); sigma = first-order propagation done here
          by forward-mode differentiation (harness/c19_text.D) with unit ratios from the
          reference model.  (c) uses central differences of the plain computation (exact for
          the affine maps involved) because the model has no delta_ units.
  parse   generated notations  (N +/- S)[eK] U,  N +/- S U,  N(S)[eK] U  with signs, unicode
          +/-, spacing, attached units, all exponent spellings the tokenizer knows, at end of
          input, and embedded in arithmetic; meaning computed by harness/c19_text (GUM concise
          notation: digits in parentheses count in units of the last written digit).
  format  measurement x {'', D, P, L, H, C, Lx} x {'', ~, #} x magnitude specs: the rendered text is
          read back by an independent reader; value and uncertainty must equal the measurement
          to half a unit of the last rendered digit (exact Fractions), the unit part must equal
          pint's own unit rendering (trusted here, C09 decides it); D/C renderings must parse
          back (pint's parser) to the rendered measurement.

Classifier fields name the mechanism, never values; the concrete class of every witness
(operand kinds, spec, notation class, source generated/rendered) is in witness["class"].
Genuine defects re-found on the unchanged tree (kept as violations, 21 signatures):
  F1 arith-*  operands=with-Measurement, units=offset-or-delta-involved (6 signatures):
     class Measurement(PlainQuantity) lacks the non-multiplicative facet, so M(20,.5,'degC') +
     M(1,.1,'degC') computes, degC - degC stays degC, degC + delta_degC raises, degC * 2 computes.
  F2 parse-sigma form=shorthand digits=fewer-/more-decimals (4): "8.00(4)" is read as +/-0.4
     (always "0."+digits), so format(m, 'uS') does not parse back.
  F3 parse-raised / parse-embedded-raised err=IndexError position=end-of-input (3): look-ahead
     for an exponent indexes the empty NEWLINE token: '(8.0 +/- 0.4)', '8.0(4)', '2 * (1 +/- .1)'.
  F4 parse-embedded-value context="X ** k" (1): the tokenizer drops the parentheses, '**'
     then binds to the standard deviation only: '(8.0 +/- 0.4)**2' -> 8.0 +/- 0.16.
  F5 plus-sign-in-parentheses:* (2): '(+8.0 +/- 0.4)e1 m' - notation not recognised, e1 is a unit.
  F6 format-raised flag=P modifier=~ (1): PrettyFormatter passes the pint flags to uncertainties.
  F7 format-unreadable flag=Lx magkind=shorthand (1): '\\SI{4.000100 }{...}' - parentheses stripped.
  F8 conv-raised kind=logarithmic (2): ufloat magnitudes cannot pass numpy log/exp (design limit).
  F9 arith-units-differ-from-plain op=** exponent=uncertain base=dimensional (1): the unit
     exponent becomes a ufloat ('meter ** 2.00+/-0.10').

Deviations from DESIGN.md: (1) the +/- ... ** 2 precedence and end-of-input cases are
included in the notation space because the statement's "parse to that same measurement" is
decided on whole input strings; (2) logarithmic units are included as "compatible pairs";
(3) non-float registries are out of scope (ufloat is float-only; ud.Measurement(4.0, .1,
's').to('ms') is a TypeError by construction of `uncertainties`).
"""
import math
import random
from fractions import Fraction as F

PID = "C19"
RULE = ("ctor: (form, unit kind, value class, error class); conv: (method, src, dst) over all "
        "ordered compatible canonical pairs + temperature + logarithmic units; arith: (op, left "
        "kind, right kind, unit relation, outcome) and random trees keyed by their rendering; "
        "parse: the generated string; format: (measurement, spec). Non-trivial = expected "
        "sigma != input sigma or a conversion/propagation/notation actually changes a number; "
        "identity conversions and both-raise cases are counted trivial")
ASSUMPTIONS = [
    "reference model (harness/refmodel) ratios are right (validated by C02 against construction)",
    "the plain Quantity computation is the specification of unit rules and nominal values",
    "unit rendering (format(units, spec)) and unit parsing are trusted here (C09, C07, C08)",
    "concise notation N(S) means S in units of the last digit of N (GUM 7.2.2, CODATA, siunitx)",
    "float registry only: the uncertainties package has no Decimal/Fraction support",
    "tolerance 1e-9 relative (scaled by the sum of |terms| under cancellation)",
]
SHARD_TIMEOUT = {"quick": 600, "thorough": 3000}
TOL = 1e-9


def exhaustive(tier):
    return False   # the unit-pair space is complete, the value/expression/notation spaces are sampled


def required(tier):
    t = tier == "thorough"
    return {
        "ctor_cases": 4000 if t else 800, "ctor_forms": 11, "neg_rejected": 400 if t else 100,
        "conv_mult_pairs": 7500, "conv_offset_pairs": 40, "conv_family_calls": 1000,
        "rel_invariance_checks": 8000, "conv_correlation_checks": 5000, "conv_log_attempts": 14,
        "arith_binary": 20000 if t else 3000, "arith_sigma_checked": 20000 if t else 3000,
        "bare_uncertain_zero_operands": 100, "arith_kinds": 80, "arith_trees_checked": 5000 if t else 600, "arith_offset_cases": 300,
        "parse_cases": 10000 if t else 1500, "parse_classes": 250, "parse_embedded": 1000 if t else 200,
        "format_cases": 10000 if t else 2000, "format_specs": 600, "format_roundtrips": 1500 if t else 300,
    }


def shards(tier, seed):
    t = tier == "thorough"
    out = []
    for i in range(4 if t else 2):
        out.append({"kind": "ctor", "name": f"ctor{i}", "n": 4000 if t else 900})
    parts = 8 if t else 4
    for i in range(parts):
        out.append({"kind": "conv", "name": f"conv{i}", "part": i, "parts": parts,
                    "reps": 6 if t else 1})
    out.append({"kind": "convx", "name": "conv-offset-log-family", "reps": 40 if t else 6})
    for i in range(6 if t else 3):
        out.append({"kind": "binary", "name": f"binary{i}", "n": 40000 if t else 2500})
    for i in range(4 if t else 2):
        out.append({"kind": "tree", "name": f"tree{i}", "n": 15000 if t else 700})
    out.append({"kind": "offarith", "name": "offset-arith", "reps": 12 if t else 2})
    for i in range(4 if t else 2):
        out.append({"kind": "parse", "name": f"parse{i}", "n": 30000 if t else 1500})
    for i in range(8 if t else 4):
        out.append({"kind": "format", "name": f"format{i}", "n": 250 if t else 20})
    return out


# ------------------------------------------------------------------------------------------
# small shared pieces
# ------------------------------------------------------------------------------------------
def close(a, b, tol=TOL, floor=0.0):
    if a == b:
        return True
    if a != a or b != b:
        return False
    return abs(a - b) <= tol * max(abs(a), abs(b)) + tol * floor


def rand_value(rng, positive=False):
    """A float spanning 40 decades, either sign."""
    mant = rng.choice((rng.uniform(1, 10), float(rng.randint(1, 9)), rng.randint(1, 9999) / 1000))
    v = mant * 10.0 ** rng.randint(-20, 20)
    if not positive and rng.random() < 0.35:
        v = -v
    return v


def mod_value(rng, positive=False):
    """A float of moderate size (arithmetic: powers must not overflow)."""
    v = rng.choice((rng.uniform(0.1, 10), float(rng.randint(1, 20)), rng.randint(1, 9999) / 100))
    v *= 10.0 ** rng.randint(-3, 3)
    if not positive and rng.random() < 0.3:
        v = -v
    return v


def rand_err(rng, v):
    r = rng.random()
    if r < 0.04:
        return 0.0
    if r < 0.75:
        return abs(v) * 10.0 ** rng.uniform(-6, 0.3) if v else 10.0 ** rng.uniform(-6, 1)
    return rng.uniform(1, 10) * 10.0 ** rng.randint(-20, 20)


def nomsd(x):
    """(nominal, std_dev, units container or None) of whatever an operation returned."""
    mag = getattr(x, "magnitude", x)
    units = getattr(x, "_units", None)
    n = getattr(mag, "nominal_value", mag)
    s = getattr(mag, "std_dev", 0.0)
    return n, s, units


def errfamily(e):
    import pint
    for cls in (pint.OffsetUnitCalculusError, pint.DimensionalityError, pint.UndefinedUnitError):
        if isinstance(e, cls):
            return cls.__name__
    if isinstance(e, (ZeroDivisionError, OverflowError)):
        return type(e).__name__
    return type(e).__name__


class Env:
    def __init__(self, spec, rec, **kw):
        from harness import pintload, refmodel as R, gen
        import pint  # noqa: F401
        from uncertainties import ufloat
        self.rec = rec
        self.rng = random.Random(spec["seed"])
        self.ureg = pintload.registry(**kw)
        self.Q, self.M = self.ureg.Quantity, self.ureg.Measurement
        self.ufloat = ufloat
        self.R = R
        self.model = R.default_model(pintload.REPO)
        self.names = gen.canonical_units(self.model, multiplicative=True)
        self.classes = gen.dimension_classes(self.model, self.names)
        self.fac = {c: self.model.root(c)[0].f() for c in self.names}

    def ratio(self, a: dict, b: dict) -> float:
        """x [a] == x * ratio [b] for multiplicative unit dicts (reference model)."""
        fa, fb = self.model.expand(a)[0], self.model.expand(b)[0]
        return fa.f() / fb.f()


# ------------------------------------------------------------------------------------------
# ctor
# ------------------------------------------------------------------------------------------
OFFSET_UNITS = ("degree_Celsius", "degree_Fahrenheit", "degree_Reaumur")


def run_ctor(spec, rec):
    env = Env(spec, rec)
    rng, ureg, Q, M, ufloat = env.rng, env.ureg, env.Q, env.M, env.ufloat
    big = [v for v in env.classes.values() if len(v) >= 2]

    def pick_unit():
        r = rng.random()
        if r < 0.12:
            return rng.choice(OFFSET_UNITS), "offset"
        if r < 0.18:
            return "", "dimensionless"
        if r < 0.3:
            a, b = rng.sample(env.names, 2)
            return f"{a} / {b}", "compound"
        return rng.choice(env.names), "mult"

    FORMS = ("num3", "num3-unitobj", "qpair-same", "qpair-other", "q-num", "ufloat-unit",
             "q-ufloat", "pm-abs", "pm-quantity", "pm-quantity-other", "pm-rel", "num2")
    for i in range(spec["n"]):
        form = FORMS[i % len(FORMS)]
        unit, ukind = pick_unit()
        v = rand_value(rng)
        if rng.random() < 0.1:
            v = float(rng.randint(-50, 50)) or 1.0
        as_int = rng.random() < 0.08 and abs(v) < 1e15 and v == int(v)
        e = rand_err(rng, v)
        rel_in = None
        want_e = e
        etol = 0.0
        other = None
        if form in ("qpair-other", "pm-quantity-other"):
            cls = rng.choice(big)
            unit, other = rng.sample(cls, 2)
            ukind = "mult"
            # the error is given in `other`; it must come back in `unit`
            e_other = e
            want_e = e_other * env.ratio({other: 1}, {unit: 1})
            etol = TOL
            if not (1e-150 < abs(want_e) < 1e150) and want_e != 0:
                rec.count("numeric_range_skipped")
                continue
            if env.fac[unit] * env.fac[other] < 0:
                rec.count("skipped_negative_scale_unit")     # electron_g_factor: sign of the error flips
                continue
        if form == "num2":
            unit, ukind = "", "dimensionless"
        vv = int(v) if as_int else v
        try:
            if form == "num3":
                m = M(vv, e, unit)
            elif form == "num3-unitobj":
                m = M(vv, e, ureg.Unit(unit))
            elif form == "num2":
                m = M(vv, e)
            elif form == "qpair-same":
                m = M(Q(vv, unit), Q(e, unit))
            elif form == "qpair-other":
                m = M(Q(vv, unit), Q(e_other, other))
            elif form == "q-num":
                m = M(Q(vv, unit), e)
            elif form == "ufloat-unit":
                m = M(ufloat(v, e), unit)
            elif form == "q-ufloat":
                m = M(Q(ufloat(v, e), unit))
            elif form == "pm-abs":
                m = Q(vv, unit).plus_minus(e)
            elif form == "pm-quantity":
                m = Q(vv, unit).plus_minus(Q(e, unit))
            elif form == "pm-quantity-other":
                m = Q(vv, unit).plus_minus(Q(e_other, other))
            elif form == "pm-rel":
                rel_in = 10.0 ** rng.uniform(-8, 0.5) if rng.random() > 0.05 else 0.0
                m = Q(vv, unit).plus_minus(rel_in, relative=True)
                want_e = rel_in * abs(v)
                etol = 1e-12
            rec.observe("ctor_forms", form)
            rec.count("ctor_cases")
            rec.case(("ctor", form, ukind, v < 0, as_int, e == 0), nontrivial=True)
            got_v, got_e = m.value, m.error
            wit = {"form": form, "value": v, "error": e, "unit": unit, "other": other,
                   "rel_in": rel_in, "got": repr(m)}
            uobj = ureg.Unit(unit)
            if isinstance(got_v, M) or isinstance(got_e, M):
                rec.violation("ctor-accessor-type", wit, form=form, what="value/error is a Measurement")
            if got_v.magnitude != float(v) or got_v.units != uobj:
                rec.violation("ctor-value", dict(wit, value_back=repr(got_v)), form=form, unit_kind=ukind)
            if not close(got_e.magnitude, want_e, etol) or got_e.units != uobj:
                rec.violation("ctor-error", dict(wit, error_back=repr(got_e), want=want_e),
                              form=form, unit_kind=ukind)
            if got_e.magnitude < 0:
                rec.violation("ctor-error-negative", wit, form=form, unit_kind=ukind)
            if v != 0 and math.isfinite(want_e / abs(v)):
                want_rel = rel_in if rel_in is not None else want_e / abs(v)
                got_rel = m.rel
                got_rel = getattr(got_rel, "magnitude", got_rel)
                if not close(got_rel, want_rel, max(etol, 1e-12)):
                    rec.violation("ctor-rel", dict(wit, rel_back=got_rel, want=want_rel), form=form,
                                  sign="negative" if v < 0 else "positive")
                rec.count("rel_reported")
            if i % 50 == 0:
                rec.sample({"ctor": form, "args": [v, e, unit], "got": repr(m)})
        except Exception as ex:  # noqa: BLE001
            rec.violation("ctor-raised", {"form": form, "value": v, "error": e, "unit": unit,
                                          "other": other, "rel_in": rel_in, "err": repr(ex)},
                          form=form, unit_kind=ukind, sign="negative" if v < 0 else "positive",
                          err=type(ex).__name__)
            continue
        # ---- negative error must be rejected (every form that can express one) ------------
        ne = -(e if e > 0 else 1.0)
        negs = {
            "num3": lambda: M(vv, ne, unit),
            "num3-unitobj": lambda: M(vv, ne, ureg.Unit(unit)),
            "num2": lambda: M(vv, ne),
            "qpair-same": lambda: M(Q(vv, unit), Q(ne, unit)),
            "qpair-other": lambda: M(Q(vv, unit), Q(ne, other)),
            "q-num": lambda: M(Q(vv, unit), ne),
            "pm-abs": lambda: Q(vv, unit).plus_minus(ne),
            "pm-quantity": lambda: Q(vv, unit).plus_minus(Q(ne, unit)),
            "pm-quantity-other": lambda: Q(vv, unit).plus_minus(Q(ne, other)),
            "pm-rel": lambda: Q(vv, unit).plus_minus(-(rel_in or 0.01), relative=True),
        }
        if form in negs and v != 0:
            try:
                bad = negs[form]()
            except ValueError:
                rec.count("neg_rejected")
                rec.observe("neg_rejected_forms", form)
            except Exception as ex:  # noqa: BLE001
                # rejected, but not with the documented ValueError: still a rejection
                rec.count("neg_rejected")
                rec.observe("neg_rejected_other_error", f"{form}:{type(ex).__name__}")
            else:
                rec.violation("negative-error-accepted",
                              {"form": form, "value": v, "error": ne, "unit": unit, "got": repr(bad)},
                              form=form, sign="negative" if v < 0 else "positive")

    # a Measurement handed to the Quantity constructor: refused, or the same measurement (converted like
    # m.to(units) when units are named) - never the old numbers under new units
    pairs = [("meter", "centimeter"), ("kilogram", "gram"), ("degree_Celsius", "kelvin"), ("degree_Celsius", "degree_Fahrenheit"),
             ("newton", "millinewton"), ("hour", "second")]
    for i in range(max(12, spec["n"] // 40)):
        src, dst = pairs[i % len(pairs)]
        v, e = rng.uniform(1, 90), rng.uniform(0.01, 2)
        m = M(v, e, src)
        for units in (dst, None, src):
            rec.count("quantity_from_measurement")
            rec.case(("Q(M)", src, units, i), nontrivial=units not in (None, src))
            try:
                r = Q(m, units) if units is not None else Q(m)
            except Exception:  # noqa: BLE001
                rec.observe("quantity_from_measurement_outcomes", "refused")
                continue
            rec.observe("quantity_from_measurement_outcomes", "accepted")
            try:
                ref = m.to(units) if units is not None else m
                mag = r.magnitude
                ok = str(r.units) == str(ref.units) and close(float(getattr(mag, "nominal_value", mag)), ref.value.magnitude, 1e-9) \
                    and close(float(getattr(mag, "std_dev", 0.0)), ref.error.magnitude, 1e-9)
            except Exception as ex:  # noqa: BLE001
                ok = False
            if not ok:
                rec.violation("ctor-quantity-from-measurement", {"measurement": [v, e, src], "units": units, "got": repr(r)[:200],
                                                               "same_as": repr(ref)[:200] if "ref" in dir() else "?"},
                              form="quantity-from-measurement", units="other" if units == dst else "same-or-none")


# ------------------------------------------------------------------------------------------
# conv: all multiplicative pairs
# ------------------------------------------------------------------------------------------
def check_converted(env, m, r, plain, v, e, slope, want_nom, ctx, fields, mult=True, nomfloor=0.0):
    """r: converted measurement; plain: converted plain quantity; slope/want_nom: model."""
    rec = env.rec
    try:
        rv, re_ = r.value.magnitude, r.error.magnitude
        rrel = r.rel if (v != 0 and rv != 0) else None
    except Exception as ex:  # noqa: BLE001
        rec.violation("conv-result-not-a-measurement", dict(ctx, got=repr(r), err=repr(ex)), **fields)
        return
    if r.units != plain.units:
        rec.violation("conv-units", dict(ctx, got=repr(r), plain=repr(plain)), **fields)
    if not close(rv, plain.magnitude, 1e-12, nomfloor):
        rec.violation("conv-nominal-vs-plain", dict(ctx, got=rv, plain=plain.magnitude), **fields)
    if want_nom is not None and not close(rv, want_nom, TOL, nomfloor):
        rec.violation("conv-nominal-vs-model", dict(ctx, got=rv, want=want_nom), **fields)
    if slope is not None:
        want_s = abs(slope) * e
        if want_s != 0 and not (1e-140 < want_s < 1e140):
            rec.count("numeric_range_skipped")
            return
        if not close(re_, want_s):
            rec.violation("conv-sigma", dict(ctx, got=re_, want=want_s, slope=slope), **fields)
        else:
            rec.count("sigma_scaled_ok")
    if mult and v != 0 and e != 0 and rrel is not None:
        rel0 = e / abs(v)
        rec.count("rel_invariance_checks")
        if not close(getattr(rrel, "magnitude", rrel), rel0):
            rec.violation("conv-rel-not-invariant", dict(ctx, rel_before=rel0, rel_after=repr(rrel)),
                          **fields)


METHODS = ("to-str", "to-unit", "ito", "to-container")


def do_convert(env, m, b, method):
    if method == "to-str":
        return m.to(b)
    if method == "to-unit":
        return m.to(env.ureg.Unit(b))
    if method == "to-container":
        return m.to(env.ureg.Unit(b)._units)
    c = env.M(m.magnitude, m.units)
    c.ito(b)
    return c


def run_conv(spec, rec):
    env = Env(spec, rec)
    rng, Q, M = env.rng, env.Q, env.M
    pairs = [(a, b) for v in env.classes.values() for a in v for b in v]
    mine = [p for i, p in enumerate(pairs) if i % spec["parts"] == spec["part"]]
    for a, b in mine:
        ratio = env.fac[a] / env.fac[b]
        for rep in range(spec["reps"]):
            v = rand_value(rng)
            e = rand_err(rng, v)
            if e == 0 and rep == 0:
                e = abs(v) * 0.01
            method = METHODS[(rep + rng.randrange(4)) % 4]
            if not (1e-140 < abs(v * ratio) < 1e140):
                rec.count("numeric_range_skipped")
                continue
            rec.count("conv_mult_pairs" if rep == 0 else "conv_mult_extra")
            rec.case(("conv", method, a, b), nontrivial=a != b)
            rec.observe("conv_methods", method)
            ctx = {"src": a, "dst": b, "value": v, "error": e, "method": method}
            fields = {"kind": "multiplicative"}
            try:
                m = M(v, e, a)
                r = do_convert(env, m, b, method)
                plain = Q(v, a).to(b)
            except Exception as ex:  # noqa: BLE001
                rec.violation("conv-raised", dict(ctx, err=repr(ex)), err=type(ex).__name__, **fields)
                continue
            if method != "ito" and (m.value.magnitude != v or m.error.magnitude != e
                                    or m.units != env.ureg.Unit(a)):
                rec.violation("conv-mutated-source", dict(ctx, after=repr(m)), **fields)
            check_converted(env, m, r, plain, v, e, ratio, v * ratio, ctx, fields)
            if e > 0:
                # the converted measurement is the SAME uncertain value in another unit (identical units
                # included): its difference from the source is exactly zero, with no uncertainty left
                rec.count("conv_correlation_checks")
                try:
                    sd = nomsd(r - m)[1]
                except Exception as ex:  # noqa: BLE001
                    rec.violation("conv-raised", dict(ctx, err=repr(ex), step="converted - source"),
                                  err=type(ex).__name__, **fields)
                else:
                    if not (abs(sd) <= 1e-9 * e * abs(ratio)):
                        rec.violation("conv-correlation-lost", dict(ctx, sigma_of_difference=sd,
                                                                    sigma_of_source_in_target_units=e * abs(ratio)),
                                      identical_units=(a == b), **fields)
    rec.sample({"pair": mine[len(mine) // 2], "ratio": env.fac[mine[len(mine) // 2][0]]
                / env.fac[mine[len(mine) // 2][1]]})


# ------------------------------------------------------------------------------------------
# convx: temperature scales, logarithmic units, to_* family
# ------------------------------------------------------------------------------------------
def run_convx(spec, rec):
    env = Env(spec, rec)
    rng, ureg, Q, M, mdl = env.rng, env.ureg, env.Q, env.M, env.model
    # affine maps to kelvin straight from the definition file:  K = scale * x + offset
    aff = {}
    for c in ("kelvin", "degree_Rankine", "degree_Celsius", "degree_Fahrenheit", "degree_Reaumur"):
        u = mdl.units[c]
        aff[c] = (float(u["scale"].v), float(u["mods"]["offset"].v), "offset" if u["mods"]["offset"].v else "absolute")
    for c in OFFSET_UNITS:
        aff["delta_" + c] = (aff[c][0], 0.0, "delta")
    temps = list(aff)
    for rep in range(spec["reps"]):
        for a in temps:
            for b in temps:
                ka, kb = aff[a][2], aff[b][2]
                if (ka == "delta") != (kb == "delta") and "offset" in (ka, kb):
                    continue   # offset <-> delta: not one affine map of the scale (see C03)
                v = rng.choice((rng.uniform(-200, 1000), rand_value(rng) if rep % 3 == 2 else 20.0 * rng.random()))
                e = rand_err(rng, v) or 0.5
                method = METHODS[rng.randrange(4)]
                sa, oa, _ = aff[a]
                sb, ob, _ = aff[b]
                slope = sa / sb
                want = (v * sa + oa - ob) / sb
                floor = (abs(v * sa) + abs(oa) + abs(ob)) / sb
                rec.count("conv_offset_pairs" if rep == 0 else "conv_offset_extra")
                rec.case(("conv", method, a, b), nontrivial=a != b)
                rec.observe("conv_offset_kinds", f"{ka}->{kb}")
                ctx = {"src": a, "dst": b, "value": v, "error": e, "method": method}
                fields = {"kind": f"{ka}->{kb}"}
                try:
                    m = M(v, e, a)
                    r = do_convert(env, m, b, method)
                    plain = Q(v, a).to(b)
                except Exception as ex:  # noqa: BLE001
                    rec.violation("conv-raised", dict(ctx, err=repr(ex)), err=type(ex).__name__, **fields)
                    continue
                mult = oa == 0 and ob == 0
                check_converted(env, m, r, plain, v, e, slope, want, ctx, fields, mult=mult,
                                nomfloor=floor)
                if not mult and v != 0 and e != 0 and want != 0 and rep == 0:
                    # sanity of the statement's "so": for offset conversions rel generally changes
                    rec.observe("rel_changes_under_offset_conversion",
                                not close(e / abs(v), abs(slope) * e / abs(want)))
    # ---- logarithmic units ------------------------------------------------------------------
    logs = [c for c in mdl.order if "logbase" in mdl.units[c]["mods"]]
    for rep in range(max(2, spec["reps"] // 3)):
        for L in logs:
            lin = Q(1.0, L).to_root_units().units
            for direction in ("log->linear", "linear->log"):
                v = rng.uniform(-30, 30) if direction == "log->linear" else 10.0 ** rng.uniform(-3, 3)
                e = abs(v) * 10.0 ** rng.uniform(-4, -1.5) or 0.01
                src, dst = (L, lin) if direction == "log->linear" else (lin, L)
                rec.count("conv_log_attempts")
                rec.case(("convlog", L, direction), nontrivial=True)
                ctx = {"src": repr(src), "dst": repr(dst), "value": v, "error": e}
                fields = {"kind": "logarithmic", "direction": direction}
                try:
                    plain = Q(v, src).to(dst)
                    h = abs(v) * 1e-6
                    deriv = (Q(v + h, src).to(dst).magnitude - Q(v - h, src).to(dst).magnitude) / (2 * h)
                except Exception:  # noqa: BLE001
                    rec.count("skipped_plain_log_conversion_failed")
                    continue
                try:
                    r = M(v, e, src).to(dst)
                except Exception as ex:  # noqa: BLE001
                    rec.violation("conv-raised", dict(ctx, err=repr(ex), plain=repr(plain)),
                                  err=type(ex).__name__, **fields)
                    continue
                rn, rs, _ = nomsd(r)
                if not close(rn, plain.magnitude, 1e-9):
                    rec.violation("conv-nominal-vs-plain", dict(ctx, got=rn, plain=plain.magnitude), **fields)
                if not close(rs, abs(deriv) * e, 1e-4):
                    rec.violation("conv-sigma", dict(ctx, got=rs, want=abs(deriv) * e), **fields)
    # ---- to_root / to_base / to_reduced / to_compact ----------------------------------------
    ucgs = None
    fam = ("to_root_units", "to_base_units", "to_reduced_units", "to_compact", "ito_root_units",
           "ito_base_units", "to_base_units[cgs]")
    units = list(env.names) + ["degree_Celsius", "degree_Fahrenheit"]
    per = 1 if spec["reps"] < 10 else 3
    for c in units:
        for meth in fam:
            for _ in range(per):
                v = rand_value(rng, positive=True) if "compact" in meth else rand_value(rng)
                e = rand_err(rng, v) or abs(v) / 7
                reg = ureg
                if meth.endswith("[cgs]"):
                    if ucgs is None:
                        from harness import pintload
                        ucgs = pintload.registry(system="cgs")
                    reg = ucgs
                name = meth.split("[")[0]
                rec.count("conv_family_calls")
                rec.observe("conv_family", meth)
                ctx = {"unit": c, "value": v, "error": e, "method": meth}
                isoff = c.startswith("degree_")
                fields = {"kind": "offset" if isoff else "multiplicative", "family": name.replace("ito", "to")}
                try:
                    pq = reg.Quantity(v, c)
                    m = reg.Measurement(v, e, c)
                    if name.startswith("ito"):
                        getattr(pq, name)()
                        getattr(m, name)()
                        plain, r = pq, m
                    else:
                        plain, r = getattr(pq, name)(), getattr(m, name)()
                except Exception as ex:  # noqa: BLE001
                    try:
                        getattr(reg.Quantity(v, c), name)()
                    except Exception:  # noqa: BLE001
                        rec.count("skipped_plain_also_raises")
                        continue
                    rec.violation("conv-raised", dict(ctx, err=repr(ex)), err=type(ex).__name__, **fields)
                    continue
                slope = None
                if "root" in name and not isoff:
                    slope = env.fac[c]
                elif isoff and plain.units == reg.Unit("kelvin"):
                    slope = aff[c][0]
                elif isoff and plain.units == reg.Unit(c):
                    slope = 1.0
                rec.case(("family", meth, c), nontrivial=plain.units != reg.Unit(c))
                check_converted(env, m, r, plain, v, e, slope, None, ctx, fields, mult=not isoff,
                                nomfloor=300.0 if isoff else 0.0)


# ------------------------------------------------------------------------------------------
# arithmetic
# ------------------------------------------------------------------------------------------
import operator as _op

OPS = {"+": _op.add, "-": _op.sub, "*": _op.mul, "/": _op.truediv, "**": _op.pow}
IOPS = {"+": _op.iadd, "-": _op.isub, "*": _op.imul, "/": _op.itruediv, "**": _op.ipow}


class Leaf:
    """One operand in all its readings: real object, plain twin, model (D + units dict)."""

    def __init__(self, env, kind, v, s, units: dict, key):
        from harness.c19_text import D
        self.kind, self.v, self.s, self.units, self.key = kind, v, s, dict(units), key
        uc = env.ureg.UnitsContainer({k: (int(x) if x == int(x) else float(x)) for k, x in units.items()})
        if kind == "M":
            self.obj = env.M(v, s, uc)
        elif kind == "U":
            self.obj = env.Q(env.ufloat(v, s), uc)
        elif kind == "Q":
            self.obj = env.Q(v, uc)
        elif kind == "N":
            self.obj = v
        elif kind == "u":
            self.obj = env.ufloat(v, s)
        self.plain = env.Q(v, uc) if kind in "MUQ" else v
        self.d = D.leaf(v, key) if kind in ("M", "U", "u") else D(v)
        self.isq = kind in "MUQ"

    def desc(self):
        return {"kind": self.kind, "v": self.v, "s": self.s, "units": {k: str(x) for k, x in self.units.items()}}


def umul(a: dict, b: dict, e=1):
    out = dict(a)
    for k, x in b.items():
        out[k] = out.get(k, 0) + x * e
        if out[k] == 0:
            del out[k]
    return out


class ModelError(Exception):
    pass


def model_binop(env, op, a, au, aq, b, bu, bq):
    """(D, units dict, isquantity) of `a op b` by multiplicative-unit rules; ModelError when the
    rules give no value (dimension mismatch...)."""
    mdl = env.model
    if op in "+-":
        da, db = mdl.dimvec(au), mdl.dimvec(bu)
        if da != db:
            raise ModelError("dim")
        if aq and bq:
            if au == bu:
                return a.add(b, 1.0 if op == "+" else -1.0), au, True
            return a.add(b, 1.0 if op == "+" else -1.0, env.ratio(bu, au)), au, True
        # a bare number is involved: both sides go to dimensionless root units
        ra = env.ratio(au, {}) if au else 1.0
        rb = env.ratio(bu, {}) if bu else 1.0
        return a.scale(ra).add(b, 1.0 if op == "+" else -1.0, rb), {}, aq or bq
    if op == "*":
        return a.mul(b), umul(au, bu), aq or bq
    if op == "/":
        return a.div(b), umul(au, bu, -1), aq or bq
    if op == "**":
        if mdl.dimvec(bu):
            raise ModelError("exponent has dimension")
        bb = b.scale(env.ratio(bu, {})) if bu else b
        if a.v < 0 and bb.v != int(bb.v):
            raise ModelError("complex")
        if a.v == 0 and bb.v <= 0:
            raise ModelError("zero base")
        if bb.g and a.v <= 0:
            raise ModelError("log of non-positive base")
        if bq and not aq:
            # number ** dimensionless quantity
            return a.pow(bb), {}, False
        p = F(bb.v).limit_denominator(1000)
        return a.pow(bb), {k: x * p for k, x in au.items() if x * p != 0}, aq
    raise ModelError(op)


def compare_result(env, got, plain, d, sig, mechfields, ctx, tag):
    """got: real result; plain: plain-quantity result; d: model D.  Returns True if sigma was
    decided."""
    rec = env.rec
    gn, gs, gu = nomsd(got)
    pn, _, pu = nomsd(plain)
    if isinstance(gn, complex) or isinstance(pn, complex):
        rec.count("skipped_complex")
        return False
    if not all(map(math.isfinite, (float(gn), float(pn), d.v))):
        rec.count("numeric_range_skipped")
        return False
    gu_c = gu if gu is not None else env.ureg.UnitsContainer({})
    pu_c = pu if pu is not None else env.ureg.UnitsContainer({})
    ok_units = True
    try:
        same = gu_c == pu_c
    except Exception:  # noqa: BLE001
        same = False
    if not same:
        ok_units = False
        rec.violation(tag + "-units-differ-from-plain",
                      dict(ctx, got=repr(got), plain=repr(plain)), **mechfields)
    if not close(gn, pn, TOL, d.vg):
        rec.violation(tag + "-nominal-differs-from-plain",
                      dict(ctx, got=repr(got), plain=repr(plain)), **mechfields)
    if not close(d.v, pn, 1e-7, d.vg):
        rec.count("skipped_model_nominal_disagrees_with_plain")
        return False
    if not ok_units:
        return False
    want = d.sigma(sig)
    floor = d.floor(sig)
    if not math.isfinite(want) or want > 1e140 or (0 < floor < 1e-140):
        rec.count("numeric_range_skipped")
        return False
    if not close(gs, want, TOL, floor):
        rec.violation(tag + "-sigma", dict(ctx, got=repr(got), got_sigma=gs, want_sigma=want),
                      **mechfields)
    return True


def pick_units(env, rng, op, lk, rk):
    """-> (left units dict, right units dict, relation tag)"""
    big = [v for v in env.classes.values() if len(v) >= 2]
    if op in "+-":
        if lk in "Nu" or rk in "Nu":
            # a number can only be added to a dimensionless quantity
            r = rng.random()
            if r < 0.6:
                u = {}
                tag = "dimensionless-empty"
            elif r < 0.85:
                a, b = rng.sample(rng.choice(big), 2)
                u = {a: 1, b: -1}
                tag = "dimensionless-ratio"
            else:
                u = {rng.choice(env.names): 1}
                tag = "number-vs-dimensional"
            return ({} if lk in "Nu" else u), ({} if rk in "Nu" else u), tag
        r = rng.random()
        if r < 0.2:
            a = rng.choice(env.names)
            return {a: 1}, {a: 1}, "same-unit"
        if r < 0.88:
            a, b = rng.sample(rng.choice(big), 2)
            return {a: 1}, {b: 1}, "compatible"
        a, b = rng.sample(env.names, 2)
        return {a: 1}, {b: 1}, "random-pair"
    if op == "**":
        if rk in "Nu":
            ru = {}
        else:
            ru = {} if rng.random() < 0.8 else dict(zip(rng.sample(rng.choice(big), 2), (1, -1)))
            if ru and any(env.fac[k] < 0 for k in ru):
                ru = {}     # negative-scale units (electron_g_factor) as exponent units: not the topic
        if lk in "Nu":
            return {}, ru, "number-base"
        r = rng.random()
        if r < 0.3:
            return {}, ru, "dimensionless-base"
        return {rng.choice(env.names): 1}, ru, "dimensional-base"
    lu = {} if lk in "Nu" else ({rng.choice(env.names): rng.choice((1, 1, 1, 2, -1))}
                                if rng.random() < 0.9 else {})
    ru = {} if rk in "Nu" else ({rng.choice(env.names): rng.choice((1, 1, 1, 2, -1))}
                                if rng.random() < 0.9 else {})
    return lu, ru, "any"


KIND_PAIRS = [(a, b) for a in "MUQNu" for b in "MUQNu" if a in "MUu" or b in "MUu"]


def run_binary(spec, rec):
    env = Env(spec, rec)
    rng = env.rng
    for i in range(spec["n"]):
        op = rng.choice(("+", "-", "*", "/", "**"))
        lk, rk = KIND_PAIRS[rng.randrange(len(KIND_PAIRS))]
        if lk == "u" and rk in "Nu":
            continue        # no pint object involved
        if rk == "u" and lk in "Nu":
            continue
        inplace = rng.random() < 0.2 and lk in "MUQ"
        lu, ru, rel = pick_units(env, rng, op, lk, rk)
        if op == "**":
            lv = mod_value(rng, positive=rng.random() < 0.8)
            rv = rng.choice((2, 3, -1, -2, 0.5, 1.5, -0.5, 1, 0, 2.0, 3.0))
            if rk in "MUu" or rng.random() < 0.3:
                rv = float(rv)
            if ru:
                rv = float(rv) / env.ratio(ru, {})    # so that the dimensionless value is small
                lv = abs(lv)                          # (its float value may miss the integer)
            ls, rs = abs(lv) * 10 ** rng.uniform(-4, -0.5), abs(rv) * 10 ** rng.uniform(-4, -1) or 0.01
        else:
            lv, rv = mod_value(rng), mod_value(rng)
            ls, rs = rand_err(rng, lv) if rng.random() < 0.2 else abs(lv) * 10 ** rng.uniform(-5, 0), \
                abs(rv) * 10 ** rng.uniform(-5, 0)
            if rng.random() < 0.03 and op in "+-*" and lk not in "Nu":
                # (a bare number 0 may be added to anything in pint; 0+/-s is not that number)
                lv = 0.0
            if op in "+-" and "u" in (lk, rk) and rng.random() < 0.25:
                # a BARE uncertain number whose nominal value is exactly zero: 0 +/- s is not the number 0 that
                # may be added to anything, the unit rules apply to it
                if lk == "u":
                    lv, ls = 0.0, 10 ** rng.uniform(-3, 0)
                else:
                    rv, rs = 0.0, 10 ** rng.uniform(-3, 0)
            if lk in "NQ" and rng.random() < 0.3:
                lv = float(int(lv)) or 1.0
            if rk in "NQ" and rng.random() < 0.3:
                rv = float(int(rv)) or 2.0
        try:
            A = Leaf(env, lk, lv, ls, lu, "a")
            B = Leaf(env, rk, rv, rs, ru, "b")
        except Exception as ex:  # noqa: BLE001
            rec.count("skipped_operand_construction_failed")
            rec.observe("operand_construction_errors", type(ex).__name__)
            continue
        fields = {"op": op + ("=" if inplace else ""), "left": lk, "right": rk, "units": rel}
        ctx = {"op": fields["op"], "left": A.desc(), "right": B.desc(), "class": dict(fields)}
        if op == "**" and rk in "MUu" and rel == "dimensional-base":
            # unit ** (uncertain exponent): one mechanism whatever the operand classes
            fields = {"op": "**", "exponent": "uncertain", "base": "dimensional"}
        fn = IOPS[op] if inplace else OPS[op]
        try:
            plain = OPS[op](A.plain, B.plain)
            pout = "ok"
        except Exception as ex:  # noqa: BLE001
            plain, pout = None, errfamily(ex)
        try:
            left = A.obj
            if inplace:
                import copy
                left = copy.copy(A.obj)
            got = fn(left, B.obj)
            gout = "ok"
        except Exception as ex:  # noqa: BLE001
            got, gout = None, errfamily(ex)
            gerr = repr(ex)
        rec.count("arith_binary")
        rec.observe("arith_kinds", f"{op}:{lk}:{rk}")
        rec.observe("arith_outcomes", f"{op}:{rel}:{pout}")
        if rel == "number-vs-dimensional" and pout == "ok":
            rec.sample({"number-vs-dimensional-ok": ctx})
        rec.case(("bin", fields["op"], lk, rk, rel, pout), nontrivial=pout == "ok")
        if pout in ("OverflowError", "ZeroDivisionError") or gout in ("OverflowError",):
            rec.count("numeric_range_skipped")
            continue
        if op in "+-" and any(L.kind == "u" and L.v == 0.0 and L.s > 0 for L in (A, B)):
            rec.count("bare_uncertain_zero_operands")
            other = B if A.kind == "u" else A
            if env.model.dimvec(other.units):
                # the plain twin (quantity + 0.0) is allowed; 0 +/- s next to a dimensional operand is not
                if gout == "ok":
                    rec.violation("arith-uncertain-zero-accepted-as-bare-zero",
                                  dict(ctx, got=repr(got)), got_outcome=gout, **fields)
                continue
            # dimensionless other operand: the plain twin (quantity + 0.0) takes the bare-zero shortcut and keeps
            # the scaled unit, the uncertain zero goes through dimensionless root units: not comparable
            rec.count("bare_uncertain_zero_next_to_dimensionless_not_judged")
            continue
        if pout == "ok" and isinstance(nomsd(plain)[0], complex):
            rec.count("skipped_complex")
            continue
        if pout != gout:
            if pout == "ok" and gout in ("ValueError", "ZeroDivisionError") and op == "**":
                # uncertainties cannot differentiate there (e.g. 0 ** p, negative ** uncertain)
                try:
                    model_binop(env, op, A.d, A.units, A.isq, B.d, B.units, B.isq)
                except ModelError:
                    rec.count("skipped_not_differentiable")
                    continue
                except Exception:  # noqa: BLE001
                    pass
            rec.violation("arith-outcome-differs-from-plain",
                          dict(ctx, plain=pout if plain is None else repr(plain),
                               got=gerr if got is None else repr(got)),
                          plain_outcome=pout, got_outcome=gout, **fields)
            continue
        if pout != "ok":
            rec.count("arith_both_raise")
            continue
        try:
            d, mu, mq = model_binop(env, op, A.d, A.units, A.isq, B.d, B.units, B.isq)
        except ModelError:
            rec.count("skipped_model_has_no_value")
            continue
        except (OverflowError, ZeroDivisionError, ValueError):
            rec.count("numeric_range_skipped")
            continue
        sig = {"a": A.s, "b": B.s}
        if compare_result(env, got, plain, d, sig, fields, ctx, "arith"):
            rec.count("arith_sigma_checked")
            rec.observe("arith_sigma_kinds", f"{op}:{lk}:{rk}")
        if i % 400 == 0:
            rec.sample({"binary": ctx, "got": repr(got)})
    if rec.counters.get("skipped_model_nominal_disagrees_with_plain", 0) > 0.01 * spec["n"]:
        rec.inconc("the written propagation model disagrees with the plain-quantity nominal values in "
                   ">1% of the binary cases: the unit rules of plain arithmetic changed under the oracle")
    # ---- same operand on both sides: full correlation ------------------------------------------
    from harness.c19_text import D
    for i in range(max(50, spec["n"] // 20)):
        op = rng.choice(("+", "-", "*", "/"))
        kind = rng.choice("MU")
        v = mod_value(rng)
        s = abs(v) * 10 ** rng.uniform(-4, 0)
        X = Leaf(env, kind, v, s, {rng.choice(env.names): 1}, "a")
        got, plain = OPS[op](X.obj, X.obj), OPS[op](X.plain, X.plain)
        d = {"+": X.d.add(X.d), "-": X.d.add(X.d, -1.0), "*": X.d.mul(X.d), "/": X.d.div(X.d)}[op]
        rec.count("arith_self")
        rec.case(("self", op, kind), nontrivial=True)
        compare_result(env, got, plain, d, {"a": s}, {"op": op, "left": kind, "right": "same-object",
                                                      "units": "same-unit"},
                       {"op": op, "operand": X.desc()}, "arith")
    # ---- unary -----------------------------------------------------------------------------
    for i in range(max(50, spec["n"] // 20)):
        kind = rng.choice("MU")
        v = mod_value(rng)
        s = abs(v) * 10 ** rng.uniform(-4, 0)
        X = Leaf(env, kind, v, s, {rng.choice(env.names): 1}, "a")
        for name, f, dd in (("neg", _op.neg, X.d.neg()), ("pos", _op.pos, X.d), ("abs", abs, X.d.abs_())):
            rec.count("arith_unary")
            rec.case(("unary", name, kind), nontrivial=True)
            compare_result(env, f(X.obj), f(X.plain), dd, {"a": s},
                           {"op": name, "left": kind, "right": "-", "units": "-"},
                           {"op": name, "operand": X.desc()}, "arith")


# ---- trees ---------------------------------------------------------------------------------
POOL = {
    "length": ["meter", "centimeter", "kilometer", "inch", "foot", "mile"],
    "time": ["second", "millisecond", "minute", "hour"],
    "mass": ["kilogram", "gram", "pound"],
}


class Tree:
    def __init__(self, env, rng, nleaves):
        self.env, self.rng = env, rng
        self.leaves = []
        for i in range(nleaves):
            kind = rng.choice("MMMUUQ")
            cls = rng.choice(list(POOL) + ["none"])
            units = {} if cls == "none" else {rng.choice(POOL[cls]): 1}
            v = mod_value(rng)
            s = abs(v) * 10 ** rng.uniform(-4, -0.3)
            self.leaves.append(Leaf(env, kind, v, s, units, f"x{i}"))
        self.consts = []

    def reexpress(self, units: dict):
        out = {}
        for k, x in units.items():
            alt = k
            for names in POOL.values():
                if k in names and self.rng.random() < 0.7:
                    alt = self.rng.choice(names)
            out[alt] = out.get(alt, 0) + x
        return {k: x for k, x in out.items() if x}

    def gen(self, depth):
        """-> node; node = (tag, ...) ; evaluation in eval()"""
        rng = self.rng
        if depth == 0 or rng.random() < 0.2:
            if rng.random() < 0.12:
                return ("num", rng.choice((2, 3, 0.5, -1.5, 10, 7.25)))
            return ("leaf", rng.randrange(len(self.leaves)))
        r = rng.random()
        if r < 0.08:
            return (rng.choice(("neg", "abs")), self.gen(depth - 1))
        if r < 0.2:
            return ("**", self.gen(depth - 1), ("num", rng.choice((2, 3, -1, -2, 2.0, 1, 0.5))))
        op = rng.choice(("+", "-", "+", "-", "*", "/"))
        return (op, self.gen(depth - 1), self.gen(depth - 1))

    def render(self, node):
        t = node[0]
        if t == "leaf":
            L = self.leaves[node[1]]
            return f"{L.kind}{node[1]}"
        if t == "num":
            return repr(node[1])
        if t == "const":
            return f"c{node[1]}"
        if t in ("neg", "abs"):
            return f"{t}({self.render(node[1])})"
        return f"({self.render(node[1])} {t} {self.render(node[2])})"

    def eval(self, node):
        """-> (real, plain, D, units dict, isq); raises ModelError / arithmetic errors."""
        from harness.c19_text import D
        env = self.env
        t = node[0]
        if t == "leaf":
            L = self.leaves[node[1]]
            return L.obj, L.plain, L.d, L.units, L.isq
        if t == "num":
            return node[1], node[1], D(float(node[1])), {}, False
        if t == "const":
            L = self.consts[node[1]]
            return L.obj, L.plain, L.d, L.units, True
        if t in ("neg", "abs"):
            r, p, d, u, q = self.eval(node[1])
            if t == "neg":
                return -r, -p, d.neg(), u, q
            return abs(r), abs(p), d.abs_(), u, q
        ra, pa, da, ua, qa = self.eval(node[1])
        rb, pb, db, ub, qb = self.eval(node[2])
        if t in "+-":
            # make the right operand commensurable by a constant plain quantity whose units are
            # written with other spellings of the same dimensions (so that pint must convert)
            fix = umul(ua, ub, -1)
            if fix or (qa != qb):
                fixu = self.reexpress(fix)
                c = Leaf(env, "Q", self.rng.choice((1.0, 2.0, 0.5, 3.25)), 0.0, fixu, "c")
                self.consts.append(c)
                rb, pb = rb * c.obj, pb * c.plain
                db, ub, qb = db.mul(c.d), umul(ub, fixu), True
                if not qa:
                    # number + quantity-with-empty-units: fine, both dimensionless
                    pass
        d, mu, mq = model_binop(env, t, da, ua, qa, db, ub, qb)
        return OPS[t](ra, rb), OPS[t](pa, pb), d, mu, mq


def run_tree(spec, rec):
    env = Env(spec, rec)
    rng = env.rng
    for i in range(spec["n"]):
        T = Tree(env, rng, rng.randint(2, 5))
        node = T.gen(rng.randint(1, 4))
        txt = T.render(node)
        if "M" not in txt and "U" not in txt:
            continue
        try:
            real, plain, d, mu, mq = T.eval(node)
        except ModelError:
            rec.count("skipped_model_has_no_value")
            continue
        except (ZeroDivisionError, OverflowError, ValueError):
            rec.count("numeric_range_skipped")
            continue
        except Exception as ex:  # noqa: BLE001
            # decide who raised: the plain computation alone
            rec.count("tree_raised")
            rec.observe("tree_raise_kinds", type(ex).__name__)
            rec.violation("arith-tree-raised", {"tree": txt, "err": repr(ex),
                                                "leaves": [L.desc() for L in T.leaves]},
                          err=type(ex).__name__)
            continue
        sig = {L.key: L.s for L in T.leaves}
        sig["c"] = 0.0
        ctx = {"tree": txt, "leaves": [L.desc() for L in T.leaves],
               "consts": [c.desc() for c in T.consts]}
        shared = len({x for x in txt.replace("(", " ").replace(")", " ").split() if x[0] in "MU"}) < \
            sum(1 for x in txt.replace("(", " ").replace(")", " ").split() if x[0] in "MU")
        rec.case(("tree", txt, tuple(sorted(L.units) and sorted(L.units)[0] for L in T.leaves)),
                 nontrivial=True)
        rec.count("arith_trees")
        if shared:
            rec.count("arith_trees_with_shared_leaf")
        if compare_result(env, real, plain, d, sig, {"op": "tree"}, ctx, "arith-tree"):
            rec.count("arith_trees_checked")
        rec.maximum("tree_size_max", txt.count("(") + 1)
        if i % 300 == 0:
            rec.sample({"tree": txt, "got": repr(real)})


# ---- offset rule table --------------------------------------------------------------------------
def run_offarith(spec, rec):
    reps = spec["reps"]
    for cfg in ({}, {"autoconvert_offset_to_baseunit": True}):
        env = Env(spec, rec, **cfg)
        rng, Q, M, ufloat = env.rng, env.Q, env.M, env.ufloat
        cfgname = "autoconvert" if cfg else "default"
        units = ["degree_Celsius", "degree_Fahrenheit", "delta_degree_Celsius", "delta_degree_Fahrenheit",
                 "kelvin", "degree_Rankine"]
        others = units + ["<number>", "meter"]
        for _ in range(reps):
            for op in ("+", "-", "*", "/", "**"):
                for a in units:
                    for b in others:
                        for kinds in (("M", "M"), ("U", "U"), ("M", "Q"), ("Q", "M"), ("U", "Q")):
                            if op == "**" and b != "<number>":
                                continue
                            va, vb = rng.uniform(5, 90), rng.uniform(1, 40)
                            if b == "<number>":
                                vb = float(rng.choice((2, 3, 0.5))) if op == "**" else vb
                            sa, sb = va * 10 ** rng.uniform(-3, -1), vb * 10 ** rng.uniform(-3, -1)

                            def build(kind, v, s, u, plain=False):
                                if u == "<number>":
                                    return v
                                if plain or kind == "Q":
                                    return Q(v, u)
                                return M(v, s, u) if kind == "M" else Q(ufloat(v, s), u)

                            def f(x, y):
                                return OPS[op](build("Q", x, 0, a, True), build("Q", y, 0, b, True))

                            rk_ = kinds[1] if b != "<number>" else "N"
                            detail = {"op": op, "left": kinds[0], "right": rk_,
                                      "units": f"{ukind(a)}:{ukind(b)}", "config": cfgname}
                            # what identifies the mechanism: is a Measurement object (which lacks the
                            # non-multiplicative facet) among the operands, and which rule family
                            fields = {"operands": "with-Measurement" if "M" in (kinds[0], rk_) else
                                      "Quantity-with-ufloat-only",
                                      "rule": "add/sub" if op in "+-" else "mul/div/pow",
                                      "units": "offset-or-delta-involved"
                                      if {"offset", "delta"} & {ukind(a), ukind(b)} else "absolute-only"}
                            ctx = {"op": op, "a": [va, sa, a], "b": [vb, sb, b], "kinds": kinds,
                                   "class": detail}
                            try:
                                plain = f(va, vb)
                                pout = "ok"
                            except Exception as ex:  # noqa: BLE001
                                plain, pout = None, errfamily(ex)
                            try:
                                got = OPS[op](build(kinds[0], va, sa, a), build(kinds[1], vb, sb, b))
                                gout = "ok"
                            except Exception as ex:  # noqa: BLE001
                                got, gout = repr(ex), errfamily(ex)
                            rec.count("arith_offset_cases")
                            rec.observe("arith_offset_outcomes", f"{op}:{detail['units']}:{pout}")
                            rec.case(("off", cfgname, op, a, b, kinds, pout), nontrivial=True)
                            if pout != gout:
                                rec.violation("arith-outcome-differs-from-plain",
                                              dict(ctx, plain=pout if plain is None else repr(plain),
                                                   got=got if gout != "ok" else repr(got)),
                                              how="raises-where-plain-computes" if pout == "ok" else
                                              ("computes-where-plain-raises" if gout == "ok" else "other-error"),
                                              **fields)
                                continue
                            if pout != "ok":
                                continue
                            gn, gs, gu = nomsd(got)
                            pn, _, pu = nomsd(plain)
                            if gu != pu:
                                rec.violation("arith-units-differ-from-plain",
                                              dict(ctx, plain=repr(plain), got=repr(got)), **fields)
                                continue
                            if not close(gn, pn, TOL, 600.0):
                                rec.violation("arith-nominal-differs-from-plain",
                                              dict(ctx, plain=repr(plain), got=repr(got)), **fields)
                                continue
                            # sigma: central differences of the plain computation
                            try:
                                ha, hb = va * 1e-5, vb * 1e-5
                                dfa = (nomsd(f(va + ha, vb))[0] - nomsd(f(va - ha, vb))[0]) / (2 * ha)
                                dfb = (nomsd(f(va, vb + hb))[0] - nomsd(f(va, vb - hb))[0]) / (2 * hb)
                            except Exception:  # noqa: BLE001
                                rec.count("skipped_no_numeric_derivative")
                                continue
                            ea = sa if kinds[0] in "MU" else 0.0
                            eb = sb if (kinds[1] in "MU" and b != "<number>") else 0.0
                            want = math.hypot(dfa * ea, dfb * eb)
                            if not close(gs, want, 1e-5):
                                rec.violation("arith-sigma", dict(ctx, got=repr(got), want_sigma=want),
                                              **fields)
                            else:
                                rec.count("arith_offset_sigma_ok")


def ukind(u):
    if u == "<number>":
        return "number"
    if u.startswith("delta_"):
        return "delta"
    if u in ("kelvin", "degree_Rankine"):
        return "absolute"
    if u.startswith("degree_"):
        return "offset"
    return "other"


# ------------------------------------------------------------------------------------------
# parse
# ------------------------------------------------------------------------------------------
def check_parsed(env, text, want_n, want_s, want_units, fields, entry="parse_expression", source="generated"):
    """Parse `text` with the real parser and compare with the meaning (floats).  Returns the
    parsed object or None."""
    rec, ureg = env.rec, env.ureg
    wit = {"text": text, "want": [want_n, want_s, repr(want_units)], "entry": entry,
           "class": dict(fields), "source": source}
    fam = "shorthand" if fields["form"].startswith("shorthand") else fields["form"]
    position = "end-of-input" if fields["unitpos"] == "none" and fields["exp"] in ("none", "in-literal") \
        else ("exponent-at-end" if fields["unitpos"] == "none" else "followed")
    expc = fields["exp"] if fields["exp"] in ("none", "in-literal") else "suffix"
    f_raise = {"form": fam, "position": position}
    f_value = {"form": fields["form"].replace("-wrapped", ""), "digits": fields["digits"], "exp": expc}
    f_units = {"form": fam, "unitpos": fields["unitpos"], "exp": expc}
    pfx = ""
    if fields["sign"] == "plus" and fam == "paren-pm" and expc == "suffix":
        # one cause, several symptoms: "(+N +/- S)eK" is not recognised as a notation, so the
        # suffix eK is read as a unit name (elementary_charge, 'e1' undefined, ...)
        pfx = "plus-sign-in-parentheses:"
        f_raise = f_value = f_units = {"form": fam, "exp": expc}
    try:
        if entry == "parse_expression":
            r = ureg.parse_expression(text)
        elif entry == "registry-call":
            r = ureg(text)
        else:
            r = env.Q(text)
    except Exception as ex:  # noqa: BLE001
        if pfx:
            rec.violation(pfx + "parse-raised", dict(wit, err=repr(ex)), **f_raise)
        else:
            rec.violation("parse-raised", dict(wit, err=repr(ex)), err=type(ex).__name__, **f_raise)
        return None
    gn, gs, gu = nomsd(r)
    if gu is None:
        gu = ureg.UnitsContainer({})
    try:
        ok = close(float(gn), want_n, 1e-12) and True
    except Exception:  # noqa: BLE001
        ok = False
    if not ok:
        rec.violation(pfx + "parse-nominal", dict(wit, got=repr(r)), **f_value)
    elif not close(float(gs), want_s, 1e-12):
        rec.violation(pfx + "parse-sigma", dict(wit, got=repr(r), got_sigma=gs), **f_value)
    if gu != want_units:
        try:
            same_value = close(ureg.convert(1.0, gu, want_units), 1.0, 1e-12)
        except Exception:  # noqa: BLE001
            same_value = False
        if same_value:
            rec.count("parse_units_other_name_same_value")      # e.g. fm: fermi / femtometer (D5, C09)
        else:
            rec.violation(pfx + "parse-units", dict(wit, got=repr(r)), **f_units)
    return r


def run_parse(spec, rec):
    from harness.c19_text import gen_note, D, EXP_FORMS
    env = Env(spec, rec)
    rng, ureg = env.rng, env.ureg
    entries = ("parse_expression", "parse_expression", "registry-call", "Quantity(str)")

    # systematic sweep of the class space first, random afterwards
    sweep = []
    for form in ("paren-pm", "bare-pm", "shorthand", "shorthand-literal"):
        for exp in EXP_FORMS + ("in-literal",):
            for sign in ("none", "minus", "minus-outside", "plus"):
                for unitpos in ("spaced", "attached", "star", "none"):
                    sweep.append((form, exp, sign, unitpos))
    rng.shuffle(sweep)
    n = spec["n"]
    for i in range(n):
        if i < len(sweep) * 2:
            form, exp, sign, unitpos = sweep[i % len(sweep)]
            note = gen_note(rng, form, exp, sign, unitpos)
        else:
            note = gen_note(rng)
        text = note.text
        # the unit spelling that follows the notation is read by pint's own unit parser
        utxt = note.utext
        want_units = ureg.parse_units(utxt)._units if utxt else ureg.UnitsContainer({})
        entry = entries[i % len(entries)]
        if entry == "Quantity(str)" and not utxt:
            entry = "parse_expression"
        f = note.fields
        rec.count("parse_cases")
        rec.observe("parse_classes", f"{f['form']}|{f['exp']}|{f['sign']}|{f['unitpos']}")
        rec.observe("parse_entries", entry)
        rec.case(("parse", text), nontrivial=True)
        check_parsed(env, text, float(note.n), float(note.s), want_units, f, entry)
        if i % 300 == 0:
            rec.sample({"text": text, "meaning": [float(note.n), float(note.s), utxt]})
        # ---- embedded in arithmetic --------------------------------------------------------
        sign_ok = f["sign"] == "none" or (f["sign"] == "minus" and f["form"] == "paren-pm")
        if i % 3 or not sign_ok or f["unitpos"] not in ("spaced", "none") or note.n == 0:
            continue
        if f["digits"] in ("fewer-decimals", "more-decimals"):
            # the stand-alone reading of this class is decided above; embedding is decided on
            # notations whose stand-alone reading is not in question
            rec.count("skipped_embedding_of_shorthand_with_other_digit_count")
            continue
        ctxs = ["2 * X", "X * 2", "X / 4", "X + Y", "X - Y", "1 / X", "X * Y", "-X", "Y + X", "3 s * X"]
        if f["form"] != "bare-pm":
            ctxs += ["X ** 2", "X**2", "X^2", "X ** 2", "X ** 0.5" if note.n > 0 else "X ** 3"]
        c = ctxs[(i // 3) % len(ctxs)]
        if c == "-X" and f["sign"] != "none":
            c = "2 * X"
        other = gen_note(rng, form=rng.choice(("paren-pm", "shorthand-literal")), sign="none",
                         unitpos="spaced")
        X = (note.body + " " + utxt).strip()
        Y = (other.body + " " + utxt).strip() if utxt else other.body + " * 1"
        if "X **" in c or "X^" in c or "X**" in c:
            # the power applies to the number; the unit follows
            expr = c.replace("X", note.body) + ((" " + utxt) if utxt else "")
        else:
            expr = c.replace("X", X).replace("Y", Y)
        x = D.leaf(float(note.n), "x")
        y = D.leaf(float(other.n), "y")
        sig = {"x": float(note.s), "y": float(other.s)}
        U = ureg.Unit(want_units)
        one = ureg.Unit("")
        try:
            if c in ("2 * X", "X * 2"):
                d, wu = x.scale(2.0), U
            elif c == "X / 4":
                d, wu = x.scale(0.25), U
            elif c in ("X ** 2", "X**2", "X^2"):
                d, wu = x.mul(x), U
            elif c == "X ** 3":
                d, wu = x.mul(x).mul(x), U
            elif c == "X ** 0.5":
                d, wu = x.pow(D(0.5)), U
            elif c in ("X + Y", "Y + X"):
                d, wu = x.add(y), U
            elif c == "X - Y":
                d, wu = x.add(y, -1.0), U
            elif c == "1 / X":
                # "1 / (..) m" reads as (1/(..)) * m in pint's grammar ("1 / 2 m" is 0.5 m)
                d, wu = D(1.0).div(x), U
            elif c == "X * Y":
                d, wu = x.mul(y), U * U
            elif c == "3 s * X":
                d, wu = x.scale(3.0), ureg.Unit("s") * U
            else:
                d, wu = x.neg(), U
        except (ZeroDivisionError, OverflowError):
            continue
        ef = {"context": "X ** k" if ("**" in c or "^" in c) else "other",
              "notation_ends_input": "yes" if expr.rstrip().endswith(")") else "no"}
        wit_cls = {"form": f["form"], "exp": f["exp"], "context": c}
        rec.count("parse_embedded")
        rec.observe("parse_contexts", c)
        rec.case(("parse-embedded", expr), nontrivial=True)
        wit = {"text": expr, "class": wit_cls}
        try:
            r = ureg.parse_expression(expr)
        except Exception as ex:  # noqa: BLE001
            rec.violation("parse-embedded-raised", dict(wit, err=repr(ex)), err=type(ex).__name__, **ef)
            continue
        gn, gs, gu = nomsd(r)
        gu = gu if gu is not None else ureg.UnitsContainer({})
        try:
            bad = not close(float(gn), d.v, 1e-9, d.vg) or not close(float(gs), d.sigma(sig), 1e-9, d.floor(sig))
        except Exception:  # noqa: BLE001
            bad = True
        if bad:
            rec.violation("parse-embedded-value", dict(wit, got=repr(r), want=[d.v, d.sigma(sig)]), **ef)
        elif gu != wu._units:
            rec.violation("parse-embedded-units", dict(wit, got=repr(r), want_units=repr(wu)), **ef)


# ------------------------------------------------------------------------------------------
# format
# ------------------------------------------------------------------------------------------
MAGSPECS = ("", ".1f", ".2f", ".3f", "e", ".2e", ".1u", ".2u", ".3u", "S", "uS", ".1uS", ".3uS", ".1ue",
            ".2ueS", "%", ".1u%", "E", ".2E", "g", ".3g", "r", ".2uE")
FLAGS = ("", "D", "P", "L", "H", "C", "Lx")
MODS = ("", "~", "#", "~#")


def family_of(flag):
    return {"": "D", "D": "D", "C": "C", "P": "P", "L": "L", "H": "H", "Lx": "Lx"}[flag]


def magkind(ms):
    if "S" in ms:
        return "shorthand"
    if "%" in ms:
        return "percent"
    if "e" in ms or "E" in ms:
        return "exponent"
    return "plain"


def run_format(spec, rec):
    from harness.c19_text import normalise_rendered, read_number_part
    env = Env(spec, rec)
    rng, ureg, Q, M = env.rng, env.ureg, env.Q, env.M
    unit_pool = ["meter", "second ** 2", "meter / second", "kilogram * meter / second ** 2", "",
                 "1 / mole", "degree_Celsius", "volt", "kilometer ** 3", "radian", "percent"]
    for i in range(spec["n"]):
        unit = unit_pool[i % len(unit_pool)] if i < 2 * len(unit_pool) else rng.choice(unit_pool)
        v = rand_value(rng) if rng.random() < 0.6 else mod_value(rng)
        extreme = i % 8 == 5
        if extreme:
            # three-digit decimal exponents (e+100 ... e+135, e-100 ... e-135) in the rendering; only
            # with scientific / general / default magnitude specs and without '#', so that neither
            # to_compact nor fixed-point digits strings nor `uncertainties` leave the float range
            v = rng.uniform(1, 10) * 10.0 ** (rng.choice((-1, 1)) * rng.randint(100, 135)) * rng.choice((1, 1, -1))
            rec.count("format_three_digit_exponent_values")
        r = rng.random()
        e = 0.0 if r < 0.05 else (abs(v) * 10 ** rng.uniform(-7, 1.5))
        if rng.random() < 0.15:
            # "nice" numbers where rounding ties can occur
            v = rng.randint(-9999, 9999) / 10 ** rng.randint(0, 4) or 1.0
            e = rng.randint(1, 99) / 10 ** rng.randint(0, 5)
        try:
            m = M(v, e, unit)
        except Exception:  # noqa: BLE001
            rec.count("skipped_operand_construction_failed")
            continue
        mag = m.magnitude
        for ms in MAGSPECS:
            if extreme and ("%" in ms or "f" in ms):
                continue
            try:
                format(mag, ms)
            except Exception:  # noqa: BLE001
                rec.count("skipped_magspec_unsupported_by_uncertainties")
                continue
            for flag in FLAGS:
                for mod in MODS:
                    if "#" in mod and (unit in ("", "degree_Celsius", "radian", "percent") or v <= 0 or extreme):
                        continue
                    order = rng.random() < 0.5
                    fl = (mod + flag) if order else (flag + mod)
                    spec_s = ms + fl
                    fam = family_of(flag)
                    fields = {"flag": flag or "default", "magkind": magkind(ms)}
                    cls = {"mod": mod or "none", "magspec": ms,
                           "flag_order": "mod-first" if order or not (mod and flag) else "flag-first"}
                    rec.count("format_cases")
                    rec.observe("format_specs", f"{ms}|{mod}|{flag}")
                    rec.case(("format", spec_s, unit, v, e), nontrivial=True)
                    wit = {"measurement": [v, e, unit], "spec": spec_s, "class": cls}
                    try:
                        out = format(m, spec_s)
                    except Exception as ex:  # noqa: BLE001
                        # the plain quantity with the same flags, and the magnitude with the same
                        # magnitude spec, both render: the measurement must too
                        try:
                            format(Q(v, unit), (ms if ms in ("", ".1f", ".2f", ".3f", "e", ".2e", "E", ".2E", "g", ".3g")
                                                else "") + fl)
                        except Exception:  # noqa: BLE001
                            rec.count("skipped_plain_quantity_also_fails_to_format")
                            continue
                        rec.violation("format-raised", dict(wit, err=repr(ex)[:300]), err=type(ex).__name__,
                                      flag=flag or "default",
                                      modifier="~" if "~" in mod else ("#" if mod else "none"))
                        continue
                    target = m
                    if "#" in mod:
                        try:
                            cu = Q(v, unit).to_compact().units
                            target = m.to(cu)
                        except Exception:  # noqa: BLE001
                            rec.count("skipped_compact_reference_failed")
                            continue
                    tn, ts = F(target.magnitude.nominal_value), F(target.magnitude.std_dev)
                    uspec = ("~" if "~" in mod else "") + flag
                    ustr = format(target.units, uspec)
                    if fam == "Lx":
                        ustr = ustr[len(r"\si[]"):]
                        ok_unit = out.startswith(r"\SI") and out.endswith(ustr)
                        num = out[len(r"\SI"): len(out) - len(ustr)]
                        num = num[1:-1] if num.startswith("{") and num.endswith("}") else num
                    else:
                        ok_unit = out.endswith(ustr)
                        num = out[: len(out) - len(ustr)] if ustr else out
                        if fam == "L":
                            num = num[:-2] if num.endswith("\\ ") else num
                        num = num.rstrip()
                    if not ok_unit:
                        rec.violation("format-unit", dict(wit, out=out, want_unit=ustr), **fields)
                        continue
                    rd = read_number_part(normalise_rendered(num, fam))
                    if rd is None:
                        rec.violation("format-unreadable", dict(wit, out=out, numeric_part=num), **fields)
                        continue
                    rec.observe("format_rendered_forms", f"{fam}:{rd['form']}:{'exp' if rd['exp'] else ''}"
                                                         f"{':pct' if rd['percent'] else ''}")
                    if rd["form"] != "shorthand":
                        marker = {"D": " +/- ", "C": "+/-", "P": " ± ", "H": " &plusmn; ", "L": r" \pm ",
                                  "Lx": " +- "}[fam]
                        if marker not in num or (fam == "C" and " +/- " in num):
                            rec.violation("format-plus-minus-sign-of-the-family", dict(wit, out=out), **fields)
                            continue
                    if ("%" in ms) != rd["percent"]:
                        rec.violation("format-percent", dict(wit, out=out), **fields)
                        continue
                    # one common quantum (trailing zeros of integers are not significant digits);
                    # slack: uncertainties scales by 10**exp in floats before rounding
                    q = max(rd["qn"], rd["qs"]) if rd["s"] != 0 else rd["qn"]
                    slack = (abs(tn) + abs(ts)) * F(1, 10 ** 12)
                    if not rd["exp"] and max(abs(rd["n"]), abs(rd["s"])) >= 10 ** 16 and q < 10:
                        # fixed-point digits of a float beyond 2**53 ("99999999999999991611392"): the
                        # trailing digits are float noise, the rounding quantum cannot be read off them
                        rec.count("format_skipped_float_noise_digits")
                        continue
                    if abs(rd["n"] - tn) * 2 > q + slack:
                        rec.violation("format-nominal", dict(wit, out=out, shown=float(rd["n"]),
                                                             have=float(tn)), **fields)
                        continue
                    if (ts == 0) != (rd["s"] == 0) and abs(rd["s"] - ts) * 2 > q + slack or \
                            abs(rd["s"] - ts) * 2 > q + slack:
                        rec.violation("format-uncertainty", dict(wit, out=out, shown=float(rd["s"]),
                                                                 have=float(ts)), **fields)
                        continue
                    rec.count("format_rendered_ok")
                    # ---- D / C renderings are themselves textual notations: parse them back
                    # (not beyond 1e+-140: `uncertainties` squares standard deviations, which leaves the
                    # float range there - the parsed text comes back with sigma 0)
                    if fam in ("D", "C") and not rd["percent"] and unit != "degree_Celsius" \
                            and 1e-140 < abs(v) < 1e140 and rng.random() < 0.5:
                        pf = {"form": rd["form"] + ("-wrapped" if rd["wrapped"] else ""),
                              "exp": ("E+" if "E" in out.split(" ")[0] else "e+0") if rd["exp"] else "none",
                              "sign": "minus" if rd["n"] < 0 else "none",
                              "unitpos": "spaced" if ustr else "none", "pm": "ascii" if rd["form"] != "shorthand" else "n/a",
                              "digits": "n/a"}
                        if rd["form"] == "shorthand":
                            if "." in rd["S"]:
                                pf["digits"] = "literal"
                                pf["form"] = "shorthand-literal" + ("-wrapped" if rd["wrapped"] else "")
                            else:
                                from harness.c19_text import lit_decimals
                                dN = lit_decimals(rd["N"])
                                pf["digits"] = "eq" if dN == len(rd["S"]) else (
                                    "fewer-decimals" if dN < len(rd["S"]) else "more-decimals")
                        rec.count("format_roundtrips")
                        check_parsed(env, out.rstrip() if not ustr else out, float(rd["n"]), float(rd["s"]),
                                     target.units._units, pf, "parse_expression", source="rendered:" + fam)
        if i % 10 == 0:
            rec.sample({"measurement": [v, e, unit], "default": format(m, ""), "P": format(m, "P")})


# ------------------------------------------------------------------------------------------
def run_shard(spec, rec):
    from harness import pintload  # noqa: F401
    {"ctor": run_ctor, "conv": run_conv, "convx": run_convx, "binary": run_binary, "tree": run_tree,
     "offarith": run_offarith, "parse": run_parse, "format": run_format}[spec["kind"]](spec, rec)
