"""C14 — systems and groups select base units and members exactly as declared.

Oracle: group closure / system members / allowed base-unit set / exact factors from the
independent reference model (default file) or from construction (generated files); a
reference tracker for histories of default_system changes and group edits.
"""
import random
from fractions import Fraction as F

PID = "C14"
RULE = ("(A) every canonical unit x {no system, SI, mks, cgs, atomic, Planck, imperial, US} via "
        "get_base_units(system=) and to_base_units under that default system: allowed unit set, "
        "dimension, exact value (1e-9 for tainted), idempotence; (B) every group and system: members "
        "vs model closure, restricted compatible-unit queries for every (unit class, group/system), "
        "ureg.sys.S.name resolution; (C) random histories of default_system changes and group edits "
        "with a reference tracker; (D) generated group graphs / systems with both rule forms, cycle "
        "insertion. distinct = (workload, system/group, unit or history step); non-trivial = the "
        "system replaces at least one root unit of the quantity / the query involves a non-root group")
ASSUMPTIONS = [
    "reference model reads @group/@system blocks independently; 'international' = units defined outside any group",
    "Planck and atomic systems have tainted base units: value preservation at 1e-9 there",
]


def exhaustive(tier):
    return True


def required(tier):
    return {"base_unit_cases": 2500, "members_checked": 20, "compatible_restricted": 500,
            "sys_attr_checked": 200, "history_steps": 100, "generated_registries": 10, "edited_group_steps": 8}


SYSTEMS = [None, "SI", "mks", "cgs", "atomic", "Planck", "imperial", "US"]


def shards(tier, seed):
    out = [{"kind": "matrix", "system": s, "name": f"matrix-{s}"} for s in SYSTEMS]
    out.append({"kind": "members", "name": "members"})
    for i in range(3 if tier == "quick" else 10):
        out.append({"kind": "history", "name": f"history{i}", "n": 60 if tier == "quick" else 300})
    for i in range(2 if tier == "quick" else 8):
        out.append({"kind": "generated", "name": f"gen{i}", "n": 25 if tier == "quick" else 250})
    out.append({"kind": "compound", "name": "compound", "n": 1500 if tier == "quick" else 30000})
    return out


def allowed_units(m, S):
    """Declared base units of S + root units S does not replace."""
    roots = {c for c, u in m.units.items() if u["is_base"]}
    if S is None:
        return roots, set()
    new, replaced = set(), set()
    for rule in m.systems[S]["rules"]:
        n = rule[0]
        pc, c = m.resolve(n)
        new.add(pc + c)
        if len(rule) == 2:
            replaced.add(m.resolve(rule[1])[1])
        else:
            ru = m.root_of_spelling(n)[1]
            replaced |= set(ru)
    return (roots - replaced) | new, new


_STRESS = {}


def chain_stress(m, spelling):
    """sum over the whole definition chain of |exponent * log10(scale)| for one spelling: how far
    pint's running float product can wander from 1 (DESIGN 8.3, float range)."""
    import math
    key = (id(m), spelling)
    if key not in _STRESS:
        _STRESS[key] = 0.0
        try:
            pc, c = m.resolve(spelling[6:] if spelling.startswith("delta_") else spelling)
            r = abs(math.log10(abs(float(F(m.prefixes[pc]["value"]))))) if pc else 0.0
            u = m.units[c]
            if not u["is_base"]:
                sc = abs(u["scale"].f())
                r += abs(math.log10(sc)) if sc > 0 else 400.0
                for ref, e in u["ref"].items():
                    r += abs(float(e)) * chain_stress(m, ref)
        except Exception:  # noqa: BLE001
            r = 400.0
        _STRESS[key] = r
    return _STRESS[key]


def check_base(rec, m, ureg, S, src: dict, f, units, tag, via):
    """f, units = real answer for `src` ({spelling: exp}) under system S."""
    allowed, _ = allowed_units(m, S)
    names = dict(units._units._d) if hasattr(units, "_units") else dict(units._d)
    w = {"system": S, "src": {k: str(v) for k, v in src.items()}, "factor": repr(f),
         "units": {k: str(v) for k, v in names.items()}, "via": via}
    fields = dict(system=str(S), via=via, workload=tag)
    bad = [n for n in names if n not in allowed]
    if bad:
        rec.violation("unit-outside-system-base", dict(w, outside=bad), **fields)
    mf, mr, md = m.expand(src)
    try:
        rf, rr, rd = m.expand({k: F(v) if not isinstance(v, float) else F(v).limit_denominator(1000)
                               for k, v in names.items()})
    except KeyError as e:
        rec.violation("unknown-unit-in-result", dict(w, err=repr(e)), **fields)
        return
    if rd != md:
        rec.violation("dimension-changed", dict(w, got=str(rd), want=str(md)), **fields)
        return
    if f is None:
        return
    exact = mf.exact and rf.exact and not isinstance(f, float)
    if exact:
        if F(f) * rf.v != mf.v:
            rec.violation("value-changed", dict(w, model_src=str(mf.v), model_dst=str(rf.v)), **fields)
    else:
        lhs, rhs = float(f) * rf.f(), mf.f()
        stress = sum(abs(float(e)) * chain_stress(m, n) for d in (src, names) for n, e in d.items())
        if stress > 290:
            # planck_length ** -6 * planck_time ** 4 ...: the partial products of the float factor
            # go denormal although the final factor is representable (5e-5 error seen at 1e-383)
            rec.count("numeric_range_skipped")
        elif abs(lhs - rhs) > 1e-9 * abs(rhs):
            rec.violation("value-changed", dict(w, lhs=lhs, rhs=rhs, tainted=True), **fields)
    if exact is False and mf.exact and rf.exact:
        rec.violation("float-contamination", w, **fields)


def run_shard(spec, rec):
    from harness import pintload, refmodel as R, gen
    import pint

    rng = random.Random(spec["seed"])
    kind = spec["kind"]
    if kind == "generated":
        return run_generated(spec, rec, rng, pint)
    m = R.default_model(pintload.REPO)
    names = gen.canonical_units(m, multiplicative=True)

    if kind in ("matrix", "compound"):
        S = spec.get("system")
        if kind == "compound":
            cases = []
            pos = [c for c in names if m.root(c)[0].v > 0]
            for i in range(spec["n"]):
                S_ = rng.choice(SYSTEMS)
                if S_ in ("atomic", "Planck"):
                    # tainted (float) base units: high powers of 1e-28-sized factors leave the float
                    # range (subnormal precision loss); keep these compounds small
                    cases.append((S_, gen.compound(rng, pos, 1, 2, exps=(-1, 1))))
                else:
                    cases.append((S_, gen.compound(rng, pos, 1, 4)))
        else:
            cases = [(S, {c: F(1)}) for c in names]
        regs = {}
        for S, src in cases:
            if S not in regs:
                regs[S] = (pintload.registry(non_int_type=F, system=S) if S else None,
                           pintload.registry(non_int_type=F))
                if S is None:
                    r0 = pintload.registry(non_int_type=F)
                    r0.default_system = None
                    regs[S] = (r0, regs[S][1])
            rS, rD = regs[S]
            _, new = allowed_units(m, S)
            mr = m.expand(src)[1]
            replaced_any = S is not None and any(
                (len(rule) == 2 and m.resolve(rule[1])[1] in mr) or
                (len(rule) == 1 and set(m.root_of_spelling(rule[0])[1]) & set(mr))
                for rule in m.systems[S]["rules"])
            rec.case((kind, str(S), str(sorted(src.items()))), nontrivial=replaced_any)
            rec.count("base_unit_cases")
            uc = rS.UnitsContainer({k: int(v) for k, v in src.items()})
            try:
                f1, u1 = rS.get_base_units(uc)                       # default system = S
                f2, u2 = rD.get_base_units(rD.UnitsContainer(dict(uc._d)), system=S) if S else (f1, u1)
                q = rS.Quantity(F(3), uc).to_base_units()
                q2 = q.to_base_units()
                fr, ur = rS.get_root_units(uc)
            except Exception as e:  # noqa: BLE001
                if isinstance(e, OverflowError) or "'inf'" in str(e) or "'nan'" in str(e):
                    rec.count("numeric_range_skipped")   # tainted (float) factors left the float range
                    continue
                rec.violation("base-units-raised", {"system": S, "src": str(src), "err": repr(e)[:300]},
                              system=str(S), via="get_base_units", workload=kind)
                continue
            check_base(rec, m, rS, S, src, f1, u1, kind, "default_system")
            check_base(rec, m, rD, S, src, f2, u2, kind, "system-argument")
            check_base(rec, m, rS, S, src, q.magnitude / 3, q.units, kind, "to_base_units")
            # two registries with different memo histories multiply tainted (float) factors in a different
            # order: a difference of a few ulps is float rounding, anything exact must agree exactly
            if isinstance(f1, float) or isinstance(f2, float):
                fdiff = abs(float(f1) - float(f2)) > 1e-12 * max(abs(float(f1)), abs(float(f2)))
            else:
                fdiff = f1 != f2
            if dict(u1._units._d) != dict(u2._units._d) or fdiff:
                rec.violation("default-vs-argument-differ", {"system": S, "src": str(src),
                                                             "default": (repr(f1), repr(dict(u1._units._d))),
                                                             "argument": (repr(f2), repr(dict(u2._units._d)))},
                              system=str(S), via="both", workload=kind)
            if dict(q2._units._d) != dict(q._units._d) or q2.magnitude != q.magnitude:
                rec.violation("not-idempotent", {"system": S, "src": str(src), "once": repr(q), "twice": repr(q2)},
                              system=str(S), via="to_base_units", workload=kind)
            # root units are system independent
            check_base(rec, m, rS, None, src, fr, ur, kind, "get_root_units")
        rec.sample({"system": cases[0][0], "example": str(cases[len(cases) // 2][1])})
        return

    if kind == "members":
        ureg = pintload.registry(non_int_type=F)
        dimof = {c: tuple(sorted(m.root(c)[2].items())) for c in m.units}
        model_groups = dict(m.groups)
        grouped = set()
        for g in m.groups.values():
            grouped |= set(g["units"])
        model_groups["international"] = {"using": [], "units": [c for c in m.units if c not in grouped]}
        mm = R.Model()
        mm.units, mm.groups = m.units, model_groups
        members = {g: {m.spell[u] for u in mm.group_members(g)} for g in model_groups}
        members["root"] = set(m.units)
        for g, want in members.items():
            rec.count("members_checked")
            rec.case(("group", g), nontrivial=g != "root")
            got = set(ureg.get_group(g, False).members)
            if got != want:
                rec.violation("group-members", {"group": g, "missing": sorted(want - got)[:8],
                                                "extra": sorted(got - want)[:8]}, workload="members", target="group")
        sysmem = {}
        for S, d in m.systems.items():
            want = set()
            for g in d["using"]:
                want |= members[g]
            sysmem[S] = want
            rec.count("members_checked")
            rec.case(("system", S))
            got = set(ureg.get_system(S, False).members)
            if got != want:
                rec.violation("system-members", {"system": S, "missing": sorted(want - got)[:8],
                                                 "extra": sorted(got - want)[:8]}, workload="members", target="system")
        # restricted compatible-unit queries
        classes = {}
        for c in m.units:
            classes.setdefault(dimof[c], set()).add(c)
        reps = [sorted(v)[0] for k, v in classes.items() if k]
        for target, mem in list(members.items()) + list(sysmem.items()):
            for u in reps:
                rec.count("compatible_restricted")
                rec.case(("compat", target, u), nontrivial=target != "root")
                want = classes[dimof[u]] & mem
                try:
                    got = {str(x) for x in ureg.get_compatible_units(u, target)}
                except Exception as e:  # noqa: BLE001
                    rec.violation("compatible-restricted-raised", {"target": target, "unit": u, "err": repr(e)},
                                  workload="members", target=target)
                    continue
                # the delta_ companions of offset units are generated by the registry and belong to no group
                # (not even root), so a restricted listing never shows them: nothing is filtered here
                if got != want:
                    rec.violation("compatible-restricted", {"target": target, "unit": u,
                                                            "missing": sorted(want - got)[:6],
                                                            "extra": sorted(got - want)[:6]},
                                  workload="members", target="system" if target in sysmem else "group")
        # groups EDITED after their members were read: a group's members stay "its own units plus those of
        # every group it uses", so a unit taken off the own list that a used group still provides remains a
        # member (and the systems and restricted listings that go through the group agree)
        ed = pintload.registry(non_int_type=F)
        users = [g for g in sorted(ed._groups) if ed._groups[g]._used_groups and g != "root"]
        for gname in users:
            grp = ed.get_group(gname, False)

            def rule_members(name):
                g = ed._groups[name]
                out = set(g.non_inherited_unit_names)
                for u in g._used_groups:
                    out |= rule_members(u)
                return out
            before = set(grp.members)                      # fills the memo
            for S in ed._systems:
                set(ed.get_system(S, False).members)
            inherited = sorted(before - set(grp.non_inherited_unit_names))
            if not inherited:
                continue
            x = rng.choice(inherited)
            outsider = rng.choice(sorted(set(m.units) - before))
            steps = [("add-inherited", lambda: grp.add_units(x)), ("remove-it-again", lambda: grp.remove_units(x)),
                     ("add-outsider", lambda: grp.add_units(outsider)), ("remove-outsider", lambda: grp.remove_units(outsider))]
            for sname, fn in steps:
                rec.count("edited_group_steps")
                rec.case(("edited-group", gname, sname), nontrivial=True)
                try:
                    fn()
                    got = set(grp.members)
                except Exception as e:  # noqa: BLE001
                    rec.violation("group-edit-raised", {"group": gname, "step": sname, "err": repr(e)[:200]},
                                  workload="edited-groups", target="group")
                    break
                want = rule_members(gname)
                if got != want:
                    rec.violation("group-members", {"group": gname, "step": sname, "unit": x if "outsider" not in sname else outsider,
                                                    "missing": sorted(want - got)[:8], "extra": sorted(got - want)[:8]},
                                  workload="edited-groups", target="group")
                for S in ed._systems:
                    sy = ed.get_system(S, False)
                    if gname in getattr(sy, "_used_groups", ()):
                        swant = set()
                        for gg in sy._used_groups:
                            swant |= rule_members(gg)
                        if set(sy.members) != swant:
                            rec.violation("system-members", {"system": S, "after_editing_group": gname, "step": sname,
                                                             "missing": sorted(swant - set(sy.members))[:8],
                                                             "extra": sorted(set(sy.members) - swant)[:8]},
                                          workload="edited-groups", target="system")
        # ureg.sys.S.name
        for S in m.systems:
            sysobj = getattr(ureg.sys, S)
            cands = [n[len(S) + 1:] for n in m.spell if n.startswith(S + "_")]
            plain = rng.sample(sorted(n for n in m.order if n.isidentifier()), 40)
            # plural spellings of the variant names (sys.imperial.pints): the registry reads
            # 'imperial_pints' as the plural of imperial_pint, so the system must answer with its variant
            plurals = []
            for n in cands:
                if n.isidentifier() and (S + "_" + n + "s") not in m.spell and (n + "s") not in m.spell:
                    rd = m.readings(S + "_" + n + "s")
                    if len(rd) == 1 and rd[0][0] == "":
                        plurals.append((n + "s", rd[0][1]))
            rec.count("sys_attr_plural_spellings", len(plurals))
            plural_want = dict(plurals)
            for n in cands + plain + [p for p, _ in plurals]:
                rec.count("sys_attr_checked")
                rec.case(("sysattr", S, n), nontrivial=n in cands or n in plural_want)
                variant = S + "_" + n
                want = plural_want.get(n) or m.spell.get(variant) or (m.spell.get(n) if n in m.spell else None)
                if want is None:
                    continue
                try:
                    got = dict(getattr(sysobj, n)._units._d)
                except Exception as e:  # noqa: BLE001
                    rec.violation("sys-attr-raised", {"system": S, "name": n, "err": repr(e)},
                                  workload="members", target="sysattr")
                    continue
                if got != {want: 1}:
                    rec.violation("sys-attr-wrong-variant", {"system": S, "name": n, "got": repr(got),
                                                             "want": want}, workload="members", target="sysattr")
        rec.sample({"groups": len(members), "systems": len(sysmem)})
        return

    if kind == "history":
        run_history(spec, rec, rng, pint, pintload, m, names)


def run_history(spec, rec, rng, pint, pintload, m, names):
    """default_system changes and group edits; reference tracker + fresh twin answers."""
    probes = [{"meter": F(1)}, {"foot": F(1), "second": F(-1)}, {"pound": F(1)}, {"newton": F(1)},
              {"gallon": F(1)}, {"volt": F(1)}, {"erg": F(1)}, {"mile": F(2), "hour": F(-1)}]
    twins = {}

    def twin_answer(S, p):
        if S not in twins:
            t = pintload.registry(non_int_type=F)
            t.default_system = S
            twins[S] = t
        t = twins[S]
        f, u = t.get_base_units(t.UnitsContainer({k: int(v) for k, v in p.items()}))
        q = t.Quantity(F(1), t.UnitsContainer({k: int(v) for k, v in p.items()})).to_base_units()
        return (f, dict(u._units._d)), (q.magnitude, dict(q._units._d))

    for h in range(spec["n"]):
        ureg = pintload.registry(non_int_type=F)
        cur = "mks"
        # group model
        grp_units = {g.name: set(g._unit_names) for g in ureg._groups.values()}
        grp_used = {g.name: set(g._used_groups) for g in ureg._groups.values()}
        sys_used = {s.name: set(s._used_groups) for s in ureg._systems.values()}

        def closure(g, seen=()):
            out = set(grp_units[g])
            for x in grp_used[g]:
                if x not in seen:
                    out |= closure(x, seen + (g,))
            return out

        trace = []
        explicit_seen = False
        for step in range(rng.randint(6, 25)):
            op = rng.choice(("sys", "sys", "probe", "probe", "explicit", "addunit", "rmunit", "addgroup", "rmgroup", "members"))
            rec.count("history_steps")
            if op == "sys":
                cur = rng.choice(SYSTEMS)
                trace.append(("default_system", cur))
                ureg.default_system = cur
                explicit_seen = False
                op = "probe-all"
            if op == "explicit":
                # a query for ANOTHER system by argument must not influence later default-system answers
                other_sys = rng.choice([x for x in SYSTEMS if x and x != cur])
                p = rng.choice(probes)
                trace.append(("get_base_units(system=)", other_sys, str(p)))
                explicit_seen = True
                try:
                    ureg.get_base_units(ureg.UnitsContainer({k: int(v) for k, v in p.items()}), system=other_sys)
                except Exception as e:  # noqa: BLE001
                    rec.violation("history-raised", {"trace": trace[-8:], "err": repr(e)[:200]}, workload="history",
                                  system=str(other_sys), via="explicit")
                op = "probe-all"
            plist = probes if op == "probe-all" else [rng.choice(probes)] if op == "probe" else []
            for p in plist:
                    trace.append(("probe", str(p)))
                    uc = ureg.UnitsContainer({k: int(v) for k, v in p.items()})
                    try:
                        f, u = ureg.get_base_units(uc)
                        q = ureg.Quantity(F(1), uc).to_base_units()
                        got = ((f, dict(u._units._d)), (q.magnitude, dict(q._units._d)))
                        want = twin_answer(cur, p)
                    except Exception as e:  # noqa: BLE001
                        rec.violation("history-raised", {"trace": trace[-8:], "err": repr(e)[:200]}, workload="history",
                                      system=str(cur), via="probe")
                        continue
                    rec.case(("history", spec["seed"], h, step), nontrivial=len(trace) > 2)
                    if got != want:
                        prev = [t[1] for t in trace if t[0] == "default_system"]
                        rec.violation("default-system-change-lags", {"trace": trace[-8:], "got": repr(got)[:300],
                                                                    "fresh_twin": repr(want)[:300]},
                                      workload="history", system=str(cur), via="probe",
                                      previous_system=str(prev[-2]) if len(prev) > 1 else "mks")
            if op in ("addunit", "rmunit", "addgroup", "rmgroup", "members"):
                gnames = [g for g in grp_units if g != "root"]
                g = rng.choice(gnames)
                if op == "addunit":
                    u = rng.choice(names)
                    trace.append(("add_units", g, u))
                    ureg.get_group(g).add_units(u)
                    grp_units[g].add(u)
                elif op == "rmunit" and grp_units[g]:
                    u = rng.choice(sorted(grp_units[g]))
                    trace.append(("remove_units", g, u))
                    ureg.get_group(g).remove_units(u)
                    grp_units[g].discard(u)
                elif op == "addgroup":
                    g2 = rng.choice([x for x in gnames if x != g])   # g.add_groups(g) is not generated:
                    # pint answers it with RecursionError and a corrupted group (observed); C14 does
                    # not speak about self-use
                    trace.append(("add_groups", g, g2))
                    would_cycle = g2 == g or g in closure_groups(grp_used, g2)
                    try:
                        ureg.get_group(g).add_groups(g2)
                        if would_cycle:
                            rec.violation("group-cycle-accepted", {"trace": trace[-6:]}, workload="history",
                                          system="-", via="add_groups")
                            return
                        grp_used[g].add(g2)
                    except ValueError:
                        rec.count("cycles_refused")
                        if not would_cycle:
                            rec.violation("group-edit-refused", {"trace": trace[-6:]}, workload="history",
                                          system="-", via="add_groups")
                elif op == "rmgroup" and grp_used[g]:
                    g2 = rng.choice(sorted(grp_used[g]))
                    trace.append(("remove_groups", g, g2))
                    ureg.get_group(g).remove_groups(g2)
                    grp_used[g].discard(g2)
                # after an edit: members vs tracker.  WHICH memos are read matters (reading a child's
                # members refills its memo and can hide a broken invalidation chain), so the read
                # pattern is part of the history: everything / systems only / one random group / nothing
                read_mode = rng.choice(("all", "systems-only", "systems-only", "one-group", "one-group", "none"))
                rec.observe("read_modes", read_mode)
                read_groups = list(grp_units) if read_mode == "all" else \
                    [rng.choice(list(grp_units))] if read_mode == "one-group" else []
                for gg in read_groups:
                    want = closure(gg)
                    got = set(ureg.get_group(gg).members)
                    if got != want:
                        rec.violation("group-members-after-edit", {"trace": trace[-6:], "group": gg,
                                                                   "missing": sorted(want - got)[:5],
                                                                   "extra": sorted(got - want)[:5]},
                                      workload="history", system="-", via="group-edit")
                for S, used in (sys_used.items() if read_mode in ("all", "systems-only") else ()):
                    want = set()
                    for gg in used:
                        want |= closure(gg)
                    got = set(ureg.get_system(S).members)
                    if got != want:
                        rec.violation("system-members-after-group-edit", {"trace": trace[-6:], "system": S,
                                                                          "missing": sorted(want - got)[:5],
                                                                          "extra": sorted(got - want)[:5]},
                                      workload="history", system=S, via="group-edit")
                        break
        if h == 0:
            rec.sample({"history": trace[:12]})


def closure_groups(used, g, seen=None):
    seen = seen or set()
    for x in used[g]:
        if x not in seen:
            seen.add(x)
            closure_groups(used, x, seen)
    return seen


# ---------------------------------------------------------------------------
def run_generated(spec, rec, rng, pint):
    from harness.gendef import Gen
    from harness import refmodel as R

    for gi in range(spec["n"]):
        g = Gen(rng, n_units=rng.randint(8, 20), offsets=0, neg_rate=0.0)  # roots of negative scales are complex
        base_lines = g.text().splitlines()
        mult = [c for c in g.mult_units() if g.units[c]["factor"] > 0]
        roots = [c for c in mult if g.units[c]["is_base"]]
        # groups: units defined INSIDE groups (new units), with a 'using' DAG
        ngroups = rng.randint(1, 4)
        glines, gmembers, gusing = [], {}, {}
        counter = 0
        for k in range(ngroups):
            gname = f"G{k}"
            using = [f"G{j}" for j in range(k) if rng.random() < 0.4]
            glines.append(f"@group {gname}" + (" using " + ", ".join(using) if using else ""))
            own = []
            for _ in range(rng.randint(1, 3)):
                counter += 1
                name = f"zq{counter}u"
                refu = rng.choice(mult)
                fac = F(rng.randint(2, 50), rng.randint(1, 9))
                glines.append(f"    {name} = {fac.numerator} / {fac.denominator} * {refu}")
                g.units[name] = dict(factor=fac * g.units[refu]["factor"], root=dict(g.units[refu]["root"]),
                                     dims=dict(g.units[refu]["dims"]), kind="mult", is_base=False,
                                     name=name, symbol=None, aliases=[])
                own.append(name)
            glines.append("@end")
            gmembers[gname], gusing[gname] = own, using
        def gclosure(x):
            out = set(gmembers[x])
            for y in gusing[x]:
                out |= gclosure(y)
            return out
        # systems
        slines, rules_by_sys, sys_using = [], {}, {}
        for k in range(rng.randint(1, 3)):
            sname = f"S{k}"
            using = [f"G{j}" for j in range(ngroups) if rng.random() < 0.5]
            slines.append(f"@system {sname}" + (" using " + ", ".join(using) if using else ""))
            rules = []
            dimroots = [r for r in roots if g.units[r]["dims"]]
            replaced_roots = rng.sample(dimroots, rng.randint(1, len(dimroots)))
            used_new = set()
            for r in replaced_roots:
                def ok(c):
                    u = g.units[c]
                    return (c not in used_new and c != r and u["kind"] == "mult" and u["factor"] > 0
                            and all(F(v).denominator == 1 for v in u["root"].values()))
                # 'new' form needs root vector exactly {r: 1}; 'new:old' accepts {r: a} and, to be a
                # consistent substitution, other roots only if this system does not replace them
                single1 = [c for c in g.units if ok(c) and g.units[c]["root"] == {r: F(1)}]
                single = [c for c in g.units if ok(c) and set(g.units[c]["root"]) == {r}]
                multi = [c for c in g.units if ok(c) and r in g.units[c]["root"] and len(g.units[c]["root"]) > 1
                         and not (set(g.units[c]["root"]) - {r}) & set(replaced_roots)]
                form = rng.random()
                if single1 and form < 0.4:
                    n = rng.choice(single1)
                    rules.append((n, None, r))
                    slines.append(f"    {n}")
                elif single and form < 0.7:
                    n = rng.choice(single)
                    rules.append((n, r, r))
                    slines.append(f"    {n}:{r}")
                elif multi:
                    n = rng.choice(multi)
                    rules.append((n, r, r))
                    slines.append(f"    {n} : {r}")
                else:
                    continue
                used_new.add(n)
            slines.append("@end")
            rules_by_sys[sname], sys_using[sname] = rules, using
        text = "\n".join(base_lines + glines + slines) + "\n"
        try:
            ureg = pint.UnitRegistry(text.splitlines(), non_int_type=F, cache_folder=None)
        except Exception as e:  # noqa: BLE001
            rec.violation("generated-file-refused", {"text": text, "err": repr(e)[:300]}, workload="generated",
                          system="-", via="load")
            continue
        rec.count("generated_registries")
        all_units = set(g.units)
        for gname in gmembers:
            want = gclosure(gname)
            got = set(ureg.get_group(gname, False).members)
            rec.count("members_checked")
            if got != want:
                rec.violation("group-members", {"text": text, "group": gname, "got": sorted(got), "want": sorted(want)},
                              workload="generated", target="group")
        for sname, rules in rules_by_sys.items():
            want = set()
            for x in (sys_using[sname] or ["root"]):
                want |= all_units if x == "root" else gclosure(x)
            got = set(ureg.get_system(sname, False).members)
            got = {x for x in got if x in all_units}
            if got != want:
                rec.violation("system-members", {"text": text, "system": sname, "missing": sorted(want - got),
                                                 "extra": sorted(got - want)}, workload="generated", target="system")
            replaced = {old for (_, _, old) in rules}
            new = {n for (n, _, _) in rules}
            allowed = (set(roots) - replaced) | new | {c for c in g.units if g.units[c]["is_base"]} - replaced
            multi_rule = any(len(g.units[n]["root"]) > 1 for (n, _, _) in rules)
            for c in mult + [u for own in gmembers.values() for u in own]:
                rec.count("base_unit_cases")
                rec.case(("gen", spec["seed"], gi, sname, c), nontrivial=bool(set(g.units[c]["root"]) & replaced))
                fields = dict(system="generated", via="get_base_units", workload="generated",
                              rule_form="new:old-with-other-roots" if multi_rule else "simple")
                try:
                    f, u = ureg.get_base_units(c, system=sname)
                    ureg.default_system = sname
                    q = ureg.Quantity(F(2), c).to_base_units()
                    q2 = q.to_base_units()
                except Exception as e:  # noqa: BLE001
                    if "Exceeds the limit" in str(e) or isinstance(e, OverflowError) or "'inf'" in str(e) or "'nan'" in str(e):
                        rec.count("numeric_range_skipped")
                        continue
                    rec.violation("base-units-raised", {"text": text, "system": sname, "unit": c, "err": repr(e)[:300]},
                                  **fields)
                    continue
                for ff, uu, via in ((f, dict(u._units._d), "get_base_units"), (q.magnitude / 2, dict(q._units._d), "to_base_units")):
                    w = {"text": text, "system": sname, "unit": c, "factor": str(ff), "units": repr(uu), "via": via}
                    outside = [n for n in uu if n not in allowed]
                    if outside:
                        rec.violation("unit-outside-system-base", dict(w, outside=outside), **fields)
                    val, dims = F(ff), {}
                    ok = True
                    for n, e in uu.items():
                        if n not in g.units:
                            ok = False
                            break
                        e = F(e)
                        if e.denominator != 1:
                            ok = False
                            break
                        val *= g.units[n]["factor"] ** int(e)
                        for dk, dv in g.units[n]["dims"].items():
                            dims[dk] = dims.get(dk, 0) + dv * e
                    if not ok:
                        rec.count("generated_result_unmodelled")
                        continue
                    dims = {k: v for k, v in dims.items() if v}
                    if dims != g.units[c]["dims"]:
                        rec.violation("dimension-changed", w, **fields)
                    elif val != g.units[c]["factor"]:
                        rec.violation("value-changed", dict(w, model=str(g.units[c]["factor"]), got=str(val)), **fields)
                if dict(q2._units._d) != dict(q._units._d) or q2.magnitude != q.magnitude:
                    rec.violation("not-idempotent", {"text": text, "system": sname, "unit": c}, **fields)
        # cycle insertion must raise
        if ngroups >= 2:
            a, b = "G0", f"G{ngroups - 1}"
            try:
                ureg.get_group(a).add_groups(b)
                ureg.get_group(b).add_groups(a)
                rec.violation("group-cycle-accepted", {"text": text, "a": a, "b": b}, workload="generated",
                              system="-", via="add_groups")
            except ValueError:
                rec.count("cycles_refused")
        if gi == 0:
            rec.sample({"generated_file_tail": "\n".join(glines + slines)[:700]})
