"""C03 — arithmetic results do not depend on the units used to express the operands.

Two oracles decide every executed operator node of every generated expression tree:

(i)  MODEL.  Each leaf is a *physical* quantity: an exact Fraction value in root units plus
     a base-dimension vector, both taken from the independent reference model
     (harness/refmodel — shares no code with pint).  The tree is evaluated on
     (value, dimension vector) pairs with ordinary arithmetic and the error rules of the
     statement.  The real result of every node is normalised with `to_root_units().magnitude`
     and `.dimensionality` and compared: `==` in the Fraction registry on untainted units,
     a propagated forward error bound in the float / Decimal / ndarray runs.
(ii) METAMORPHIC.  The same tree is executed again with every leaf re-expressed *exactly* in
     other compatible units (other units of the dimension class, prefixed units, compounds
     built from other units, dimensionless decorations percent / ppm / radian / count ...);
     the outcomes of corresponding nodes must be physically equal or fail with the same
     error class.  The same holds between the plain run (`a op b` everywhere) and the run in
     which every binary node uses its drawn form: in-place on a copy, or the reflected dunder
     called directly; a bare number on the left forces `__rop__` in both runs.

Operand snapshots (harness.monitors.fp) are taken around every executed operator: nothing
but the target of an in-place form may change; all leaves are fingerprinted before and
after a whole evaluation.  icontract class invariants sit on the live UnitsContainer.
sys.monitoring LINE events (self-disabling, so free after the first hit) record which lines
of the anchored PlainQuantity methods were reached.

Deviations from the DESIGN plan (reality required them):
* comparisons and divmod only appear at the root of a tree (their results are not operands);
* offset / log / delta units are out of scope (C06); the one negatively scaled unit of the
  bundled file (electron_g_factor) is excluded from leaves: abs() and same-unit ordering
  work on magnitudes, which is a property of that unit's definition, not of the operators
  (C05 excludes it for the same reason);
* exact runs use integer exponents only; rational (dyadic) exponents only in float runs;
  in inexact runs a quantity-valued exponent is only generated for a dimensionless base
  (a float exponent 2.0000000000000004 would change the *dimension* of the result);
* `q ** Q(0, 'meter')` (zero exponent that carries a dimension) is left undecided: the
  statement gives no rule for it; it is counted (`pow_zero_dimensional_exponent`);
* `__rtruediv__` / `__rpow__` are only reached through `number op q` (Python never calls
  them with a Quantity operand); `__radd__ __rsub__ __rmul__ __rfloordiv__ __rmod__
  __rdivmod__`, which have an explicit Quantity branch, are also called directly;
* bare ndarray / numpy-scalar LEFT operands dispatch through numpy's ufunc protocol, which
  is C16's subject; bare arrays are used as right operands only;
* int magnitudes: Python's own `int / int` and `int ** -1` are float operations, and pint's
  reflected division does not cast; once a float produced this way is observed in an exact
  run the node is compared with 1e-12 and its ancestors are not decided.
"""
from __future__ import annotations

import copy
import math
import operator
import random
from decimal import Decimal
from fractions import Fraction as F

PID = "C03"
DEPS = ("icontract",)
RULE = ("random expression trees (depth <= 3 quick, <= 4 thorough) biased towards well-typed "
        "operands, plus a systematic depth-1 matrix operator x left-kind x right-kind x form; "
        "leaves are physical values expressed in 3-4 alternative unit assignments each; one case = "
        "one evaluation of one tree under one unit assignment and one form choice; distinct = "
        "(tree structure with operators, forms and leaf units); non-trivial = at least one binary "
        "node whose operands are quantities in different units, or a bare number operand")
ASSUMPTIONS = [
    "refmodel factors and dimension vectors are right (validated by C01/C02/C20)",
    "to_root_units() and .dimensionality of a *result* are right (C01/C02); they are the normal form",
    "unit strings rendered by harness.gen.render_units parse to the intended containers (verified "
    "per unit at shard start; parsing itself is C07/C08)",
    "float / Decimal / ndarray runs are decided with a propagated first-order error bound "
    "(2.5e-10 relative per operation in float, 2.5e-23 in Decimal, safety factor 4): ill-conditioned "
    "nodes (ties, floor discontinuities, cancellation to zero) are skipped and counted, never decided",
    "electron_g_factor (negative scale) and offset/log/delta units are not used as leaves",
]
SHARD_TIMEOUT = {"quick": 600, "thorough": 3000}

ARITH = ("+", "-", "*", "/", "//", "%", "**")
CMPS = ("==", "!=", "<", "<=", ">", ">=")
PYOP = {"+": operator.add, "-": operator.sub, "*": operator.mul, "/": operator.truediv,
        "//": operator.floordiv, "%": operator.mod, "**": operator.pow, "==": operator.eq,
        "!=": operator.ne, "<": operator.lt, "<=": operator.le, ">": operator.gt,
        ">=": operator.ge, "divmod": divmod}
IOP = {"+": operator.iadd, "-": operator.isub, "*": operator.imul, "/": operator.itruediv,
       "//": operator.ifloordiv, "%": operator.imod, "**": operator.ipow}
RDUNDER = {"+": "__radd__", "-": "__rsub__", "*": "__rmul__", "//": "__rfloordiv__",
           "%": "__rmod__", "divmod": "__rdivmod__"}
ANCHORED = ("_add_sub", "_iadd_sub", "__rsub__", "_mul_div", "_imul_div", "__truediv__",
            "__rtruediv__", "_truedivide_cast_int", "__floordiv__", "__rfloordiv__",
            "__ifloordiv__", "__mod__", "__rmod__", "__imod__", "__divmod__", "__rdivmod__",
            "__pow__", "__ipow__", "__rpow__", "__eq__", "compare", "__neg__", "__abs__")
NAN = float("nan")
K_TOL = 4.0            # safety factor on the propagated bound
# relative error charged per operation / conversion, chosen so that K_TOL * REL is the tolerance of
# the DESIGN plan (1e-9 in float / ndarray runs, 1e-22 in Decimal runs).  A tighter "few ulp" bound
# is wrong for pint: meter**8 * bohr -> bohr**9 under auto_reduce_dimensions is off by 3e-13.
PMAX_FLOAT = 8.0       # float runs: no unit is raised beyond this power (pool units are calibrated up to it)
REL = {"float": 2.5e-10, "ndarray": 2.5e-10, "decimal": 2.5e-23}


def exhaustive(tier):
    return False


def required(tier):
    big = tier == "thorough"
    return {
        "nodes_decided_by_model": 400000 if big else 40000,
        "nodes_exact_equal": 150000 if big else 15000,
        "variant_nodes_compared": 200000 if big else 20000,
        "form_nodes_compared": 60000 if big else 6000,
        "inplace_ops": 20000 if big else 2000,
        "reflected_ops": 20000 if big else 2000,
        "rdirect_ops": 8000 if big else 800,
        "dimerr_expected_and_raised": 5000 if big else 500,
        "bare_number_addsub_refused": 400 if big else 40,
        "converted_operand_ops": 20000 if big else 2000,
        "result_aliasing_checks": 5000 if big else 500,
        "bare_zero_or_nan_addsub_accepted": 400 if big else 40,
        "operand_snapshots": 200000 if big else 20000,
        "container_invariant_evals": 100000,
        "op_form_outcome": 90,          # distinct (operator, form, outcome class)
        "op_kinds": 300,                 # distinct (operator, left kind, right kind)
        "anchored_lines": 150,
    }


def shards(tier, seed):
    big = tier == "thorough"
    out = []

    def add(name, **kw):
        kw["name"] = name
        out.append(kw)

    n = 8000 if big else 480
    for i in range(4):
        d4 = big and i % 2 == 1
        add(f"exact{i}", mode="fraction", auto_reduce=False, trees=int(n * 0.6) if d4 else n, depth=4 if d4 else 3)
    for i in range(2):
        add(f"exact-reduce{i}", mode="fraction", auto_reduce=True, trees=n, depth=3)
    add("matrix-exact", mode="fraction", auto_reduce=False, matrix=6 if big else 1, trees=0, depth=1)
    add("matrix-exact-reduce", mode="fraction", auto_reduce=True, matrix=6 if big else 1, trees=0, depth=1)
    add("matrix-float", mode="float", auto_reduce=False, matrix=6 if big else 1, trees=0, depth=1)
    add("matrix-float-reduce", mode="float", auto_reduce=True, matrix=6 if big else 1, trees=0, depth=1)
    add("matrix-ndarray", mode="ndarray", auto_reduce=False, matrix=6 if big else 1, trees=0, depth=1)
    add("generated0", mode="fraction", auto_reduce=False, generated=True,
        registries=150 if big else 5, trees=40, depth=3)
    for i in range(2):
        add(f"float{i}", mode="float", auto_reduce=i == 1, trees=int(n * 1.5), depth=4 if big and i == 0 else 3)
    add("decimal0", mode="decimal", auto_reduce=False, trees=n, depth=3)
    # operators never consult contexts (only explicit conversions do): with the spectroscopy context
    # active, + - and comparisons between wavelength, frequency, wavenumber and energy still refuse
    add("context-exact", mode="fraction", auto_reduce=False, trees=n, depth=2, context="sp")
    add("context-float", mode="float", auto_reduce=False, trees=n, depth=2, context="sp")
    for i in range(2):
        add(f"ndarray{i}", mode="ndarray", auto_reduce=i == 1, trees=n, depth=3)
    return out


# =======================================================================================
# dimension-vector helpers (dict name -> Fraction, no zero entries)
# =======================================================================================
def dadd(a, b, sign=1):
    out = dict(a)
    for k, v in b.items():
        nv = out.get(k, 0) + sign * v
        if nv:
            out[k] = nv
        else:
            out.pop(k, None)
    return out


def dscale(a, e):
    if not e:
        return {}
    return {k: v * e for k, v in a.items()}


def dkey(d):
    return tuple(sorted(d.items()))


def is_nan(x):
    try:
        return x != x
    except Exception:  # noqa: BLE001
        return False


# =======================================================================================
# expression trees
# =======================================================================================
class Leaf:
    """A physical quantity: value(s) in root units + the units it is expressed in."""
    __slots__ = ("vals", "shape", "assigns", "factors", "intkind", "dims", "bvals")

    def __init__(self, vals, shape, assigns, factors, dims, intkind=False):
        self.vals = vals          # list of Fraction (flat; one element for scalars)
        self.shape = shape        # None = python scalar, tuple = ndarray shape
        self.assigns = assigns    # list of {spelling: Fraction exponent}
        self.factors = factors    # list of Val
        self.dims = dims
        self.intkind = intkind
        self.bvals = None         # vals broadcast to the tree-wide shape (ndarray runs)


class Node:
    __slots__ = ("id", "kind", "op", "form", "kids", "leaf", "num", "zn", "shape", "isarray", "pmax")

    def __init__(self, kind, op=None, kids=(), leaf=None, num=None, form="plain"):
        self.kind = kind          # 'leaf' | 'num' | 'un' | 'bin'
        self.op = op
        self.kids = list(kids)
        self.leaf = leaf
        self.num = num            # bare number (python number or ndarray)
        self.form = form
        self.zn = None
        self.id = -1
        self.shape = None
        self.isarray = False
        self.pmax = 0.0           # upper bound of |exponent| any unit can carry in the result


def number_nodes(root):
    out = []

    def walk(n):
        for k in n.kids:
            walk(k)
        n.id = len(out)
        out.append(n)

    walk(root)
    return out


# =======================================================================================
# the model: ordinary arithmetic on (value, dims, bare, err)
# =======================================================================================
class MV:
    __slots__ = ("v", "dims", "bare", "err", "zn")

    def __init__(self, v, dims, bare=False, err=0.0, zn=None):
        self.v, self.dims, self.bare, self.err, self.zn = v, dims, bare, err, zn


class Cx:
    """Arithmetic regime of one shard."""

    def __init__(self, mode):
        self.mode = mode
        self.exact = mode == "fraction"
        self.trunc = mode == "decimal"          # Decimal // and % truncate towards zero
        self.u = 0.0 if self.exact else (1e-27 if mode == "decimal" else 2.0 ** -53)
        self.cu = 0.0 if self.exact else REL[mode]
        self.array = mode == "ndarray"
        self.maxlog = 14          # decades allowed for the factor of a leaf unit in float runs


def ok(mv):
    return ("ok", mv)


def merr(kind):
    return ("err", kind)


def skip(why):
    return ("skip", why)


def _af(x):
    return abs(float(x))


def model_node(node, kids, cx, idx):
    """Outcome of one node for element `idx` given the outcomes of its children."""
    if not cx.exact and cx.mode != "decimal" and node.pmax > PMAX_FLOAT:
        return skip("float-range-unit-exponent-too-high")
    if node.kind == "leaf":
        lf = node.leaf
        if len(lf.vals) == 1:
            v = lf.vals[0]
        else:
            if lf.bvals is None or len(lf.bvals) <= idx:
                import numpy as np
                arr = np.empty(len(lf.vals), dtype=object)
                arr[:] = lf.vals
                lf.bvals = list(np.broadcast_to(arr.reshape(lf.shape), node.shape).flat)
            v = lf.bvals[idx]
        return ok(MV(v, lf.dims, False, _af(v) * cx.cu if not cx.exact else 0.0))
    if node.kind == "num":
        x = node.num
        if hasattr(x, "shape"):
            import numpy as np
            x = float(np.broadcast_to(x, node.shape if node.shape is not None else ()).flat[idx])
        if is_nan(x):
            return ok(MV(NAN, {}, True, 0.0, node.zn))
        return ok(MV(F(x), {}, True, 0.0, node.zn))
    for k in kids:
        if k[0] != "ok":
            return k if k[0] in ("err", "skip") else skip("non-arithmetic operand")
    if node.kind == "un":
        a = kids[0][1]
        if is_nan(a.v):
            return ok(MV(NAN, a.dims, a.bare, 0.0))
        v = -a.v if node.op == "neg" else abs(a.v)
        return ok(MV(v, a.dims, a.bare, a.err))
    a, b = kids[0][1], kids[1][1]
    op = node.op
    if op == "**" and node.kids[1].isarray and a.dims and not b.dims:
        return skip("array-exponent-on-dimensional-base-is-refused-by-design")
    r = _model_bin(op, a, b, cx)
    if r[0] == "ok" and not cx.exact and not cx.mode == "decimal":
        v = r[1].v
        if not is_nan(v) and v != 0 and not (1e-120 < _af(v) < 1e120):
            return skip("float-range")
    return r


def _zn(mv, cx):
    """Is the bare operand zero-or-NaN as a whole?  None = cannot tell (computed array)."""
    if mv.zn is not None:
        return mv.zn
    z = is_nan(mv.v) or mv.v == 0
    if cx.array and z:
        return None
    return z


def _model_bin(op, a, b, cx):
    nan = is_nan(a.v) or is_nan(b.v)
    if op in ("+", "-"):
        if a.bare and b.bare:
            dims, bare = {}, True
        elif a.bare != b.bare:
            q, n = (b, a) if a.bare else (a, b)
            z = _zn(n, cx)
            if z is None:
                return skip("computed-bare-zero-in-array")
            if not z and q.dims:
                return merr("dim")
            dims, bare = q.dims, False
        else:
            if a.dims != b.dims:
                return merr("dim")
            dims, bare = a.dims, False
        if nan:
            return ok(MV(NAN, dims, bare))
        v = a.v + b.v if op == "+" else a.v - b.v
        return ok(MV(v, dims, bare, a.err + b.err + cx.cu * (_af(a.v) + _af(b.v)) if not cx.exact else 0.0))
    if op == "*":
        dims = dadd(a.dims, b.dims)
        if nan:
            return ok(MV(NAN, dims, a.bare and b.bare))
        v = a.v * b.v
        e = 0.0
        if not cx.exact:
            e = _af(a.v) * b.err + _af(b.v) * a.err + a.err * b.err + cx.cu * _af(v)
        return ok(MV(v, dims, a.bare and b.bare, e))
    if op == "/":
        dims = dadd(a.dims, b.dims, -1)
        if is_nan(b.v):
            return ok(MV(NAN, dims, a.bare and b.bare))
        if not cx.exact and _af(b.v) <= 2 * K_TOL * b.err and b.err > 0:
            return skip("ill-conditioned-divisor")
        if b.v == 0:
            if nan and cx.mode == "decimal":
                return skip("decimal-nan-divided-by-zero-is-nan")
            return merr("zerodiv") if not cx.array else skip("array-division-by-zero")
        if nan:
            return ok(MV(NAN, dims, a.bare and b.bare))
        v = a.v / b.v
        e = 0.0
        if not cx.exact:
            fb = _af(b.v)
            e = (_af(a.v) * b.err + fb * a.err) / (fb * (fb - b.err)) + cx.cu * _af(v)
        return ok(MV(v, dims, a.bare and b.bare, e))
    if op in ("//", "%", "divmod"):
        if a.dims != b.dims:
            if getattr(cx, "context", None):
                # these operators convert the right operand with .to(), which honours active
                # contexts; the statement only demands refusal of + - and ordering
                return skip("floor-division-converts-through-the-active-context")
            return merr("any")
        if nan:
            return skip("nan-in-floor-division")
        if not cx.exact and _af(b.v) <= 2 * K_TOL * b.err and b.err > 0:
            return skip("ill-conditioned-divisor")
        if b.v == 0:
            return merr("zerodiv") if not cx.array else skip("array-division-by-zero")
        t = a.v / b.v
        if not cx.exact:
            fb = _af(b.v)
            et = (_af(a.v) * b.err + fb * a.err) / (fb * (fb - b.err)) + cx.cu * _af(t)
            if _af(t) > 2.0 ** 45:
                return skip("quotient-too-large-for-float")
            if _af(t - round(t)) <= 2 * K_TOL * et + 1e-300:
                return skip("floor-discontinuity")
        q = math.floor(t)
        if cx.trunc and t < 0 and q != t:
            q += 1
        r = a.v - b.v * q
        bare = a.bare and b.bare
        qv = MV(F(q), {}, bare, 0.0)
        re = 0.0
        if not cx.exact:
            re = a.err + abs(q) * b.err + cx.cu * (_af(a.v) + _af(b.v * q))
        rv = MV(r, a.dims, bare, re)
        if op == "//":
            return ok(qv)
        if op == "%":
            return ok(rv)
        return ("tuple", qv, rv)
    if op == "**":
        return _model_pow(a, b, cx)
    if op in CMPS:
        return _model_cmp(op, a, b, cx)
    raise AssertionError(op)


def _model_pow(a, b, cx):
    if b.dims:
        if not is_nan(b.v) and b.v == 0:
            return skip("pow-zero-dimensional-exponent")
        return merr("any")
    if is_nan(a.v) or is_nan(b.v):
        return skip("nan-in-power")
    ev = b.v
    bare = a.bare            # number ** quantity -> plain number; number ** number too
    if a.bare and not b.bare:
        dims = {}
    else:
        dims = dscale(a.dims, ev)
    integral = ev.denominator == 1
    if cx.exact:
        if not integral:
            return skip("non-integer-exponent-in-exact-run")
        n = int(ev)
        if a.v == 0 and n < 0:
            return merr("zerodiv")
        if abs(n) * (a.v.numerator.bit_length() + a.v.denominator.bit_length()) > 6000:
            return skip("power-too-large")
        return ok(MV(a.v ** n, dims, bare, 0.0))
    # inexact regimes
    if b.err > 0 and a.dims:
        return skip("inexact-exponent-on-dimensional-base")
    fa, fe = _af(a.v), float(ev)
    if fa > 0 and abs(fe) * (abs(math.log10(fa)) + cx.maxlog + 6) > 240:
        return skip("float-range")       # the magnitude in the operand's own units may overflow
    if cx.mode == "decimal" and ev == 0 and (a.v == 0 or _af(a.v) <= 2 * K_TOL * a.err):
        return skip("decimal-zero-to-the-zero-is-invalid-operation")
    if integral and b.err == 0:
        n = int(ev)
        if abs(n) > 64:
            return skip("power-too-large")
        if n < 0:
            if fa <= 2 * K_TOL * a.err and a.err > 0:
                return skip("ill-conditioned-divisor")
            if a.v == 0:
                if cx.mode == "decimal":
                    return skip("decimal-zero-to-negative-power-is-infinity")
                return merr("zerodiv") if not cx.array else skip("array-division-by-zero")
        try:
            v = a.v ** n
            # mean value theorem with the derivative taken at the unfavourable end (a difference of
            # two nearly equal floats would cancel to zero for Decimal-sized errors)
            if n == 0:
                bound = 0.0
            elif n > 0:
                bound = n * (fa + a.err) ** (n - 1) * a.err
            else:
                bound = -n * (fa - a.err) ** (n - 1) * a.err
            e = abs(bound) + cx.cu * max(1, abs(n)) * _af(v)
        except (OverflowError, ZeroDivisionError):
            return skip("float-range")
        return ok(MV(v, dims, bare, e))
    # real exponent: base must be safely positive
    if a.v <= 0 or fa - 2 * K_TOL * a.err <= 0:
        return skip("non-integer-power-of-non-positive-base")
    if cx.mode == "decimal":
        return skip("non-integer-exponent-in-decimal-run")
    try:
        res = fa ** fe
        bound = res * (abs(fe) * a.err / (fa - a.err) + abs(math.log(fa)) * b.err) * 2
        e = bound + cx.cu * (2 + abs(fe)) * res
        v = F(res)
    except (OverflowError, ZeroDivisionError, ValueError):
        return skip("float-range")
    return ok(MV(v, dims, bare, e + res * 4 * cx.u))


def _model_cmp(op, a, b, cx):
    nan = is_nan(a.v) or is_nan(b.v)
    if a.bare != b.bare:
        q, n = (b, a) if a.bare else (a, b)
        if q.dims:
            z = _zn(n, cx)
            if z is None:
                return skip("computed-bare-zero-in-array")
            if not z:
                if op == "==":
                    return ("bool", False)
                if op == "!=":
                    return ("bool", True)
                return merr("any")
    elif not a.bare and a.dims != b.dims:
        if op in ("==", "!=") and getattr(cx, "context", None):
            # == converts its operand with the active contexts (a wavelength can equal a frequency, and a
            # zero wavelength divides by zero in the hc/x rule): not judged here, ordering still is
            return skip("equality-converts-through-the-active-context")
        if op == "==":
            return ("bool", False)
        if op == "!=":
            return ("bool", True)
        return merr("dim")
    if nan:
        if cx.mode == "decimal" and op not in ("==", "!="):
            return skip("decimal-nan-ordering")
        return ("bool", op == "!=")
    d = a.v - b.v
    if not cx.exact:
        tol = 2 * K_TOL * (a.err + b.err + cx.cu * (_af(a.v) + _af(b.v)))
        if _af(d) <= tol and not (a.err == 0 and b.err == 0 and d == 0 and a.bare and b.bare):
            return skip("tie-within-rounding")
    return ("bool", PYOP[op](d, 0))


def model_tree(nodes, cx, nelem):
    """-> per node: list (one per element) of outcomes."""
    out = [None] * len(nodes)
    for n in nodes:
        res = []
        for i in range(nelem):
            kids = [out[k.id][i] for k in n.kids]
            try:
                res.append(model_node(n, kids, cx, i))
            except (OverflowError, ValueError):
                res.append(skip("float-range"))
        out[n.id] = res
    return out


# =======================================================================================
# unit pools and leaf generation
# =======================================================================================
class Pool:
    def __init__(self, m, ureg, names, rec, prefixes=True):
        from harness import gen
        self.m = m
        self.ureg = ureg
        good = []
        for c in names:
            try:
                if dict(ureg.Unit(c)._units._d) == {c: 1}:
                    good.append(c)
                else:
                    rec.count("pool_unit_spelling_dropped")
            except Exception:  # noqa: BLE001
                rec.count("pool_unit_spelling_dropped")
        self.names = good
        self.classes = {k: v for k, v in gen.dimension_classes(m, good).items()}
        self.class_keys = sorted(self.classes, key=lambda k: (-len(self.classes[k]), k))
        self.base = {}
        for k, v in self.classes.items():
            if len(k) == 1 and k[0][1] == 1:
                self.base[k[0][0]] = v
        self.dless = [c for c in self.classes.get((), []) if m.root(c)[0].v != 1] + \
                     [c for c in self.classes.get((), []) if m.root(c)[0].v == 1][:4]
        self.prefixes = sorted(m.prefixes) if prefixes else []
        self._pfx_ok = {}
        self._unit_cache = {}
        self._log = {}
        self.maxlog = 0          # set > 0 in inexact runs (decades allowed for a unit factor)

    def calibrate_float(self, rec):
        """Float registries only: drop units for which pint's own factor of unit**e is not the e-th
        power of its factor of unit (subnormal / overflowing intermediates in long chains)."""
        UC = self.ureg.UnitsContainer
        keep = []
        for c in self.names:
            good = True
            try:
                f0 = float(self.ureg.get_root_units(UC({c: 1}))[0])
                for e in (2, 3, 4, 6, int(PMAX_FLOAT), -1, -2, -3, -4, -6, -int(PMAX_FLOAT)):
                    want = f0 ** e
                    got = float(self.ureg.get_root_units(UC({c: e}))[0])
                    if not (1e-280 < abs(want) < 1e280) or abs(got / want - 1) > 1e-11:
                        good = False
                        break
            except Exception:  # noqa: BLE001
                good = False
            if good:
                keep.append(c)
            else:
                rec.count("pool_units_dropped_float_power_unreliable")
                rec.observe("float_power_unreliable_units", c)
        self.__init__(self.m, self.ureg, keep, rec, bool(self.prefixes))

    def spelled(self, rng, c, p_prefix=0.35):
        """canonical name, possibly with a prefix that both the model and pint read the same way."""
        if self.prefixes and rng.random() < p_prefix:
            p = rng.choice(self.prefixes)
            s = p + c
            okp = self._pfx_ok.get(s)
            if okp is None:
                try:
                    okp = self.m.resolve(s) == (p, c) and s not in self.m.spell \
                        and dict(self.ureg.Unit(s)._units._d) == {s: 1}
                except Exception:  # noqa: BLE001
                    okp = False
                self._pfx_ok[s] = okp
            if okp:
                return s
        return c

    def from_base(self, rng, dims, into):
        for d, e in dims.items():
            cands = self.base.get(d)
            if not cands:
                return False
            s = self.spelled(rng, rng.choice(cands))
            into[s] = into.get(s, 0) + F(e)
        return True

    def units_for(self, rng, dims, plain_ok=True):
        """A random units dict {spelling: exp} whose dimension vector is `dims`."""
        key = dkey(dims)
        for _ in range(8):
            out = {}
            r = rng.random()
            if key in self.classes and key != () and r < 0.55:
                out[self.spelled(rng, rng.choice(self.classes[key]))] = F(1)
            elif key == ():
                r2 = rng.random()
                if r2 < 0.25 and plain_ok:
                    pass
                elif r2 < 0.7 and self.dless:
                    out[self.spelled(rng, rng.choice(self.dless), 0.15)] = F(1)
                else:
                    k = rng.choice([k for k in self.class_keys[:12] if k != ()] or [()])
                    if k == ():
                        continue
                    a, b = rng.choice(self.classes[k]), rng.choice(self.classes[k])
                    sa, sb = self.spelled(rng, a), self.spelled(rng, b)
                    if sa == sb:
                        continue
                    out = {sa: F(1), sb: F(-1)}
            elif r < 0.75 or not dims:
                # a named unit of some class + the complement from base units
                k = rng.choice(self.class_keys[: max(6, len(self.class_keys) // 2)])
                if k == ():
                    if not self.from_base(rng, dims, out):
                        continue
                else:
                    c = self.spelled(rng, rng.choice(self.classes[k]))
                    e = F(rng.choice((1, 1, -1, 2)))
                    out[c] = e
                    rest = dadd(dims, dscale(dict(k), e), -1)
                    if sum(abs(v) for v in rest.values()) > 9 or not self.from_base(rng, rest, out):
                        out = {}
                        if not self.from_base(rng, dims, out):
                            continue
            else:
                if not self.from_base(rng, dims, out):
                    continue
            if self.dless and rng.random() < 0.12:
                s = self.spelled(rng, rng.choice(self.dless), 0.0)
                out[s] = out.get(s, 0) + F(rng.choice((1, -1)))
            out = {k2: v for k2, v in out.items() if v}
            if self.m.dimvec(out) != dims:
                raise AssertionError(("units_for produced wrong dims", out, dims))
            if self.maxlog and not self.in_range(out):
                continue
            return out
        for _ in range(30):
            out = {}
            if not self.from_base(rng, dims, out):
                raise LookupError("no unit for " + repr(dims))
            out = {k2: v for k2, v in out.items() if v}
            if not self.maxlog or self.in_range(out):
                return out
        out = {}
        for d, e in dims.items():            # last resort: the unit of each base dimension closest to 1
            cands = self.base.get(d)
            if not cands:
                raise LookupError("no unit for " + repr(dims))
            c = min(cands, key=lambda c2: abs(math.log10(abs(self.m.root(c2)[0].f()))))
            out[c] = out.get(c, 0) + F(e)
        return {k2: v for k2, v in out.items() if v}

    def in_range(self, units):
        """Inexact runs: keep every factor far from float overflow / underflow."""
        tot = 0.0
        for s2, e in units.items():
            lg = self._log.get(s2)
            if lg is None:
                lg = self._log[s2] = math.log10(abs(self.m.expand({s2: F(1)})[0].f()))
            part = lg * float(e)
            if abs(part) > self.maxlog:
                return False
            tot += part
        return abs(tot) <= self.maxlog

    def unit_obj(self, units):
        from harness import gen
        key = dkey(units)
        u = self._unit_cache.get(key)
        if u is None:
            u = self.ureg.Unit(gen.render_units(units) if units else "")
            got = {k: F(v) for k, v in u._units._d.items()}
            if got != {k: F(v) for k, v in units.items()}:
                raise AssertionError(("rendered units parsed differently", units, got))
            self._unit_cache[key] = u
        return u


SHAPES = {(2, 3): [(2, 3), (2, 3), (3,), (2, 1), (1, 3), None, ()],
          (3,): [(3,), (3,), (1,), None, ()],
          (2, 2): [(2, 2), (2, 2), (2,), None],
          (): [(), (), None]}


class TreeGen:
    def __init__(self, rng, pool, cx, depth, full_shape=None):
        self.rng, self.pool, self.cx, self.depth = rng, pool, cx, depth
        self.m = pool.m
        self.full = full_shape          # ndarray runs: the broadcast shape of the tree
        self.nelem = 1
        if full_shape is not None:
            self.nelem = 1
            for s in full_shape:
                self.nelem *= s
        self.nalts = 3

    # ---- values -------------------------------------------------------------------
    def value(self, small_int=False):
        rng = self.rng
        if small_int:
            return F(rng.choice((-2, -1, 0, 1, 2, 2, 3)))
        if rng.random() < 0.04:
            return F(0)
        sign = rng.choice((1, 1, 1, -1))
        return F(sign * rng.randint(1, 999), rng.choice((1, 1, 2, 4, 5, 8, 10, 25, 100, 7, 3)))

    def leaf(self, dims, small_int=False, scalar=False):
        rng, cx = self.rng, self.cx
        shape = None
        if self.full is not None and not scalar:
            shape = rng.choice(SHAPES[self.full])
        n = 1
        if shape:
            for s in shape:
                n *= s
        assigns, factors = [], []
        intkind = cx.mode in ("fraction", "float") and not shape and shape != () and rng.random() < 0.2
        for i in range(self.nalts + 1):
            for _ in range(20):
                u = self.pool.units_for(rng, dims, plain_ok=True)
                if u not in assigns:
                    break
            f = self.m.expand(u)[0]
            if f.v == 0:
                raise AssertionError
            assigns.append(u)
            factors.append(f)
        vals = []
        for _ in range(n):
            if intkind and not small_int:
                x0 = rng.randint(-20, 20)
                vals.append(F(x0) * F(factors[0].v))
            else:
                vals.append(self.value(small_int))
        if shape is not None and len(vals) > 1:
            # keep array leaves away from exact zero (division by zero gives inf, not an error)
            vals = [v if v != 0 else F(1, 3) for v in vals]
        return Node("leaf", leaf=Leaf(vals, shape, assigns, factors, dict(dims), intkind))

    def bare(self, kind=None, right=True):
        rng, cx = self.rng, self.cx
        if kind is None:
            kind = rng.choice(("int", "int", "frac", "zero", "zero", "nan", "one"))
        node = Node("num")
        if kind == "zero":
            x = rng.choice((0, F(0))) if cx.mode == "fraction" else \
                (rng.choice((0, Decimal(0))) if cx.mode == "decimal" else rng.choice((0, 0.0)))
            if cx.array and right and rng.random() < 0.4:
                import numpy as np
                x = np.zeros(self.full)
        elif kind == "nan":
            x = Decimal("NaN") if cx.mode == "decimal" else NAN
        elif kind == "one":
            x = 1
        elif kind == "int":
            x = rng.choice((-3, -2, -1, 2, 3, 5, 7, 10))
        else:
            fr = F(rng.choice((-7, -3, 1, 3, 5, 9)), rng.choice((2, 4, 8)))
            if cx.mode == "fraction":
                x = fr
            elif cx.mode == "decimal":
                x = Decimal(fr.numerator) / Decimal(fr.denominator)
            else:
                x = float(fr)
                if cx.array and right and rng.random() < 0.4:
                    import numpy as np
                    x = np.array([float(self.value() or 1) for _ in range(self.nelem)]).reshape(self.full)
        node.num = x
        if hasattr(x, "shape") and x.shape != ():
            node.zn = bool(((x == 0) | (x != x)).all())
        else:
            node.zn = bool(is_nan(x) or x == 0)
        return node

    # ---- static outcome of a subtree (element 0) -------------------------------------
    def outcome(self, node):
        nodes = number_nodes(node)
        self.set_shapes(nodes)
        return model_tree(nodes, self.cx, 1)[node.id][0]

    def set_shapes(self, nodes):
        for n in nodes:
            n.shape = self.full if self.full is not None else None
            if n.kind == "leaf":
                n.isarray = bool(n.leaf.shape) and len(n.leaf.vals) > 1
            elif n.kind == "num":
                n.isarray = hasattr(n.num, "shape") and getattr(n.num, "size", 1) > 1
            else:
                n.isarray = any(k.isarray for k in n.kids)
            # bound on unit exponents in the real result (float runs: pint's factor of a high power
            # of a long definition chain passes through subnormal intermediates, hbar**16 ...)
            if n.kind == "leaf":
                n.pmax = max([float(abs(e)) for u in n.leaf.assigns for e in u.values()] or [0.0])
            elif n.kind == "num":
                n.pmax = 0.0
            elif n.kind == "un":
                n.pmax = n.kids[0].pmax
            elif n.op in ("*", "/"):
                n.pmax = n.kids[0].pmax + n.kids[1].pmax
            elif n.op == "**":
                e = n.kids[1]
                if e.kind == "num" and not hasattr(e.num, "shape") and not is_nan(e.num):
                    k = abs(float(e.num))
                elif e.kind == "leaf":
                    k = max(abs(float(v)) for v in e.leaf.vals)
                else:
                    k = 3.0
                n.pmax = n.kids[0].pmax * max(k, 1.0)
            elif n.op == "//":
                n.pmax = 0.0
            else:
                n.pmax = max(k.pmax for k in n.kids)

    # ---- subtrees -------------------------------------------------------------------------
    def random_dims(self):
        rng = self.rng
        keys = self.pool.class_keys
        k = rng.choice(keys[: max(3, len(keys) // 3)]) if rng.random() < 0.8 else rng.choice(keys)
        return dict(k)

    def binop(self, op, l, r):
        if l.kind == "num" and hasattr(l.num, "shape"):
            # a bare ndarray on the left dispatches through numpy's ufunc protocol (C16)
            l.num = float(l.num.flat[0])
            l.zn = bool(is_nan(l.num) or l.num == 0)
        if l.kind == "num" and r.kind == "num":
            r = self.leaf({}, small_int=op == "**")       # number op number is Python's business
        n = Node("bin", op, [l, r])
        rng = self.rng
        x = rng.random()
        if op in IOP and x < 0.35:
            n.form = "inplace"
        elif op in RDUNDER and x < 0.6:
            n.form = "rdirect"
        return n

    def with_dims(self, dims, depth, small_int=False):
        """Subtree whose value has dimension vector `dims` (when everything goes well)."""
        rng = self.rng
        if depth <= 0 or rng.random() < 0.3 or small_int:
            if not dims and rng.random() < 0.25 and not small_int:
                return self.bare(rng.choice(("int", "frac", "one")))
            return self.leaf(dims, small_int)
        r = rng.random()
        if r < 0.3:
            a = self.with_dims(dims, depth - 1)
            if dims and rng.random() < 0.12:
                b = self.bare(rng.choice(("zero", "zero", "nan")))
                if rng.random() < 0.5:
                    a, b = b, a
            else:
                b = self.with_dims(dims, depth - 1)
            return self.binop(rng.choice("+-"), a, b)
        if r < 0.45:
            a = self.with_dims(dims, depth - 1)
            s = self.with_dims({}, depth - 1)
            op = rng.choice("*/")
            if op == "*" and rng.random() < 0.5:
                a, s = s, a
            return self.binop(op, a, s)
        if r < 0.6:
            x = self.sub(depth - 1)
            o = self.outcome(x)
            if o[0] != "ok":
                return self.leaf(dims)
            xd = o[1].dims
            if rng.random() < 0.5:
                y = self.with_dims(dadd(dims, xd), depth - 1)
                return self.binop("/", y, x)
            y = self.with_dims(dadd(dims, xd, -1), depth - 1)
            return self.binop("*", *( (x, y) if rng.random() < 0.5 else (y, x)))
        if r < 0.72:
            return self.binop("%", self.with_dims(dims, depth - 1), self.with_dims(dims, depth - 1))
        if r < 0.8 and not dims:
            d = self.random_dims()
            return self.binop("//", self.with_dims(d, depth - 1), self.with_dims(d, depth - 1))
        if r < 0.9:
            return Node("un", rng.choice(("neg", "abs")), [self.with_dims(dims, depth - 1)])
        return self.leaf(dims)

    def exponent(self, depth, base_dimensional):
        rng, cx = self.rng, self.cx
        r = rng.random()
        if cx.exact:
            if r < 0.5:
                n = Node("num")
                n.num = rng.choice((-2, -1, 0, 1, 2, 2, 3))
                if rng.random() < 0.2:
                    n.num = F(n.num)
                n.zn = n.num == 0
                return n
            if r < 0.9 or depth <= 0:
                return self.leaf({}, small_int=True, scalar=True)
            d = self.random_dims()
            k = rng.choice((-1, 2, 3))
            b = self.leaf(d, scalar=True)
            a = self.leaf(d, scalar=True)
            a.leaf.vals = [b.leaf.vals[0] * k]
            a.leaf.intkind = b.leaf.intkind = False
            if b.leaf.vals[0] == 0:
                return self.leaf({}, small_int=True, scalar=True)
            return self.binop("/", a, b)
        n = Node("num")
        if cx.mode == "decimal":
            n.num = rng.choice((-2, -1, 0, 1, 2, 3))
        else:
            n.num = rng.choice((-2, -1, 0, 1, 2, 3, 0.5, 1.5, -0.5, 2.0, 0.25) +
                               (() if cx.array else (F(1, 2), F(3, 2))))
        n.zn = n.num == 0
        if cx.array and not base_dimensional and r > 0.85:
            import numpy as np
            n.num = np.array([rng.choice((-1.0, 0.0, 1.0, 2.0, 3.0, 0.5)) for _ in range(self.nelem)]).reshape(self.full)
            n.zn = bool((n.num == 0).all())
            return n
        if not base_dimensional and r < 0.35 and cx.mode != "decimal":
            return self.leaf({}, small_int=rng.random() < 0.5, scalar=rng.random() < 0.6)
        return n

    def sub(self, depth):
        """Random arithmetic subtree of any dimension."""
        rng = self.rng
        if depth <= 0:
            return self.leaf(self.random_dims())
        r = rng.random()
        if r < 0.12:
            return self.leaf(self.random_dims())
        if r < 0.36:
            a = self.sub(depth - 1)
            b = self.partner(a, depth - 1)
            if rng.random() < 0.5:
                a, b = b, a
            return self.binop(rng.choice("+-"), a, b)
        if r < 0.58:
            a = self.sub(depth - 1)
            b = self.sub(depth - 1) if rng.random() < 0.7 else self.bare(rng.choice(("int", "frac", "zero", "one")))
            if rng.random() < 0.3:
                a, b = b, a
            return self.binop(rng.choice("*/"), a, b)
        if r < 0.76:
            a = self.sub(depth - 1)
            b = self.partner(a, depth - 1, allow_zero_bare=False)
            if rng.random() < 0.3:
                a, b = b, a
            return self.binop(rng.choice(("//", "%")), a, b)
        if r < 0.9:
            if rng.random() < 0.2:
                base = self.with_dims({}, depth - 1)
            elif rng.random() < 0.1:
                base = self.bare(rng.choice(("int", "frac")))
            else:
                base = self.sub(depth - 1)
            o = self.outcome(base)
            bd = bool(o[0] == "ok" and o[1].dims)
            e = self.exponent(depth - 1, bd)
            if rng.random() < 0.05:
                e = self.leaf(self.random_dims(), small_int=True, scalar=True)   # dimensional exponent
            if base.kind == "num" and e.kind == "num":
                e = self.leaf({}, small_int=True, scalar=True)
            return self.binop("**", base, e)
        return Node("un", rng.choice(("neg", "abs")), [self.sub(depth - 1)])

    def partner(self, a, depth, allow_zero_bare=True):
        """An operand to be added to / compared with / floor-divided by `a`."""
        rng = self.rng
        o = self.outcome(a)
        if o[0] != "ok":
            return self.sub(depth)
        dims = o[1].dims
        r = rng.random()
        if r < 0.1:
            d2 = self.random_dims()
            return self.leaf(d2)                      # most likely another dimension
        if r < 0.16:
            return self.bare(rng.choice(("int", "frac", "one")))
        if r < 0.24 and allow_zero_bare:
            return self.bare(rng.choice(("zero", "zero", "nan")))
        if not dims and r < 0.34:
            return self.bare(rng.choice(("int", "frac", "one")))
        return self.with_dims(dims, depth)

    def twin_leaf(self, a, same="value"):
        """A leaf with the same physical value as subtree `a` (same='value'), or - for a leaf `a` -
        the same *magnitude* in other units in the base assignment (same='magnitude')."""
        nodes = number_nodes(a)
        self.set_shapes(nodes)
        outs = model_tree(nodes, self.cx, self.nelem)[a.id]
        if any(o[0] != "ok" or is_nan(o[1].v) or o[1].bare for o in outs):
            return None
        dims = outs[0][1].dims
        try:
            b = self.leaf(dims, scalar=self.full is None)
        except LookupError:
            return None
        lf = b.leaf
        lf.intkind = False
        if self.full is not None:
            lf.shape = self.full
        if same == "value":
            lf.vals = [o[1].v for o in outs] if self.full is not None else [outs[0][1].v]
        else:
            if a.kind != "leaf" or not a.leaf.factors[0].exact or not lf.factors[0].exact:
                return None
            fa, fb = F(a.leaf.factors[0].v), F(lf.factors[0].v)
            vs = [o[1].v / fa * fb for o in outs]
            lf.vals = vs if self.full is not None else vs[:1]
        return b

    def tree(self):
        rng = self.rng
        d = rng.randint(1, self.depth)
        r = rng.random()
        if r < 0.3:
            a = self.sub(d - 1)
            r2 = rng.random()
            b = None
            if r2 < 0.25:
                b = self.twin_leaf(a, "value")          # physically equal, other units
            elif r2 < 0.4:
                b = self.twin_leaf(a, "magnitude")      # same number, other units
            if b is None:
                b = self.partner(a, d - 1)
            if rng.random() < 0.3:
                a, b = b, a
            root = self.binop(rng.choice(CMPS), a, b)
            root.form = "plain"
        elif r < 0.4:
            a = self.sub(d - 1)
            b = self.partner(a, d - 1, allow_zero_bare=False)
            if rng.random() < 0.3:
                a, b = b, a
            root = self.binop("divmod", a, b)
        else:
            root = self.sub(d)
        return root


# =======================================================================================
# real execution
# =======================================================================================
class Err:
    __slots__ = ("cls", "msg")

    def __init__(self, e):
        self.cls = err_class(e)
        try:                       # str() of a pint error can itself raise in a Fraction registry (D4)
            self.msg = (type(e).__name__ + ": " + str(e))[:200]
        except Exception:  # noqa: BLE001
            self.msg = type(e).__name__


def err_class(e):
    import decimal
    n = type(e).__name__
    if isinstance(e, (ZeroDivisionError, decimal.InvalidOperation, decimal.DivisionByZero)):
        return "ZeroDivision"
    if isinstance(e, OverflowError):
        return "Overflow"
    return n


class Runner:
    """Evaluates trees on the real registry and decides every node."""

    def __init__(self, ureg, pint, pool, cx, rec, spec):
        self.ureg, self.pint, self.pool, self.cx, self.rec, self.spec = ureg, pint, pool, cx, rec, spec
        self.Q = ureg.Quantity
        self.fields = dict(mode=cx.mode, auto_reduce=bool(spec.get("auto_reduce")),
                           registry="generated" if spec.get("generated") else "default")
        from harness import monitors
        self.fp = monitors.fp

    # ---- leaves ------------------------------------------------------------------------
    def make_leaf(self, lf, k):
        cx = self.cx
        f = lf.factors[k]
        xs = []
        for v in lf.vals:
            x = v / F(f.v) if f.exact else F(float(v) / f.f())
            xs.append(x)
        if cx.mode == "fraction":
            mag = xs[0]
            if lf.intkind and mag.denominator == 1:
                mag = int(mag)
        elif cx.mode == "decimal":
            mag = Decimal(xs[0].numerator) / Decimal(xs[0].denominator)
        elif lf.shape is None:
            mag = float(xs[0])
            if lf.intkind and xs[0].denominator == 1 and abs(xs[0]) < 2 ** 40:
                mag = int(xs[0])
        else:
            import numpy as np
            mag = np.array([float(x) for x in xs], dtype=float).reshape(lf.shape)
        return self.Q(mag, self.pool.unit_obj(lf.assigns[k]))

    # ---- normal form -------------------------------------------------------------------------
    def norm(self, obj):
        if isinstance(obj, Err):
            return ("err", obj.cls, obj.msg)
        if isinstance(obj, tuple):
            return ("tuple",) + tuple(self.norm(x) for x in obj)
        if isinstance(obj, self.Q):
            try:
                r = obj.to_root_units()
                dims = {k: F(v) for k, v in obj.dimensionality.items()}
                frac = any(F(v).denominator != 1 for v in obj._units._d.values())
                if not self.cx.exact and (self._extreme(obj._magnitude) or self._extreme(r._magnitude)):
                    return ("normskip", "extreme-float")
                return ("ok", r._magnitude, dims, False, frac)
            except OverflowError:
                return ("normskip", "Overflow")
            except Exception as e:  # noqa: BLE001
                if isinstance(e, ValueError) and "'inf'" in str(e):
                    # a fractional unit exponent (after auto-reduction) makes the root factor a
                    # float, which overflowed: Fraction('inf') - float range, as OverflowError
                    return ("normskip", "Overflow")
                return ("normfail", type(e).__name__ + ": " + str(e)[:120])
        if type(obj).__name__ in ("bool", "bool_"):
            return ("bool", bool(obj))
        if hasattr(obj, "dtype") and obj.dtype == bool:
            return ("bool", obj)
        if obj is NotImplemented:
            return ("err", "NotImplemented", "NotImplemented")
        return ("ok", obj, {}, True, False)

    def _extreme(self, mag):
        """inf / denormal-range magnitudes: float overflow or underflow happened on the way."""
        if self.cx.mode == "decimal":
            try:
                return not mag.is_finite() and not mag.is_nan()
            except AttributeError:
                return False
        try:
            if hasattr(mag, "shape"):
                import numpy as np
                a = np.abs(np.asarray(mag, dtype=float))
                return bool(np.any(np.isinf(a)) or np.any((a != 0) & (a < 1e-250)) or np.any(a > 1e250))
            a = abs(float(mag))
            return a == math.inf or (a != 0 and a < 1e-250) or a > 1e250
        except (TypeError, ValueError, OverflowError):
            return False

    def kind_of(self, obj):
        if isinstance(obj, Err):
            return "err"
        if isinstance(obj, self.Q):
            m = obj._magnitude
            t = type(m).__name__
            if not obj._units:
                return "q:unitless/" + t
            try:
                dl = obj.dimensionless
            except Exception:  # noqa: BLE001
                dl = False
            return ("q:dimensionless-units/" if dl else "q:dimensional/") + t
        if hasattr(obj, "shape") and getattr(obj, "shape", ()) != ():
            z = bool(((obj == 0) | (obj != obj)).all())
            return "n:zero-array" if z else "n:array"
        if is_nan(obj):
            return "n:nan"
        if obj == 0:
            return "n:zero/" + type(obj).__name__
        return "n:" + type(obj).__name__

    def relation(self, l, r):
        if isinstance(l, self.Q) and isinstance(r, self.Q):
            if l._units == r._units:
                return "same-units"
            try:
                return "same-dim" if l.dimensionality == r.dimensionality else "diff-dim"
            except Exception:  # noqa: BLE001
                return "?"
        return "number-operand"

    # ---- one operator ------------------------------------------------------------------------
    def apply(self, node, l, r, formed):
        """-> (result or Err, form label actually used)."""
        op, Q, rec = node.op, self.Q, self.rec
        form = node.form if formed else "plain"
        lq, rq = isinstance(l, Q), isinstance(r, Q)
        if not lq and rq:
            form = "reflected"
        elif not lq and not rq:
            form = "numbers"
        elif form == "rdirect" and not (lq and rq):
            form = "plain"
        if form == "inplace" and self.cx.array:
            import numpy as np
            sl = np.shape(l._magnitude)
            sr = np.shape(r._magnitude if rq else r)
            try:
                if np.broadcast_shapes(sl, sr) != sl or not isinstance(l._magnitude, np.ndarray):
                    if isinstance(l._magnitude, np.ndarray):
                        form = "plain"          # numpy cannot broadcast the output operand
                        rec.count("inplace_not_broadcastable_used_plain")
            except ValueError:
                pass
        if not lq and rq and hasattr(l, "shape"):
            # a bare ndarray / numpy scalar on the left is dispatched by numpy's ufunc protocol: C16
            e = Err(TypeError("bare numpy left operand"))
            e.cls = "__skip__"
            return e, "reflected"
        fl, fr = self.fp(l), self.fp(r)
        rec.count("operand_snapshots", 2)
        tgt = None
        try:
            if form == "inplace":
                tgt = copy.copy(l)
                res = IOP[op](tgt, r)
                rec.count("inplace_ops")
            elif form == "rdirect":
                res = getattr(r, RDUNDER[op])(l)
                if res is NotImplemented:
                    rec.count("rdirect_not_implemented")
                    form = "plain"
                    res = PYOP[op](l, r)
                else:
                    rec.count("rdirect_ops")
            else:
                res = PYOP[op](l, r)
                if form == "reflected":
                    rec.count("reflected_ops")
        except Exception as e:  # noqa: BLE001
            res = Err(e)
        changed = []
        if self.fp(l) != fl:
            changed.append("left")
        if self.fp(r) != fr:
            changed.append("right")
        if changed:
            rec.violation("operand-mutated",
                          {"op": op, "form": form, "which": changed, "left_before": repr(fl)[:200],
                           "right_before": repr(fr)[:200], "left_after": repr(self.fp(l))[:200],
                           "right_after": repr(self.fp(r))[:200]},
                          op=op, form=form, lkind=self.kind_of(l), rkind=self.kind_of(r),
                          which="+".join(changed), **self.fields)
        return res, form

    def run(self, nodes, k, formed):
        """Evaluate under unit assignment k.  -> (objs, norms, forms, leaves_ok)."""
        objs = [None] * len(nodes)
        forms = [""] * len(nodes)
        leaves = []
        for n in nodes:
            if n.kind == "leaf":
                q = self.make_leaf(n.leaf, k)
                leaves.append((q, self.fp(q)))
                objs[n.id] = q
            elif n.kind == "num":
                objs[n.id] = n.num
            else:
                kids = [objs[c.id] for c in n.kids]
                bad = next((x for x in kids if isinstance(x, Err)), None)
                if bad is not None:
                    objs[n.id] = bad
                    forms[n.id] = "not-executed"
                    continue
                if any(isinstance(x, tuple) or isinstance(x, bool) for x in kids):
                    objs[n.id] = Err(TypeError("non-arithmetic operand"))
                    continue
                if n.kind == "un":
                    try:
                        objs[n.id] = -kids[0] if n.op == "neg" else abs(kids[0])
                    except Exception as e:  # noqa: BLE001
                        objs[n.id] = Err(e)
                    forms[n.id] = "unary"
                else:
                    objs[n.id], forms[n.id] = self.apply(n, kids[0], kids[1], formed)
        for q, f0 in leaves:
            self.rec.count("operand_snapshots")
            if self.fp(q) != f0:
                self.rec.violation("operand-mutated", {"leaf_before": repr(f0)[:300], "leaf_after": repr(self.fp(q))[:300]},
                                   op="(tree)", form="any", lkind=self.kind_of(q), rkind="-", which="leaf",
                                   **self.fields)
        norms = [self.norm(o) for o in objs]
        return objs, norms, forms


# =======================================================================================
# comparison of a real normal form with the model / with another run
# =======================================================================================
def _flat(x, shape):
    import numpy as np
    return list(np.broadcast_to(np.asarray(x), shape).flat)


def _as_fraction(x):
    if isinstance(x, F):
        return x
    if isinstance(x, (int,)):
        return F(x)
    if isinstance(x, Decimal):
        return F(x)
    return F(float(x))


def value_matches(real, mv, cx, float_leak, fracunits=False):
    """-> 'eq' | 'tol' | 'leak' | None (mismatch)."""
    if is_nan(mv.v):
        return "eq" if is_nan(real) else None
    if is_nan(real):
        return None if cx.exact or cx.mode == "decimal" else "underflow"     # inf * 0 inside a factor
    if cx.exact:
        if isinstance(real, float) or type(real).__name__.startswith("float"):
            if fracunits:
                return "leak"
            if not float_leak:
                return "eq" if (math.isfinite(real) and F(real) == mv.v) else None
            if not math.isfinite(real):
                return None
            d = abs(F(real) - mv.v)
            return "leak" if d <= F(1, 10 ** 12) * max(abs(mv.v), F(1, 10 ** 30)) else None
        if real == mv.v:
            return "eq"
        if fracunits:
            # auto_reduce_dimensions produced units with fractional exponents (foot * barn ->
            # barn**(3/2)); the factor contains an irrational root computed in floating point
            # (and (6.4e-14) ** (145/6) is subnormal: no bound on the error can be stated)
            return "leak"
        return None
    try:
        rf = _as_fraction(real)
    except (OverflowError, ValueError):
        return None
    d = abs(rf - mv.v)
    if d == 0:
        return "eq"
    bound = K_TOL * mv.err
    if float(d) <= bound + 1e-300:
        return "tol"
    if real == 0 and cx.mode != "decimal":
        return "underflow"          # h ** 10 style underflow inside a conversion factor
    return None


class Decider:
    def __init__(self, runner, gen, rec, cx):
        self.r, self.g, self.rec, self.cx = runner, gen, rec, cx

    def node_desc(self, nodes, n, objs, forms):
        r = self.r
        if n.kind == "bin":
            l, rr = objs[n.kids[0].id], objs[n.kids[1].id]
            return dict(op=n.op, form=forms[n.id], lkind=r.kind_of(l), rkind=r.kind_of(rr),
                        rel=r.relation(l, rr))
        if n.kind == "un":
            return dict(op=n.op, form="unary", lkind=r.kind_of(objs[n.kids[0].id]), rkind="-", rel="-")
        return dict(op=n.kind, form="-", lkind=r.kind_of(objs[n.id]), rkind="-", rel="-")

    def decide_against_model(self, tree, nodes, model, k, formed, objs, norms, forms, status):
        """status[node.id] in {'ok','bad','skip'}: filled here.  Reports the deepest bad node."""
        rec, cx = self.rec, self.cx
        nel = self.g.nelem
        full = self.g.full if self.g.full is not None else ()
        ftaint = [False] * len(nodes)
        for n in nodes:
            nmn = norms[n.id]
            own = nmn[0] == "ok" and len(nmn) > 4 and nmn[4]
            if nmn[0] == "tuple":
                own = any(x[0] == "ok" and len(x) > 4 and x[4] for x in nmn[1:])
            # units with fractional exponents (auto_reduce_dimensions: foot * barn -> barn**1.5) put an
            # irrational factor, computed in floating point, into this result and everything above it
            ftaint[n.id] = bool(own or any(ftaint[c.id] for c in n.kids))
            tree["frac_taint"] = ftaint[n.id]
            kid_status = [status[c.id] for c in n.kids]
            if "bad" in kid_status:
                status[n.id] = "bad"
                continue
            if "skip" in kid_status or "skipz" in kid_status:
                status[n.id] = "skipz" if "skip" not in kid_status else "skip"
                continue
            if n.kind == "num":
                status[n.id] = "ok"
                continue
            mo = model[n.id]
            nm = norms[n.id]
            desc = self.node_desc(nodes, n, objs, forms)
            if n.kind in ("bin", "un") and forms[n.id] != "not-executed":
                rec.observe("op_kinds", f"{desc['op']}|{desc['lkind']}|{desc['rkind']}")
            # errors inherited from a child are decided at the child
            if forms[n.id] == "not-executed":
                status[n.id] = "ok"
                continue
            kinds = {o[0] for o in mo}
            if "skip" in kinds:
                why = next(o[1] for o in mo if o[0] == "skip")
                rec.count("undecided:" + why)
                status[n.id] = "skipz" if why == "pow-zero-dimensional-exponent" else "skip"
                continue
            if nm[0] == "normskip":
                rec.count("undecided:overflow-or-underflow-in-floats")
                status[n.id] = "skip"
                continue
            if nm[0] == "err" and nm[1] == "__skip__":
                rec.count("undecided:bare-numpy-left-operand-is-C16")
                status[n.id] = "skip"
                continue
            if forms[n.id] == "numbers" and nm[0] == "err" and mo[0][0] != "err":
                # no quantity among the operands: the error is Python's own number arithmetic
                # (divmod(float, Decimal) after int ** -int gave a float), pint is not involved
                rec.count("undecided:python-number-arithmetic-raised")
                status[n.id] = "skip"
                continue
            if len(kinds) != 1:
                # data dependent outcome classes inside one array (e.g. zero division): skip
                rec.count("undecided:mixed-outcome-classes-in-array")
                status[n.id] = "skip"
                continue
            mk = kinds.pop()
            verdict = self._one(n, mo, mk, nm, full, nel, tree)
            outcome = nm[0] if nm[0] != "err" else "err:" + nm[1]
            if n.kind in ("bin", "un"):
                rec.observe("op_form_outcome", f"{desc['op']}|{desc['form']}|{outcome}")
            if verdict is None:
                status[n.id] = "ok"
                rec.count("nodes_decided_by_model" if n.kind != "leaf" else "leaves_checked_against_model")
                continue
            if verdict[0] == "skip":
                status[n.id] = "skip"
                rec.count("undecided:" + verdict[1])
                continue
            status[n.id] = "bad"
            mech, detail = verdict
            expected = mk if mk != "err" else "err:" + mo[0][1]
            rec.violation(mech, self.witness(tree, nodes, n, k, formed, detail, nm, mo),
                          expected=expected, got=outcome, **desc, **self.r.fields)

    def _one(self, n, mo, mk, nm, full, nel, tree):
        rec, cx = self.rec, self.cx
        if mk == "err":
            want = mo[0][1]
            if nm[0] != "err":
                return ("error-expected-but-result-returned", {"expected": want})
            if want == "dim":
                if nm[1] != "DimensionalityError":
                    return ("wrong-error-class", {"expected": "DimensionalityError", "got": nm[1]})
                rec.count("dimerr_expected_and_raised")
                if n.op in ("+", "-") and any(c.kind == "num" or True for c in n.kids):
                    pass
            elif want == "zerodiv":
                if nm[1] == "Overflow":
                    return ("skip", "overflow")
                if nm[1] != "ZeroDivision":
                    return ("wrong-error-class", {"expected": "ZeroDivisionError", "got": nm[1]})
                rec.count("zerodiv_expected_and_raised")
            else:
                rec.count("error_expected_and_raised")
            return None
        if nm[0] == "err":
            if nm[1] == "Overflow":
                # OverflowError only comes from Python's float conversion of a huge number
                # (Fraction + nan, Fraction ** (1/3) after auto_reduce): a limit of floats
                return ("skip", "overflow")
            return ("unexpected-error", {"got": nm[1], "message": nm[2]})
        if nm[0] == "normfail":
            return ("result-not-normalisable", {"error": nm[1]})
        if mk == "bool":
            if nm[0] != "bool":
                return ("comparison-result-not-boolean", {"got": nm[0]})
            got = nm[1]
            if hasattr(got, "shape"):
                try:
                    gl = [bool(x) for x in _flat(got, full)]
                except ValueError:
                    return ("result-shape", {"shape": repr(got.shape)})
            else:
                gl = [bool(got)] * nel
            want = [o[1] for o in mo]
            if gl != want:
                return ("comparison-disagrees-with-model", {"got": repr(gl), "want": repr(want)})
            return None
        if mk == "tuple":
            if nm[0] != "tuple" or len(nm) != 3:
                return ("divmod-result-not-a-pair", {"got": nm[0]})
            for j, part in ((1, "quotient"), (2, "remainder")):
                v = self._value(nm[j], [o[j] for o in mo], full, nel, tree)
                if v is not None:
                    if v[0] == "skip":
                        return v
                    return (v[0] + ":" + part, v[1])
            return None
        if nm[0] != "ok":
            return ("result-kind", {"got": nm[0], "want": mk})
        return self._value(nm, [o[1] for o in mo], full, nel, tree)

    def _value(self, nm, mvs, full, nel, tree):
        rec, cx = self.rec, self.cx
        if nm[0] == "err":
            return ("unexpected-error", {"got": nm[1], "message": nm[2]})
        if nm[0] == "normskip":
            return ("skip", "overflow-in-normal-form")
        if nm[0] != "ok":
            return ("result-kind", {"got": nm[0]})
        _, mag, dims, bare, fracunits = nm
        fracunits = fracunits or tree.get("frac_taint", False)
        mv0 = mvs[0]
        if dims != mv0.dims:
            if not cx.exact and all(abs(dims.get(k2, 0) - mv0.dims.get(k2, 0)) < F(1, 10 ** 9)
                                    for k2 in set(dims) | set(mv0.dims)):
                # float exponent arithmetic (x ** 1.37 on compound units) leaves 1e-16 residues in
                # the dimensionality; ancestors may legitimately refuse such operands
                return ("skip", "float-rounded-dimension-exponent")
            return ("result-dimension-differs-from-model",
                    {"got": {k: str(v) for k, v in dims.items()}, "want": {k: str(v) for k, v in mv0.dims.items()}})
        if bare != mv0.bare:
            return ("result-type-quantity-vs-number", {"got_bare": bare, "want_bare": mv0.bare})
        if hasattr(mag, "shape") and mag.shape != ():
            try:
                reals = _flat(mag, full)
            except ValueError:
                return ("result-shape", {"shape": repr(mag.shape)})
        else:
            if hasattr(mag, "shape"):
                mag = mag[()] if hasattr(mag, "__getitem__") else mag
            reals = [mag] * nel
        leak_seen = False
        for real, mv in zip(reals, mvs):
            how = value_matches(real, mv, cx, tree["float_excuse"], fracunits)
            if how is None:
                return ("result-value-differs-from-model",
                        {"got": repr(real)[:80], "want": str(mv.v)[:80], "err_bound": mv.err})
            if how == "eq":
                rec.count("nodes_exact_equal")
            elif how == "leak":
                leak_seen = True
            elif how == "underflow":
                return ("skip", "float-underflow-to-zero")
            if how == "tol" and mv.err > 0:
                try:
                    rec.maximum("max_error_over_propagated_bound_" + cx.mode,
                                abs(float(_as_fraction(real) - mv.v)) / mv.err)
                except Exception:  # noqa: BLE001
                    pass
        if leak_seen:
            if fracunits:
                rec.count("exact_run_fractional_unit_exponent_after_reduction")
                return ("skip", "fractional-unit-exponent-after-reduction")
            rec.count("exact_run_float_from_int_arithmetic")
            return ("skip", "float-from-int-arithmetic")
        return None

    # ---- run vs run ------------------------------------------------------------------------------
    def compare_runs(self, tree, nodes, model, base, other, what, k, status_base, status_other):
        """base/other = (objs, norms, forms).  First diverging node is reported."""
        rec, cx = self.rec, self.cx
        full = self.g.full if self.g.full is not None else ()
        nel = self.g.nelem
        agree = [True] * len(nodes)
        for n in nodes:
            if not all(agree[c.id] for c in n.kids):
                agree[n.id] = False
                continue
            if n.kind in ("leaf", "num"):
                continue
            if status_base[n.id] == "bad" or status_other[n.id] == "bad":
                agree[n.id] = False          # already reported against the model
                continue
            if "skip" in (status_base[n.id], status_other[n.id]):
                rec.count(what + "_nodes_undecided")     # undecidable for one of the runs (see undecided:*)
                agree[n.id] = False
                continue
            a, b = base[1][n.id], other[1][n.id]
            v = self._same(a, b, model[n.id], full, nel)
            if v == "skip":
                rec.count(what + "_nodes_undecided")
                agree[n.id] = False
                continue
            rec.count(what + "_nodes_compared")
            if v is None:
                continue
            agree[n.id] = False
            desc = self.node_desc(nodes, n, other[0], other[2])
            rec.violation(what + "-mismatch:" + v,
                          self.witness(tree, nodes, n, k, what == "form", {"base": _short(a), "other": _short(b)},
                                       b, model[n.id]),
                          **desc, **self.r.fields)

    def _same(self, a, b, mo, full, nel):
        cx = self.cx
        if "normskip" in (a[0], b[0]) or "normfail" in (a[0], b[0]):
            return "skip"
        if a[0] == "err" or b[0] == "err":
            if a[0] == b[0]:
                if a[1] == b[1] or "Overflow" in (a[1], b[1]):
                    return None
                return "error-class"
            if (a[0] == "err" and a[1] == "Overflow") or (b[0] == "err" and b[1] == "Overflow"):
                return "skip"
            if any(o[0] == "skip" for o in mo):
                return "skip"
            return "error-vs-result"
        if a[0] != b[0]:
            return "result-kind"
        if any(o[0] == "skip" for o in mo):
            if cx.exact and all(o[1] == "pow-zero-dimensional-exponent" for o in mo if o[0] == "skip"):
                pass
            else:
                return "skip"
        if a[0] == "bool":
            la = [bool(x) for x in _flat(a[1], full)] if hasattr(a[1], "shape") else [bool(a[1])] * nel
            lb = [bool(x) for x in _flat(b[1], full)] if hasattr(b[1], "shape") else [bool(b[1])] * nel
            return None if la == lb else "value"
        if a[0] == "tuple":
            for j in (1, 2):
                mj = [(o[0], o[j]) if o[0] == "tuple" else o for o in mo]
                v = self._same(a[j], b[j], [("ok", o[1]) if o[0] == "tuple" else o for o in mj], full, nel)
                if v is not None:
                    return v
            return None
        if a[2] != b[2]:
            return "dimension"
        if a[3] != b[3]:
            return "quantity-vs-number"
        try:
            ra = _flat(a[1], full) if hasattr(a[1], "shape") and a[1].shape != () else [a[1]] * nel
            rb = _flat(b[1], full) if hasattr(b[1], "shape") and b[1].shape != () else [b[1]] * nel
        except ValueError:
            return "shape"
        for i, (x, y) in enumerate(zip(ra, rb)):
            if is_nan(x) or is_nan(y):
                if is_nan(x) and is_nan(y):
                    continue
                return "value"
            if cx.exact:
                if isinstance(x, float) or isinstance(y, float):
                    fx, fy = F(x), F(y)
                    if abs(fx - fy) > F(1, 10 ** 12) * max(abs(fx), abs(fy), F(1, 10 ** 30)):
                        return "value"
                elif x != y:
                    return "value"
            else:
                o = mo[i] if i < len(mo) else mo[0]
                if o[0] != "ok":
                    return "skip"
                try:
                    d = abs(_as_fraction(x) - _as_fraction(y))
                except (OverflowError, ValueError):
                    return "skip"
                if float(d) > 2 * K_TOL * o[1].err + 1e-300:
                    return "value"
        return None

    # ---- witnesses ----------------------------------------------------------------------------------
    def witness(self, tree, nodes, n, k, formed, detail, nm, mo):
        return {"node": render(n, k, formed, self.cx, only_ops=False),
                "tree": render(nodes[-1], k, formed, self.cx)[:900],
                "assignment": k, "formed_run": bool(formed),
                "detail": detail, "real": _short(nm), "model": _short_model(mo[0]),
                "registry": dict(self.r.fields),
                **({"definitions": self.r.spec["definitions"]} if self.r.spec.get("definitions") else {})}


def _short(nm):
    if nm[0] == "ok":
        return {"value": repr(nm[1])[:120], "dims": {k: str(v) for k, v in nm[2].items()}, "bare": nm[3]}
    if nm[0] == "tuple":
        return [_short(x) for x in nm[1:]]
    return [repr(x)[:160] for x in nm]


def _short_model(o):
    if o[0] == "ok":
        return {"value": str(o[1].v)[:120], "dims": {k: str(v) for k, v in o[1].dims.items()},
                "bare": o[1].bare, "err": o[1].err}
    if o[0] == "tuple":
        return [_short_model(("ok", o[1])), _short_model(("ok", o[2]))]
    return list(o)


def _mag_repr(lf, k, cx):
    f = lf.factors[k]
    xs = [v / F(f.v) if f.exact else F(float(v) / f.f()) for v in lf.vals]
    if cx.mode == "fraction":
        s = [("%d" % x) if (lf.intkind and x.denominator == 1) else f"F({x.numerator},{x.denominator})" for x in xs]
    elif cx.mode == "decimal":
        s = [f"D({x.numerator})/D({x.denominator})" for x in xs]
    else:
        s = [repr(int(x)) if (lf.intkind and lf.shape is None and x.denominator == 1) else repr(float(x)) for x in xs]
    if lf.shape is None:
        return s[0]
    return f"np.array([{', '.join(s)}]).reshape({lf.shape})"


def render(n, k, formed, cx, only_ops=True):
    from harness import gen
    if n.kind == "leaf":
        return f"Q({_mag_repr(n.leaf, k, cx)}, '{gen.render_units(n.leaf.assigns[k]) if n.leaf.assigns[k] else ''}')"
    if n.kind == "num":
        return repr(n.num).replace("Fraction", "F").replace("Decimal", "D").replace("\n", "")
    if n.kind == "un":
        return ("-" if n.op == "neg" else "abs") + "(" + render(n.kids[0], k, formed, cx) + ")"
    a, b = (render(c, k, formed, cx) for c in n.kids)
    form = n.form if formed else "plain"
    if n.kids[0].kind == "num":
        form = "plain"
    if n.op == "divmod":
        return f"({b}).__rdivmod__({a})" if form == "rdirect" else f"divmod({a}, {b})"
    if form == "inplace":
        return f"i{IOP[n.op].__name__[1:]}(copy({a}), {b})"
    if form == "rdirect":
        return f"({b}).{RDUNDER[n.op]}({a})"
    return f"({a} {n.op} {b})"


def structure(n, k):
    """Content key of a tree under assignment k (for distinct counting)."""
    if n.kind == "leaf":
        return ("L", dkey(n.leaf.assigns[k]), n.leaf.shape)
    if n.kind == "num":
        return ("N", type(n.num).__name__, n.zn)
    return (n.op, n.form) + tuple(structure(c, k) for c in n.kids)


# =======================================================================================
# line observer on the anchored functions (sys.monitoring; each location fires once)
# =======================================================================================
def install_line_observer(pint):
    import sys
    mon = getattr(sys, "monitoring", None)
    if mon is None:
        return None
    from pint.facets.plain.quantity import PlainQuantity

    codes = {}

    def dig(f, depth=0):
        if depth > 4 or f is None:
            return
        code = getattr(f, "__code__", None)
        if code is not None and code.co_filename.endswith("quantity.py"):
            if code.co_name in ANCHORED:
                codes[code.co_name] = code
            for cell in (getattr(f, "__closure__", None) or ()):
                try:
                    c = cell.cell_contents
                except ValueError:
                    continue
                if callable(c):
                    dig(c, depth + 1)

    for name, val in vars(PlainQuantity).items():
        if callable(val):
            dig(val)
    tool = mon.COVERAGE_ID
    try:
        mon.use_tool_id(tool, "verif-c03")
    except ValueError:
        return None
    seen = set()

    def cb(code, line):
        seen.add((code.co_name, line))
        return mon.DISABLE

    mon.register_callback(tool, mon.events.LINE, cb)
    total = set()
    for name, code in codes.items():
        mon.set_local_events(tool, code, mon.events.LINE)
        first = code.co_firstlineno
        for _, _, ln in code.co_lines():
            if ln and ln != first:
                total.add((name, ln))
    return seen, total


# =======================================================================================
# workloads
# =======================================================================================
def evaluate_tree(root, g, runner, decider, rec, cx, ti, label):
    nodes = number_nodes(root)
    g.set_shapes(nodes)
    model = model_tree(nodes, cx, g.nelem)
    has_int = any((n.kind == "leaf" and n.leaf.intkind) or
                  (n.kind == "num" and isinstance(n.num, int)) or
                  (n.kind == "bin" and n.op in ("//", "divmod")) for n in nodes)
    # Python's own Fraction.__pow__ answers float(a) ** b for an operand type it does not know,
    # so `Fraction ** Quantity` reaches __rpow__ with a float
    frac_pow = any(n.kind == "bin" and n.op == "**" and model[n.kids[0].id][0][0] == "ok"
                   and model[n.kids[0].id][0][1].bare for n in nodes)
    tree = {"float_excuse": bool(has_int or frac_pow)}
    nleaf = sum(1 for n in nodes if n.kind == "leaf")
    nalts = g.nalts if nleaf else 0
    # a zero-dimensional-exponent node is undecided by the model but still compared run-to-run
    for n in nodes:
        for o in model[n.id]:
            if o[0] == "skip" and o[1] == "pow-zero-dimensional-exponent":
                rec.count("pow_zero_dimensional_exponent")
                break
    runs = []
    for k in range(nalts + 1):
        for formed in ((False, True) if k == 0 else (bool((ti + k) % 2),)):
            try:
                objs, norms, forms = runner.run(nodes, k, formed)
            except AssertionError:
                raise
            status = [None] * len(nodes)
            for n in nodes:
                if n.kind in ("leaf", "num"):
                    status[n.id] = "ok"
            decider.decide_against_model(tree, nodes, model, k, formed, objs, norms, forms, status)
            nontrivial = any(
                n.kind == "bin" and forms[n.id] not in ("not-executed", "") and
                runner.relation(objs[n.kids[0].id], objs[n.kids[1].id]) in ("same-dim", "number-operand", "diff-dim")
                for n in nodes)
            rec.case((label, structure(root, k), formed), nontrivial=nontrivial)
            runs.append((k, formed, (objs, norms, forms), status))
    base = runs[0]
    for k, formed, run, status in runs[1:]:
        what = "form" if k == 0 else "variant"
        decider.compare_runs(tree, nodes, model, base[2], run, what, k, base[3], status)
    # the statement's named clauses, counted on the base run
    for n in nodes:
        if n.kind == "bin" and n.op in ("+", "-") and base[2][2][n.id] not in ("not-executed", ""):
            l, r = base[2][0][n.kids[0].id], base[2][0][n.kids[1].id]
            lq, rq = isinstance(l, runner.Q), isinstance(r, runner.Q)
            if lq != rq:
                q, num = (l, r) if lq else (r, l)
                mo = model[n.id][0]
                if mo == ("err", "dim") and base[2][1][n.id][:2] == ("err", "DimensionalityError"):
                    rec.count("bare_number_addsub_refused")
                elif mo[0] == "ok" and mo[1].dims and base[2][1][n.id][0] == "ok":
                    rec.count("bare_zero_or_nan_addsub_accepted")
    if ti % 97 == 0:
        rec.sample({"tree": render(root, 0, True, cx)[:400], "alt": render(root, 1 if nalts else 0, False, cx)[:400],
                    "model_root": _short_model(model[root.id][0])})


MATRIX_KINDS = ("dim", "dim-same-units", "dim-prefixed", "equal-value", "equal-magnitude", "other-dim",
                "power-dim", "dless-unit", "unitless",
                "ratio", "bare-int", "bare-frac", "bare-zero", "bare-nan", "bare-one")


def matrix_trees(g, rng, reps, all_forms=True):
    """Systematic depth-1 trees: operator x left kind x right kind x form."""
    pool = g.pool

    def operand(kind, dims, ref_leaf=None):
        if kind.startswith("bare-"):
            return g.bare({"bare-int": "int", "bare-frac": "frac", "bare-zero": "zero",
                           "bare-nan": "nan", "bare-one": "one"}[kind])
        if kind == "dim":
            return g.leaf(dims)
        if kind in ("equal-value", "equal-magnitude"):
            tw = None
            if ref_leaf is not None and ref_leaf.kind == "leaf":
                tw = g.twin_leaf(ref_leaf, kind[6:])
            return tw if tw is not None else g.leaf(dims)
        if kind == "dim-same-units":
            n = g.leaf(dims)
            if ref_leaf is not None and ref_leaf.kind == "leaf" and ref_leaf.leaf.dims == dims:
                n.leaf.assigns = [dict(u) for u in ref_leaf.leaf.assigns]
                n.leaf.factors = list(ref_leaf.leaf.factors)
                if n.leaf.intkind:
                    n.leaf.vals = [F(rng.randint(-20, 20)) * F(n.leaf.factors[0].v) for _ in n.leaf.vals]
            return n
        if kind == "dim-prefixed":
            n = g.leaf(dims)
            key = dkey(dims)
            if key in pool.classes:
                for i in range(len(n.leaf.assigns)):
                    c = rng.choice(pool.classes[key])
                    s = pool.spelled(rng, c, 1.0)
                    n.leaf.assigns[i] = {s: F(1)}
                    n.leaf.factors[i] = pool.m.expand({s: F(1)})[0]
                n.leaf.intkind = False
            return n
        if kind == "power-dim":
            # a dimension that is an integer power of `dims` (length vs area / volume): the pairs
            # auto_reduce_dimensions rewrites with fractional exponents
            cands = [dict(k2) for k2 in pool.classes
                     if k2 != () and any(dkey(dscale(dims, p)) == k2 for p in (2, 3, F(1, 2), F(1, 3)))]
            if cands:
                return g.leaf(rng.choice(cands))
            return g.leaf(dscale(dims, 2))
        if kind == "other-dim":
            for _ in range(10):
                d2 = g.random_dims()
                if d2 != dims:
                    return g.leaf(d2)
            return g.leaf(dims)
        if kind == "dless-unit":
            n = g.leaf({})
            for i in range(len(n.leaf.assigns)):
                s = pool.spelled(rng, rng.choice(pool.dless), 0.1) if pool.dless else None
                if s:
                    n.leaf.assigns[i] = {s: F(1)}
                    n.leaf.factors[i] = pool.m.expand({s: F(1)})[0]
            n.leaf.intkind = False
            return n
        if kind == "unitless":
            n = g.leaf({})
            n.leaf.assigns[0] = {}
            n.leaf.factors[0] = pool.m.expand({})[0]
            if n.leaf.intkind:
                n.leaf.vals = [F(rng.randint(-20, 20)) for _ in n.leaf.vals]
            return n
        if kind == "ratio":
            n = g.leaf({})
            k = rng.choice([k for k in pool.class_keys[:10] if k != ()] or [()])
            if k != ():
                for i in range(len(n.leaf.assigns)):
                    a, b = pool.spelled(rng, rng.choice(pool.classes[k])), pool.spelled(rng, rng.choice(pool.classes[k]))
                    if a != b:
                        n.leaf.assigns[i] = {a: F(1), b: F(-1)}
                        n.leaf.factors[i] = pool.m.expand(n.leaf.assigns[i])[0]
                n.leaf.intkind = False
            return n
        raise AssertionError(kind)

    ops = list(ARITH) + list(CMPS) + ["divmod"]
    for rep in range(reps):
        for op in ops:
            for lk in MATRIX_KINDS:
                for rk in MATRIX_KINDS:
                    if lk.startswith("bare-") and rk.startswith("bare-"):
                        continue
                    if lk in ("dim-same-units", "equal-value", "equal-magnitude") or \
                            rk == "other-dim" and lk == "other-dim":
                        continue
                    if not all_forms and rng.random() < 0.3:
                        continue                      # quick tier: 70 % of the cells per repetition
                    dims = g.random_dims()
                    if not dims:
                        dims = {next(iter(pool.base)): F(1)} if pool.base else dims
                    try:
                        l = operand(lk, dims)
                        r = operand(rk, dims, l)
                    except LookupError:
                        continue
                    if op == "**" and (g.cx.exact or (r.kind == "leaf" and not r.leaf.dims)):
                        # integer valued exponent
                        if r.kind == "leaf":
                            r.leaf.vals = [F(rng.choice((-2, -1, 0, 1, 2, 3))) for _ in r.leaf.vals]
                            r.leaf.intkind = False
                        elif not is_nan(r.num) and F(r.num).denominator != 1:
                            r.num = rng.choice((-1, 2, 3))
                            r.zn = False
                    if op == "**" and not g.cx.exact and r.kind == "leaf" and lk not in (
                            "dless-unit", "unitless", "ratio") and not lk.startswith("bare-"):
                        if r.leaf.dims == {}:
                            continue          # inexact exponent on a dimensional base: not generated
                    if g.cx.mode == "decimal" and "nan" in (lk + rk) and op in ("<", "<=", ">", ">="):
                        continue
                    forms = ["plain", "inplace", "rdirect"]
                    if not all_forms:
                        forms = forms[rep % 3:] + forms[:rep % 3]
                        rng.shuffle(forms)
                    done = False
                    for form in forms:
                        if done and not all_forms:
                            break
                        if form == "inplace" and op not in IOP:
                            continue
                        if form == "rdirect" and (op not in RDUNDER or lk.startswith("bare-") or rk.startswith("bare-")):
                            continue
                        if form != "plain" and lk.startswith("bare-"):
                            continue
                        n = Node("bin", op, [copy.copy(l), copy.copy(r)], form=form)
                        done = True
                        yield n


def edge_trees(g, rng):
    """Deterministic delicate spots of the ndarray in-place paths: array base, scalar Quantity
    exponent with an exactly representable integer value (0, 1, 2, -1), every form."""
    pool = g.pool
    pct = [s2 for s2 in ("percent",) if s2 in pool.names]
    for dims in ({}, g.random_dims(), g.random_dims()):
        for ev in (0, 1, 2, -1):
            for eu in [{}] + [{s2: F(1)} for s2 in pct]:
                for form in ("plain", "inplace"):
                    try:
                        base = g.leaf(dims)
                    except LookupError:
                        continue
                    lf = base.leaf
                    if not lf.shape or len(lf.vals) != g.nelem:
                        lf.shape = g.full
                        lf.vals = [g.value() or F(1, 3) for _ in range(g.nelem)]
                    e = g.leaf({}, small_int=True, scalar=True)
                    e.leaf.vals = [F(ev)]
                    e.leaf.intkind = False
                    e.leaf.assigns = [dict(eu) for _ in e.leaf.assigns]
                    e.leaf.factors = [pool.m.expand(eu)[0] for _ in e.leaf.assigns]
                    yield Node("bin", "**", [base, e], form=form)


def chain_positive(m, c, _seen=None):
    """True when no unit in the definition chain of `c` has a negative scale (a negative scale under
    a fractional exponent - auto_reduce_dimensions - is a complex number)."""
    _seen = _seen if _seen is not None else {}
    if c in _seen:
        return _seen[c]
    _seen[c] = True
    u = m.units[c]
    good = True
    if not u["is_base"]:
        try:
            if u["scale"].v <= 0:
                good = False
            else:
                for r in u["ref"]:
                    if not chain_positive(m, m.resolve(r)[1], _seen):
                        good = False
                        break
        except Exception:  # noqa: BLE001
            good = False
    _seen[c] = good
    return good


def run_shard(spec, rec):
    from harness import pintload, refmodel as R, gen, monitors
    import pint

    if not monitors.install_container_invariants():
        rec.inconc("icontract not importable")
        return
    import sys
    sys.set_int_max_str_digits(1000000)     # operand fingerprints repr() Fractions of generated registries
    rng = random.Random(spec["seed"])
    cx = Cx(spec["mode"])
    cx.context = spec.get("context")
    lines = install_line_observer(pint)
    nit = {"fraction": F, "decimal": Decimal}.get(spec["mode"], float)
    kw = dict(non_int_type=nit)
    if spec.get("auto_reduce"):
        kw["auto_reduce_dimensions"] = True

    def one_registry(ureg, m, names, ntrees, label, prefixes=True, spec=spec):
        pool = Pool(m, ureg, names, rec, prefixes)
        if not pool.base or len(pool.names) < 3:
            rec.count("registry_skipped_too_small")
            return
        if cx.mode in ("float", "ndarray"):
            pool.calibrate_float(rec)
            pool.maxlog = cx.maxlog
        runner = Runner(ureg, pint, pool, cx, rec, spec)
        if spec.get("matrix"):
            g = TreeGen(rng, pool, cx, 1, full_shape=(3,) if cx.array else None)
            decider = Decider(runner, g, rec, cx)
            for ti, root in enumerate(matrix_trees(g, rng, spec["matrix"], spec["tier"] == "thorough")):
                evaluate_tree(root, g, runner, decider, rec, cx, ti, label)
                if ti % 500 == 0:
                    monitors.drain(rec, label)
            if cx.array:
                for ti, root in enumerate(edge_trees(g, rng)):
                    evaluate_tree(root, g, runner, decider, rec, cx, ti, label + "-edge")
        for ti in range(ntrees):
            full = None
            if cx.array:
                full = rng.choice(list(SHAPES))
            g = TreeGen(rng, pool, cx, spec["depth"], full_shape=full)
            decider = Decider(runner, g, rec, cx)
            try:
                root = g.tree()
            except LookupError:
                rec.count("tree_generation_failed")
                continue
            evaluate_tree(root, g, runner, decider, rec, cx, ti, label)
            if ti % 200 == 0:
                monitors.drain(rec, label)
        monitors.drain(rec, label)

    if spec.get("generated"):
        from harness.gendef import Gen
        for i in range(spec["registries"]):
            gdef = Gen(rng, offsets=0)
            txt = gdef.text(rng, shuffle=True, layout=rng.randrange(4))
            kw2 = dict(kw)
            if i % 2:
                kw2["auto_reduce_dimensions"] = True
            try:
                ureg = pint.UnitRegistry(txt.splitlines(), cache_folder=None, **kw2)
            except Exception as e:  # noqa: BLE001
                rec.count("generated_registry_refused")
                continue
            m = R.read_text(txt)
            names = [c for c in gdef.mult_units() if gdef.units[c]["factor"] > 0 and chain_positive(m, c)]
            one_registry(ureg, m, names, spec["trees"], f"generated{i}",
                         spec=dict(spec, auto_reduce=bool(i % 2), definitions=txt))
            rec.count("generated_registries")
            if i == 0:
                rec.sample({"generated_file": txt[:400]})
    else:
        m = R.default_model(pintload.REPO)
        ureg = pintload.registry(**kw)
        exact_only = cx.mode in ("fraction", "decimal")
        names = [c for c in gen.canonical_units(m, exact_only=exact_only)
                 if m.root(c)[0].f() > 0 and chain_positive(m, c)]
        if spec.get("context"):
            ureg.enable_contexts(spec["context"])
            # wavelength, frequency, wavenumber, energy: every pair is connected by the context
            bridged = [{"[length]": 1}, {"[time]": -1}, {"[length]": -1},
                       {"[mass]": 1, "[length]": 2, "[time]": -2}]
            names = [c for c in names if {k: int(v) for k, v in m.root(c)[2].items() if v == int(v)} in bridged
                     and all(v == int(v) for v in m.root(c)[2].values())]
            rec.count("context_pool_units", len(names))
        one_registry(ureg, m, names, spec["trees"], spec["name"])
        if spec["mode"] == "ndarray":
            run_result_aliasing(ureg, m, names, rec, rng, pint, 300 if spec.get("tier") != "thorough" else 5000)
        if spec.get("context"):
            run_converted_operands(ureg, m, names, rec, rng, nit, spec["context"], pint,
                                   400 if spec.get("tier") != "thorough" else 6000)

    if lines is not None:
        seen, total = lines
        for fn, ln in seen:
            rec.observe("anchored_lines", f"{fn}:{ln}")
        for fn, ln in total:
            rec.observe("anchored_lines_total", f"{fn}:{ln}")
        for fn in {f for f, _ in seen}:
            rec.observe("anchored_functions_reached", fn)
    else:
        rec.inconc("sys.monitoring unavailable")



def run_converted_operands(ureg, m, names, rec, rng, nit, ctx, pint, n):
    """An operand that was USED, then converted in place across dimensions through a context (ito with the
    context enabled, or ito(unit, context) with none enabled), and is used again: + - and the ordering
    operators treat it exactly like a newly built quantity with its present magnitude and units - refusal
    included (no memory of the dimensionality it had before the conversion)."""
    Q = ureg.Quantity
    import operator
    ops = (("+", operator.add), ("-", operator.sub), ("r-", lambda u, v: v - u), ("<", operator.lt),
           (">=", operator.ge))

    def dims(u):
        return {k: v for k, v in m.root(u)[2].items() if v}

    def out(fn):
        try:
            r = fn()
        except pint.DimensionalityError:
            return ("DimensionalityError",)
        except Exception as e:  # noqa: BLE001
            return ("raised", type(e).__name__)
        if isinstance(r, (bool,)) or type(r).__name__ == "bool_":
            return ("bool", bool(r))
        mag = r.magnitude
        return ("ok", str(r.units), str(mag) if nit is not float else repr(round(float(mag), 9) if abs(float(mag)) < 1e6 else float(mag)))
    for i in range(n):
        a, b = rng.sample(names, 2)
        if dims(a) == dims(b):
            continue
        passed = i % 2 == 1          # context given to ito() instead of being enabled on the registry
        q = Q(nit(rng.randint(1, 60)), a)
        # first use: anything the object memoises about itself is filled now
        out(lambda: q + Q(nit(1), a))
        out(lambda: q < Q(nit(1), rng.choice(names)))
        q.dimensionality
        try:
            if passed:
                ureg.disable_contexts()
                try:
                    q.ito(b, ctx)
                finally:
                    pass
            else:
                q.ito(b)
        except Exception:  # noqa: BLE001
            if passed:
                ureg.enable_contexts(ctx)
            rec.count("converted_operand_conversion_refused")
            continue
        # while `passed`, no context is active: same-dimension pairs must work, others must be refused
        fresh = Q(q.magnitude, str(q.units))
        for other in (a, b, rng.choice(names)):
            for opn, op in ops:
                rec.count("converted_operand_ops")
                rec.case(("converted", a, b, other, opn, passed), nontrivial=True)
                r_old = out(lambda: op(q, Q(nit(2), other)))
                r_new = out(lambda: op(fresh, Q(nit(2), other)))
                want_refusal = dims(b) != dims(other)
                w = {"first_units": a, "converted_to": b, "other": other, "op": opn, "reused_object": list(r_old),
                     "fresh_quantity": list(r_new), "context": ctx, "context_passed_to_ito": passed}
                if r_old != r_new:
                    rec.violation("converted-operand-differs-from-fresh-quantity", w, op=opn,
                                  context_passed_to_ito=passed, reused=r_old[0], fresh=r_new[0])
                elif want_refusal and r_old[0] != "DimensionalityError":
                    rec.violation("error-expected-but-result-returned", w, op=opn, workload="converted-operand")
                elif not want_refusal and r_old[0] in ("DimensionalityError", "raised"):
                    rec.violation("result-expected-but-error-raised", w, op=opn, workload="converted-operand")
        if passed:
            ureg.enable_contexts(ctx)



def run_result_aliasing(ureg, m, names, rec, rng, pint, n):
    """The result of a PLAIN operator is a new value: an in-place operator applied to it afterwards changes
    nothing but that result (in particular not the operands it came from) - also for the operands that look
    trivial: a bare 0, 0.0, an array of zeros, a zero quantity, the number 1."""
    import numpy as np
    import operator
    Q = ureg.Quantity
    for i in range(n):
        u = rng.choice(names)
        a = np.array([rng.uniform(1, 9) for _ in range(3)])
        qa = Q(a.copy(), u)
        kind = i % 8
        if kind == 0:
            other, ops = 0, (operator.add, operator.sub, lambda x, y: y + x)
        elif kind == 1:
            other, ops = 0.0, (operator.add, operator.sub, lambda x, y: y + x)
        elif kind == 2:
            other, ops = np.zeros(3), (operator.add, operator.sub)
        elif kind == 3:
            other, ops = Q(0.0, u), (operator.add, operator.sub, lambda x, y: y + x)
        elif kind == 4:
            other, ops = 1, (operator.mul, operator.truediv, lambda x, y: y * x)
        elif kind == 5:
            other, ops = 1.0, (operator.mul, operator.truediv)
        elif kind == 6:
            other, ops = Q(1.0, ""), (operator.mul, operator.truediv)
        else:
            other, ops = Q(np.zeros(3), u), (operator.add, operator.sub)
        for op in ops:
            rec.count("result_aliasing_checks")
            rec.case(("alias", kind, u), nontrivial=True)
            before = qa.magnitude.copy()
            obefore = other.magnitude.copy() if hasattr(other, "magnitude") and hasattr(other.magnitude, "copy") else None
            try:
                r = op(qa, other)
            except Exception:  # noqa: BLE001
                rec.count("result_aliasing_op_refused")
                continue
            w = {"left": f"Q({before.tolist()}, '{u}')", "other": repr(other)[:80], "operand_kind": kind}
            shared = hasattr(r, "magnitude") and isinstance(r.magnitude, np.ndarray) and np.shares_memory(r.magnitude, qa.magnitude)
            try:
                r += r            # an in-place step on the RESULT
                r *= 3
            except Exception:  # noqa: BLE001
                pass
            changed = not np.array_equal(qa.magnitude, before) or str(qa.units) != str(Q(1.0, u).units)
            if obefore is not None and not np.array_equal(other.magnitude, obefore):
                changed = True
            if changed or shared:
                rec.violation("plain-result-shares-state-with-an-operand",
                              dict(w, operand_after=qa.magnitude.tolist(), shares_memory=bool(shared)),
                              op="alias", operand_kind=str(kind), operand_changed=bool(changed))
