"""C12 — context activation is scoped, stack-like, atomic and leaves no residue.

Oracle: a reference stack machine (a Python list) over the operation alphabet; after every
sequence the registry must answer a probe battery exactly like a FRESH TWIN built from the
same text, given the same definitions, in which exactly the model's stack is enabled (the
twin's own correctness is C11's business).  Failed activations must change nothing.  Context
objects are fingerprinted before/after (shared between registries, re-parameterised).
"""
import itertools
import random
from fractions import Fraction as F

PID = "C12"
LEVEL = "fault_enumeration"
RULE = ("breadth-first exhaustive: ALL operation sequences up to length 3 (quick; length 4 sampled) / 5 (thorough) over a "
        "13-operation alphabet {enable A, enable A(p=7), enable B, enable C, enable X (invalid: unknown "
        "unit), enable Y (invalid: changes dimensionality), enable B+X in one call, disable(1), "
        "disable(all), with-enter B, with-exit, with C + raise inside, define new unit}; plus random "
        "sequences up to length 40; a second registry sharing the same Context objects. distinct = the "
        "operation sequence; non-trivial = the sequence reaches a non-empty model stack or contains a "
        "failing activation")
ASSUMPTIONS = [
    "with-exit removes the most recently enabled context(s) (pint documents contexts as a stack)",
    "rule endpoints being normalised to base dimensions on first activation is not a modification",
    "the fresh twin is trusted for values (C11 decides those)",
]

TEXT = """
k- = 1000
m = [length]
s = [time]
g = [mass]
foot = 3 / 10 * m = ft
yard = 3 * ft = yd
mile = 1760 * yd
minute = 60 * s
pound = 450 * g = lb
ounce = lb / 16 = oz
dram = oz / 16
K = [temperature]
degX = 2 * K; offset: 10
stone = 14 * pound
@context(p=2) A = a
    [length] -> [time]: value * p * s / m
    [time] -> [mass]: value * 3 * g / s
@end
@context B
    foot = 1 / 4 * m
    degX = 3 * K
@end
@context(p=5) C
    [mass] -> [length]: value * p * m / g
    pound = 500 * g
@end
@context X
    nosuch = 3 * m
@end
@context Y
    foot = 3 * s
@end
@system tm
    minute
@end
""".strip().splitlines()
# a default system makes the registry keep its per-registry base-units memo (ureg.get_base_units),
# one more answer that must follow the active stack
REGKW = {"system": "tm"}

OPS = ["enA", "enAp", "enB", "enC", "enX", "enY", "enBX", "dis1", "disAll", "withB", "exit", "raiseC", "def"]
# the decorator form of a with-block (ureg.with_context): a call that returns and a call that raises.
# Complete enumeration uses them up to length 3 (quick) / 4 (thorough); the deepest level of the thorough
# tier keeps the 13 core operations (15**5 does not fit the budget)
DEC_OPS = ["decC", "decRaiseB"]


def exhaustive(tier):
    return True   # up to the stated length


def required(tier):
    return {"sequences": 5000, "failed_activations": 1500, "distinct_model_stacks": 20,
            "twin_comparisons": 5000, "context_fingerprints": 1000, "decorated_calls": 500, "no_op_stack_operations": 1000}


def shards(tier, seed):
    L = 3 if tier == "quick" else 5
    out = []
    firsts = list(itertools.product(OPS, repeat=1 if tier == "quick" else 2))
    parts = 13 if tier == "quick" else 32
    for i in range(parts):
        out.append({"kind": "bfs", "part": i, "parts": parts, "length": L, "name": f"bfs{i}"})
    for i in range(8 if tier == "quick" else 0):
        # quick tier: length-4 sequences are sampled (complete up to 5 in thorough)
        out.append({"kind": "random", "name": f"len4-{i}", "n": 500, "fixed_length": 4})
    for i in range(3 if tier == "quick" else 12):
        out.append({"kind": "random", "name": f"random{i}", "n": 150 if tier == "quick" else 2500})
    out.append({"kind": "shared", "name": "shared", "n": 60 if tier == "quick" else 600})
    return out


PROBES = [("foot", "m"), ("yard", "m"), ("mile", "m"), ("kfoot", "m"), ("pound", "g"), ("ounce", "g"), ("dram", "g"),
          ("mile", "yd"), ("dram", "stone"),
          ("stone", "g"), ("minute", "s"), ("m", "s"), ("s", "g"), ("g", "m"), ("m", "g"), ("foot", "minute"),
          ("pound", "foot"), ("g", "s")]


def battery(ureg, pint, newunits):
    out = []
    # asked first and again last: answering the questions in between (some of them refused) must not
    # change the listing within one and the same activation
    try:
        compat_first = (tuple(sorted(str(x) for x in ureg.get_compatible_units("s"))),
                        tuple(sorted(str(x) for x in ureg.get_compatible_units("g"))))
    except Exception as e:  # noqa: BLE001
        compat_first = "raised:" + type(e).__name__
    for a, b in PROBES + [(u, "m") for u in newunits]:
        try:
            out.append(str(ureg.convert(F(1), a, b)))
        except pint.DimensionalityError:
            out.append("DimErr")
        except Exception as e:  # noqa: BLE001
            out.append("raised:" + type(e).__name__)
    for u in ("foot", "pound", "stone", "mile"):
        try:
            f, ru = ureg.get_root_units(u)
            out.append((str(f), tuple(sorted(ru._units._d.items()))))
        except Exception as e:  # noqa: BLE001
            out.append("raised:" + type(e).__name__)
        try:
            out.append(str(ureg.Quantity(F(2), u).to_base_units().magnitude))
        except Exception as e:  # noqa: BLE001
            out.append("raised:" + type(e).__name__)
    # context B turns the OFFSET unit degX into a multiplicative one: how compound strings naming it are
    # read (delta_degX or degX) and converted follows the active stack, in both directions
    for expr in ("degX * s", "degX / s", "degX ** 2", "m / degX"):
        try:
            out.append(("parse", expr, tuple(sorted((k, str(v)) for k, v in ureg.parse_units(expr)._units.items()))))
        except Exception as e:  # noqa: BLE001
            out.append(("parse", expr, "raised:" + type(e).__name__))
    for src, dst in (("degX / s", "K / s"), ("degX", "K"), ("delta_degX", "K")):
        try:
            out.append(("conv", src, str(ureg.Quantity(F(3), src).to(dst).magnitude)))
        except Exception as e:  # noqa: BLE001
            out.append(("conv", src, "raised:" + type(e).__name__))
    for u in ("foot", "pound", "mile", "foot / minute", "stone * yard"):
        try:
            f, bu = ureg.get_base_units(u)
            out.append(("base", u, str(f), tuple(sorted(bu._units._d.items()))))
        except Exception as e:  # noqa: BLE001
            out.append("raised:" + type(e).__name__)
    try:
        out.append(tuple(sorted(str(x) for x in ureg.get_compatible_units("m"))))
        out.append(tuple(sorted(str(x) for x in ureg.get_compatible_units("g"))))
    except Exception as e:  # noqa: BLE001
        out.append("raised:" + type(e).__name__)
    try:
        compat_last = (tuple(sorted(str(x) for x in ureg.get_compatible_units("s"))),
                       tuple(sorted(str(x) for x in ureg.get_compatible_units("g"))))
    except Exception as e:  # noqa: BLE001
        compat_last = "raised:" + type(e).__name__
    out.append(("compatible-listing-stable-within-the-battery", compat_first == compat_last))
    out.append(("depth", len(ureg._active_ctx.contexts)))
    # registry-wide settings are part of "no residue": every plain attribute of the registry object
    # (on_redefinition policy, default system name, case sensitivity, auto-conversion flags, ...)
    out.append(("settings", tuple(sorted((k, repr(v)) for k, v in vars(ureg).items()
                                         if isinstance(v, (bool, int, str, type(None)))
                                         and k not in ("_initialized", "_base_units_cache_owner")))))
    return out


def ctx_fingerprint(ureg):
    fp = {}
    for name in ("A", "B", "C", "X", "Y"):
        c = ureg._contexts[name]
        fp[name] = (tuple(sorted((k, str(v)) for k, v in c.defaults.items())), len(c.redefinitions),
                    tuple(id(x) for x in c.redefinitions),
                    tuple(sorted((repr(dict(s)), repr(dict(d)), id(f)) for (s, d), f in c.funcs.items())) if c.checked else "unchecked",
                    c.name, tuple(c.aliases))
    return fp


class Machine:
    """Runs a sequence on a real registry while maintaining the reference stack."""

    def __init__(self, pint, rec):
        self.pint, self.rec = pint, rec
        self.ureg = pint.UnitRegistry(TEXT, non_int_type=F, cache_folder=None, **REGKW)
        self.stack = []          # model: list of (name, kwargs), oldest first
        self.pending = []        # open with-blocks (context manager objects)
        self.defs = []           # definitions applied so far
        self.failed = 0
        self.trouble = None
        self.def_inside_redef = False   # a unit was defined while a redefining context was active

    def enable(self, names, kw, expect_fail=False):
        try:
            self.ureg.enable_contexts(*names, **kw)
            ok = True
        except Exception as e:  # noqa: BLE001
            ok = False
            err = type(e).__name__
        if expect_fail:
            self.failed += 1
            self.rec.count("failed_activations")
            if ok:
                self.trouble = ("invalid-activation-accepted", names)
            # model: nothing changes
        else:
            if not ok:
                self.trouble = ("valid-activation-raised", names, err)
            else:
                for n in names:
                    self.stack.append((n, dict(kw)))

    def step(self, op):
        u = self.ureg
        if op == "enA":
            self.enable(("A",), {})
        elif op == "enAp":
            self.enable(("A",), {"p": F(7)})
        elif op == "enB":
            self.enable(("B",), {})
        elif op == "enC":
            self.enable(("C",), {})
        elif op == "enX":
            self.enable(("X",), {}, expect_fail=True)
        elif op == "enY":
            self.enable(("Y",), {}, expect_fail=True)
        elif op == "enBX":
            self.enable(("B", "X"), {}, expect_fail=True)
        elif op == "dis1":
            try:
                u.disable_contexts(1)
            except Exception as e:  # noqa: BLE001
                self.trouble = ("disable-raised", type(e).__name__)
            del self.stack[-1:]
        elif op == "disAll":
            try:
                u.disable_contexts()
            except Exception as e:  # noqa: BLE001
                self.trouble = ("disable-raised", type(e).__name__)
            self.stack.clear()
        elif op == "withB":
            cm = u.context("B")
            try:
                cm.__enter__()
            except Exception as e:  # noqa: BLE001
                self.trouble = ("valid-activation-raised", ("with B",), type(e).__name__)
                return
            self.pending.append(cm)
            self.stack.append(("B", {}))
        elif op == "exit":
            if self.pending:
                cm = self.pending.pop()
                try:
                    cm.__exit__(None, None, None)
                except Exception as e:  # noqa: BLE001
                    self.trouble = ("with-exit-raised", type(e).__name__)
                del self.stack[-1:]
        elif op == "raiseC":
            try:
                with u.context("C", p=F(3)):
                    self.stack.append(("C", {"p": F(3)}))
                    raise KeyError("boom")
            except KeyError:
                del self.stack[-1:]
            except Exception as e:  # noqa: BLE001
                self.trouble = ("valid-activation-raised", ("with C",), type(e).__name__)
                if self.stack and self.stack[-1] == ("C", {"p": F(3)}):
                    del self.stack[-1:]
        elif op in ("decC", "decRaiseB"):
            # model: whatever happens inside, the stack afterwards is the stack before
            name, kw = ("C", {"p": F(3)}) if op == "decC" else ("B", {})
            seen = []

            def body():
                seen.append([c.name for c in u._active_ctx.contexts])
                if op == "decRaiseB":
                    raise KeyError("boom")
                return 5
            self.rec.count("decorated_calls")
            try:
                out = u.with_context(name, **kw)(body)()
                if op == "decRaiseB":
                    self.trouble = ("decorated-call-swallowed-the-exception", name)
                elif out != 5:
                    self.trouble = ("decorated-call-lost-the-result", repr(out))
            except KeyError:
                if op != "decRaiseB":
                    self.trouble = ("decorated-call-raised", "KeyError")
            except Exception as e:  # noqa: BLE001
                self.trouble = ("decorated-call-raised", type(e).__name__)
            if not seen or name not in seen[0]:
                self.trouble = ("context-not-active-inside-decorated-call", name)
        elif op == "def":
            name = f"nu{len(self.defs)}"
            line = f"{name} = {len(self.defs) + 2} * foot"
            if any(n in ("B", "C") for n, _ in self.stack):
                self.def_inside_redef = True
            try:
                u.define(line)
                self.defs.append((name, line))
            except Exception as e:  # noqa: BLE001
                self.trouble = ("define-raised", type(e).__name__)

    def twin(self):
        t = self.pint.UnitRegistry(TEXT, non_int_type=F, cache_folder=None, **REGKW)
        for _, line in self.defs:
            t.define(line)
        for n, kw in self.stack:
            t.enable_contexts(n, **kw)
        return t


def classify(seq, machine):
    failing = [o for o in seq if o in ("enX", "enY", "enBX")]
    return dict(after_failed_activation=bool(failing),
                define_while_redefining_context_active=machine.def_inside_redef)


def run_sequence(seq, pint, rec, probe_each=False):
    mach = Machine(pint, rec)
    fp0 = ctx_fingerprint(mach.ureg)
    base = battery(mach.ureg, pint, [])
    for i, op in enumerate(seq):
        mach.step(op)
    rec.count("sequences")
    rec.observe("distinct_model_stacks", repr(mach.stack))
    fields = classify(seq, mach)
    newunits = [n for n, _ in mach.defs]
    got = battery(mach.ureg, pint, newunits)
    want = battery(mach.twin(), pint, newunits)
    if sum(map(len, seq)) % 3 == 0:
        # operations that by their own description change nothing - leaving ZERO contexts, a with-block that
        # names no context - applied to the aged registry only (never to the twin), which is then questioned
        # once more (every third sequence: one more battery each)
        try:
            mach.ureg.disable_contexts(0)
            with mach.ureg.context():
                pass
            rec.count("no_op_stack_operations")
        except Exception as e:  # noqa: BLE001
            rec.violation("no-op-stack-operation-raised", {"sequence": list(seq), "err": repr(e)[:200]}, **fields)
        if got == want:
            got = battery(mach.ureg, pint, newunits)
    rec.count("twin_comparisons")
    nontrivial = bool(mach.stack) or fields["after_failed_activation"]
    rec.case(("seq",) + tuple(seq), nontrivial=nontrivial)
    if mach.trouble:
        rec.violation(mach.trouble[0], {"sequence": list(seq), "detail": repr(mach.trouble[1:])}, **fields)
    if ("compatible-listing-stable-within-the-battery", False) in got:
        rec.violation("listing-changed-by-read-only-queries",
                      {"sequence": list(seq), "model_stack": repr(mach.stack)}, **fields)
    if got != want:
        diff = [(i, g, w) for i, (g, w) in enumerate(zip(got, want)) if g != w][:4]
        rec.violation("differs-from-fresh-twin-with-model-stack",
                      {"sequence": list(seq), "model_stack": repr(mach.stack), "first_differences": repr(diff)[:600]},
                      **fields)
    # leave everything: answers must equal the pre-entry answers (plus the new definitions)
    for cm in reversed(mach.pending):
        try:
            cm.__exit__(None, None, None)
        except Exception:  # noqa: BLE001
            pass
    try:
        mach.ureg.disable_contexts()
    except Exception as e:  # noqa: BLE001
        rec.violation("disable-raised", {"sequence": list(seq), "err": repr(e)}, **fields)
    after = battery(mach.ureg, pint, [])
    if after != base:
        diff = [(i, g, w) for i, (g, w) in enumerate(zip(after, base)) if g != w][:4]
        rec.violation("residue-after-leaving-all-contexts",
                      {"sequence": list(seq), "first_differences": repr(diff)[:600]}, **fields)
    if newunits:
        t = pint.UnitRegistry(TEXT, non_int_type=F, cache_folder=None, **REGKW)
        for _, line in mach.defs:
            t.define(line)
        if battery(mach.ureg, pint, newunits) != battery(t, pint, newunits):
            rec.violation("definition-made-inside-context-lost-or-altered", {"sequence": list(seq)}, **fields)
    fp1 = ctx_fingerprint(mach.ureg)
    rec.count("context_fingerprints")
    for name in fp0:
        a, b = fp0[name], fp1[name]
        if (a[0], a[1], a[2], a[4], a[5]) != (b[0], b[1], b[2], b[4], b[5]):
            rec.violation("context-object-modified-by-activation", {"sequence": list(seq), "context": name,
                                                                   "before": repr(a)[:200], "after": repr(b)[:200]},
                          **fields)
    return mach


def run_shard(spec, rec):
    from harness import pintload
    import pint
    rng = random.Random(spec["seed"])
    if spec["kind"] == "bfs":
        k = 0
        for L in range(1, spec["length"] + 1):
            alphabet = OPS + DEC_OPS if L <= 4 else OPS
            for seq in itertools.product(alphabet, repeat=L):
                k += 1
                if k % spec["parts"] != spec["part"]:
                    continue
                run_sequence(seq, pint, rec)
        rec.sample({"example_sequence": list(itertools.islice(itertools.product(OPS, repeat=spec["length"]), 777, 778))})
    elif spec["kind"] == "random":
        for i in range(spec["n"]):
            L = spec.get("fixed_length") or rng.randint(6, 40)
            seq = tuple(rng.choice(OPS + DEC_OPS) for _ in range(L))
            run_sequence(seq, pint, rec)
            if i == 0:
                rec.sample({"random_sequence": list(seq)})
    else:
        # Context OBJECTS shared by two registries: activity in one must not show in the other
        for i in range(spec["n"]):
            r1 = pint.UnitRegistry(TEXT, non_int_type=F, cache_folder=None, **REGKW)
            r2 = pint.UnitRegistry(TEXT[:TEXT.index("@context(p=2) A = a")], non_int_type=F, cache_folder=None)
            for name in ("A", "B", "C"):
                r2.add_context(r1._contexts[name])
            base2 = battery(r2, pint, [])
            fp0 = ctx_fingerprint(r1)
            seq = [rng.choice(["enA", "enAp", "enB", "enC", "dis1", "disAll", "raiseC"]) for _ in range(rng.randint(2, 12))]
            for op in seq:
                if op == "enA":
                    r1.enable_contexts("A")
                elif op == "enAp":
                    r1.enable_contexts("A", p=F(rng.randint(2, 9)))
                elif op == "enB":
                    r1.enable_contexts("B")
                elif op == "enC":
                    r1.enable_contexts("C", p=F(4))
                elif op == "dis1":
                    r1.disable_contexts(1)
                elif op == "disAll":
                    r1.disable_contexts()
                else:
                    try:
                        with r1.context("C"):
                            raise KeyError
                    except KeyError:
                        pass
            rec.count("sequences")
            rec.case(("shared",) + tuple(seq))
            fields = dict(after_failed_activation=False, define_while_redefining_context_active=False)
            if battery(r2, pint, []) != base2:
                rec.violation("activity-in-one-registry-visible-in-another-sharing-the-context",
                              {"sequence": seq}, **fields)
            # r2 can use the shared contexts and gets the same values as a registry of its own
            with r2.context("A", p=F(3)):
                v = r2.convert(F(1), "m", "s")
            if v != 3:
                rec.violation("shared-context-wrong-value", {"sequence": seq, "got": str(v)}, **fields)
            fp1 = ctx_fingerprint(r1)
            rec.count("context_fingerprints")
            for name in ("A", "B", "C"):
                a, b = fp0[name], fp1[name]
                if (a[0], a[1], a[2]) != (b[0], b[1], b[2]):
                    rec.violation("context-object-modified-by-activation", {"sequence": seq, "context": name,
                                                                           "before": repr(a)[:200], "after": repr(b)[:200]},
                                  **fields)
