"""C10 — definition files mean what they say, independent of order and loading path.

Oracles: (a) bundled files: the INDEPENDENT reader (harness/refmodel.py) vs every structural
fact of the loaded registry (spellings, symbols, prefixes, dimensions, exact factors,
converter parameters, groups, systems, contexts, defaults); (b) generated files: ground
truth by construction + observational equivalence (probe battery) of permutations, layouts,
loading paths {line list, file, define() statement by statement, cold disk cache, warm disk
cache} and numeric types; (c) ill-formed corpus: must raise at load or at first use.
"""
import os
import random
import shutil
import tempfile
from decimal import Decimal
from fractions import Fraction as F

PID = "C10"
RULE = ("bundled files: every unit/prefix/dimension/group/system/context/default compared with the "
        "independent reader (complete); generated files (units, prefixes, derived dimensions, offset "
        "units, a group, a system, a context): 5 loading paths x 3 numeric types x shuffled unit/prefix "
        "lines x 4 layouts, probe battery compared with truth by construction and across paths; "
        "ill-formed corpus by mutation class. distinct = (file seed, path, numeric type, probe); "
        "non-trivial = probe answer is not the identity (factor != 1 or a spelling other than the name)")
ASSUMPTIONS = [
    "only unit and prefix lines are permuted (blocks and @alias need their targets first)",
    "duplicate names are never generated (last-wins is order dependent by design)",
    "for the ill-formed clause any exception class counts as 'raises'",
]
NIT = {"float": float, "decimal": Decimal, "fraction": F}


def exhaustive(tier):
    return False


def required(tier):
    return {"bundled_facts": 3000, "generated_files": 20, "paths_compared": 100,
            "battery_answers": 20000, "illformed_cases": 40, "truth_factor_checks": 500,
            "cache_edit_cases": 20, "relined_factor_checks": 300}


def shards(tier, seed):
    out = [{"kind": "bundled", "nit": n, "name": f"bundled-{n}"} for n in NIT]
    for i in range(4 if tier == "quick" else 12):
        out.append({"kind": "generated", "name": f"gen{i}", "n": 8 if tier == "quick" else 80})
    out.append({"kind": "relined", "name": "relined", "n": 30 if tier == "quick" else 300})
    out.append({"kind": "illformed", "name": "illformed", "n": 1 if tier == "quick" else 6})
    for i in range(2 if tier == "quick" else 6):
        out.append({"kind": "cache-edit", "name": f"cache-edit{i}", "n": 6 if tier == "quick" else 40})
    return out


def fstr(x):
    if isinstance(x, float):
        return repr(x)
    if isinstance(x, Decimal):
        return "D" + str(x.normalize())
    return str(x)


def run_shard(spec, rec):
    from harness import pintload
    import pint
    rng = random.Random(spec["seed"])
    if spec["kind"] == "bundled":
        run_bundled(spec, rec, pint, pintload)
    elif spec["kind"] == "generated":
        run_generated(spec, rec, rng, pint)
    elif spec["kind"] == "cache-edit":
        run_cache_edit(spec, rec, rng, pint)
    elif spec["kind"] == "relined":
        run_relined(spec, rec, rng, pint)
    else:
        run_illformed(spec, rec, rng, pint)


# ---------------------------------------------------------------------------
def run_bundled(spec, rec, pint, pintload):
    from harness import refmodel as R
    nitname = spec["nit"]
    nit = NIT[nitname]
    m = R.default_model(pintload.REPO)
    ureg = pintload.registry(non_int_type=nit)

    def fact(kind, key, got_, want_, **extra):
        rec.count("bundled_facts")
        rec.case((nitname, kind, key), nontrivial=True)
        if got_ != want_:
            rec.violation("bundled-" + kind, dict(extra, key=key, pint=str(got_)[:300], reader=str(want_)[:300],
                                                  registry=nitname), fact=kind)

    # spellings -> canonical name; symbol
    pint_spell = {s: d.name for s, d in ureg._units.items() if not s.startswith("delta_") and not s.startswith("Δ")}
    lazily = {s for s in pint_spell if s not in m.spell}
    for s, c in m.spell.items():
        fact("spelling", s, pint_spell.get(s), c)
    for s in lazily:
        # names pint registered on its own must be prefix+unit readings of the reader
        try:
            pc, c = m.resolve(s)
            fact("auto-registered-name", s, pint_spell[s], pc + c)
        except KeyError:
            rec.violation("bundled-extra-spelling", {"spelling": s, "pint": pint_spell[s]}, fact="spelling")
    for c, u in m.units.items():
        d = ureg._units[c]
        fact("symbol", c, d.symbol, u["symbol"] or c)
        fact("aliases", c, sorted(d.aliases), sorted(u["aliases"]))
        # converter kind and parameters
        mods = u["mods"]
        conv = d.converter
        kind = type(conv).__name__
        want_kind = "OffsetConverter" if "offset" in mods and mods["offset"].v != 0 else "LogarithmicConverter" if "logbase" in mods \
            else "ScaleConverter"
        fact("converter-kind", c, kind, want_kind)
        if u["is_base"]:
            fact("base-reference", c, {k: F(v) for k, v in dict(d.reference).items()}, u["ref"])
        else:
            fact("reference", c, {k: F(v) if not isinstance(v, float) else F(v).limit_denominator(1000)
                                  for k, v in dict(d.reference or {}).items()}, u["ref"])
            sc = conv.scale
            want = u["scale"]
            if want.exact and m.tainted(c):
                # definition applies a fractional power: pint's scale is a float even when it is 1
                fact("scale~", c, abs(float(sc) - float(want.v)) <= 1e-12 * abs(float(want.v)), True, scale=repr(sc))
            elif want.exact:
                if nit is float:
                    ok = abs(float(sc) - float(want.v)) <= 2e-16 * abs(float(want.v)) * 4
                elif nit is Decimal:
                    ok = isinstance(sc, (Decimal, int)) and abs(F(sc) - want.v) <= abs(want.v) * F(1, 10 ** 26)
                else:
                    ok = isinstance(sc, (F, int)) and F(sc) == want.v
                fact("scale", c, ok, True, scale=repr(sc), want=str(want.v))
                rec.observe("literal_types", f"{nitname}:{type(sc).__name__}")
            else:
                fact("scale~", c, abs(float(sc) - want.f()) <= 1e-12 * abs(want.f()), True, scale=repr(sc))
        if "offset" in mods and mods["offset"].v != 0:
            off = conv.offset
            if isinstance(off, float):
                fact("offset~", c, abs(off - float(mods["offset"].v)) <= 1e-13 * abs(off), True, offset=repr(off))
            elif isinstance(off, Decimal):
                fact("offset~", c, abs(F(off) - mods["offset"].v) <= abs(mods["offset"].v) * F(1, 10 ** 24), True,
                     offset=repr(off))
            else:
                fact("offset", c, F(off), mods["offset"].v)
        if "logbase" in mods:
            fact("logbase", c, abs(float(conv.logbase) - mods["logbase"].f()) < 1e-15, True)
            fact("logfactor", c, abs(float(conv.logfactor) - mods["logfactor"].f()) < 1e-15, True)
        # dimensionality and exact root factor through the public API
        fact("dimensionality", c, {k: F(v) for k, v in dict(ureg.get_dimensionality(c)).items()}, m.root(c)[2])
        f, ru = ureg.get_root_units(c, check_nonmult=False)
        mf, mr, _ = m.root(c)
        fact("root-units", c, {k: F(v) for k, v in dict(ru._units._d).items()}, mr)
        if mf.exact and nit is F:
            fact("root-factor", c, (type(f).__name__ in ("Fraction", "int"), F(f)), (True, mf.v))
        elif mf.exact and nit is Decimal:
            fact("root-factor", c, isinstance(f, (Decimal, int)) and abs(F(f) - mf.v) <= abs(mf.v) * F(1, 10 ** 22), True,
                 got=repr(f))
        else:
            fact("root-factor~", c, abs(float(f) - mf.f()) <= 1e-9 * abs(mf.f()), True, value=repr(f))
    # prefixes
    for p, d in m.prefixes.items():
        pd = ureg._prefixes[p]
        fact("prefix-symbol", p, pd.symbol, d["symbol"] or p)
        fact("prefix-aliases", p, sorted(pd.aliases), sorted(d["aliases"]))
        v = pd.converter.scale
        fact("prefix-value", p, F(v) if not isinstance(v, float) else None if abs(v - float(d["value"])) > 1e-15 * abs(v) else d["value"],
             d["value"])
    fact("prefix-spellings", "*", sorted(k for k in ureg._prefixes if k), sorted(m.pspell))
    # derived dimensions
    for dname, ref in m.dims.items():
        dd = ureg._dimensions[dname]
        fact("derived-dimension", dname, {k: F(v) if not isinstance(v, float) else F(v).limit_denominator(100)
                                          for k, v in dict(dd.reference).items()}, ref)
    fact("dimension-names", "*", sorted(k for k in ureg._dimensions),
         sorted(set(m.dims) | {d for u in m.units.values() if u["is_base"] for d in u["ref"]}
                | m.base_dims | {x for ref in m.dims.values() for x in ref}))
    # groups, systems
    for g, d in m.groups.items():
        grp = ureg._groups[g]
        fact("group-units", g, sorted(grp._unit_names), sorted(m.spell[x] for x in d["units"]))
        fact("group-using", g, sorted(grp._used_groups), sorted(d["using"]))
    fact("group-names", "*", sorted(set(ureg._groups) - {"root", "international"}), sorted(m.groups))
    for S, d in m.systems.items():
        so = ureg._systems[S]
        fact("system-using", S, sorted(so._used_groups), sorted(d["using"]))
        want = {}
        for rule in d["rules"]:
            pc, c = m.resolve(rule[0])
            old = m.resolve(rule[1])[1] if len(rule) == 2 else next(iter(m.root_of_spelling(rule[0])[1]))
            want[old] = rule[0]
        got = {old: next(iter(v)) for old, v in so.base_units.items()}
        fact("system-rules", S, got, want)
    fact("system-names", "*", sorted(ureg._systems), sorted(m.systems))
    fact("defaults", "*", dict(ureg._defaults), m.defaults)
    # contexts: names, aliases, defaults, relation endpoints (as base-dimension vectors), redefinitions
    for cname, cd in m.contexts.items():
        ctx = ureg._contexts[cname]
        fact("context-aliases", cname, sorted(ctx.aliases), sorted(cd["aliases"]))
        fact("context-defaults", cname, {k: float(v) for k, v in ctx.defaults.items()},
             {k: float(F(v)) for k, v in cd["defaults"].items()})
        want = set()
        for r in cd["relations"]:
            a = tuple(sorted(m.dimvec(r["src"]).items()))
            b = tuple(sorted(m.dimvec(r["dst"]).items()))
            want.add((a, b))
            if r["bidir"]:
                want.add((b, a))
        got = set()
        with ureg.context(cname):
            pass   # first activation normalises rule endpoints to base dimensions
        for (s, d) in ctx.funcs:
            got.add((tuple(sorted((k, F(v)) for k, v in dict(ureg.get_dimensionality(s)).items())),
                     tuple(sorted((k, F(v)) for k, v in dict(ureg.get_dimensionality(d)).items()))))
        fact("context-relations", cname, sorted(got), sorted(want))
        fact("context-redefinitions", cname, len(ctx.redefinitions), len(cd["redefs"]))
    fact("context-names", "*", sorted(set(ureg._contexts)), sorted(set(m.contexts) | set(m.ctx_alias)))
    rec.sample({"registry": nitname, "units": len(m.units), "spellings": len(m.spell)})


# ---------------------------------------------------------------------------
def build_generated(rng):
    """Gen file + one group, one system, one context appended.  Returns (Gen, statements) where
    statements is a list of (text, kind) in a valid order; kind in unit/prefix/dim/block."""
    from harness.gendef import Gen
    g = Gen(rng, n_units=rng.randint(5, 14), neg_rate=0.0)
    stm = [(ln, "prefix") for ln in g.lines_prefix] + [(ln, "unit") for ln in g.lines_base + g.lines_unit] \
        + [(ln, "dim") for ln in g.lines_dim]
    mult = [c for c in g.mult_units() if g.units[c]["factor"] > 0]
    roots = [c for c in mult if g.units[c]["is_base"] and g.units[c]["dims"]]
    extra = {}
    # group with two new units
    gl = ["@group GX"]
    for k in range(2):
        ref = rng.choice(mult)
        fac = F(rng.randint(2, 99), rng.randint(1, 9))
        name = f"zgx{k}u"
        gl.append(f"    {name} = {fac.numerator} / {fac.denominator} * {ref} = zgx{k}sym")
        g.units[name] = dict(factor=fac * g.units[ref]["factor"], root=dict(g.units[ref]["root"]),
                             dims=dict(g.units[ref]["dims"]), kind="mult", is_base=False, name=name,
                             symbol=f"zgx{k}sym", aliases=[])
        g.spell[name] = name
        g.spell[f"zgx{k}sym"] = name
    gl.append("@end")
    stm.append(("\n".join(gl), "block"))
    extra["group"] = ("GX", ["zgx0u", "zgx1u"])
    # two more groups, one of them using the others; the comma-separated `using` lists are written in
    # the layouts a person may type (blanks before and / or after the comma)
    seps = (", ", ",", " , ", " ,", ",  ")
    members = {"GX": ["zgx0u", "zgx1u"]}
    for gname, uses in (("GY", []), ("GZ", ["GX", "GY"])):
        ref = rng.choice(mult)
        fac = F(rng.randint(2, 99), rng.randint(1, 9))
        name = f"z{gname.lower()}u"
        head = f"@group {gname}"
        if uses:
            head += " using " + rng.choice(seps).join(uses)
        stm.append((f"{head}\n    {name} = {fac.numerator} / {fac.denominator} * {ref}\n@end", "block"))
        g.units[name] = dict(factor=fac * g.units[ref]["factor"], root=dict(g.units[ref]["root"]),
                             dims=dict(g.units[ref]["dims"]), kind="mult", is_base=False, name=name,
                             symbol=None, aliases=[])
        g.spell[name] = name
        members[gname] = sorted(set([name] + [u for x in uses for u in members[x]]))
    extra["groups"] = members
    # system: replace one root by a unit with root {r: 1}
    r = rng.choice(roots)
    cands = [c for c in mult if g.units[c]["root"] == {r: F(1)} and c != r]
    if not cands:
        # no unit proportional to a root unit yet: define one, so that every file has a system
        fac = F(rng.randint(2, 99), rng.randint(1, 9))
        stm.append((f"zsxu = {fac.numerator} / {fac.denominator} * {r}", "unit"))
        g.units["zsxu"] = dict(factor=fac * g.units[r]["factor"], root=dict(g.units[r]["root"]),
                               dims=dict(g.units[r]["dims"]), kind="mult", is_base=False, name="zsxu",
                               symbol=None, aliases=[], stress=0.0)
        g.spell["zsxu"] = "zsxu"
        cands = ["zsxu"]
    if cands:
        n = rng.choice(cands)
        used = rng.choice((["GX"], ["GX", "GY"], ["GY", "GX"], ["GZ", "GX"], ["GX", "GY", "GZ"]))
        stm.append((f"@system SX using {rng.choice(seps).join(used)}\n    {n}\n@end", "block"))
        extra["system"] = ("SX", n, r)
        extra["system_members"] = sorted({u for x in used for u in members[x]})
    # context between two root dimensions, with a parameter and a redefinition-free body
    if len(roots) >= 2:
        a, b = rng.sample(roots, 2)
        da, db = next(iter(g.units[a]["dims"])), next(iter(g.units[b]["dims"]))
        k = rng.choice(mult)
        stm.append((f"@context(n=2) CX = cx\n    {da} -> {db}: value * n * {b} / {a}\n"
                    f"    {db} -> {da}: value / n * {a} / {b}\n@end", "block"))
        extra["context"] = ("CX", a, b)
    return g, stm, extra


def layout(rng, text, style):
    out = []
    for ln in text.split("\n"):
        if style >= 1:
            ln = ln.replace(" = ", "=" if style == 1 else "   =   ")
        if style == 3 and not ln.startswith("@") and "->" not in ln:
            ln = ln + "   # trailing comment = ignored"
        out.append(ln)
        if style >= 2 and rng.random() < 0.3 and not ln.startswith(" "):
            out.append("# a comment line" if rng.random() < 0.5 else "")
    return "\n".join(out)


def battery(ureg, g, extra, nit, rec):
    """Answers to a fixed list of questions, as comparable strings."""
    ans = {}

    def put(k, fn):
        try:
            ans[k] = fn()
        except Exception as e:  # noqa: BLE001
            ans[k] = "raised:" + type(e).__name__
        rec.count("battery_answers")

    for s, c in g.spell.items():
        put(("name", s), lambda s=s: ureg.get_name(s))
        put(("symbol", s), lambda s=s: ureg.get_symbol(s))
    for c, t in g.units.items():
        put(("dim", c), lambda c=c: sorted((k, fstr(v)) for k, v in dict(ureg.get_dimensionality(c)).items()))
        put(("root", c), lambda c=c: (fstr(ureg.get_root_units(c, check_nonmult=False)[0]),
                                      sorted((k, fstr(v)) for k, v in dict(ureg.get_root_units(c, check_nonmult=False)[1]._units._d).items())))
        if t["kind"] == "offset":
            for x in (0, 1, 100):
                put(("offset", c, x), lambda c=c, x=x, t=t: fstr(ureg.Quantity(nit(x), c).to(t["ref"]).magnitude))
        put(("compatible", c), lambda c=c: sorted(str(u) for u in ureg.get_compatible_units(c, "root"))
            if t["dims"] else [])
    for dname in g.derived_dims:
        put(("derived-dim", dname), lambda dname=dname: sorted((k, fstr(v)) for k, v in dict(ureg.get_dimensionality(dname)).items()))
    if "group" in extra:
        put(("group",), lambda: sorted(ureg.get_group("GX", False).members))
    for gname in extra.get("groups", ()):
        put(("group-members", gname), lambda gname=gname: sorted(ureg.get_group(gname, False).members))
    if "system" in extra:
        S, n, r = extra["system"]
        put(("system-members",), lambda: sorted(ureg.get_system(S, False).members))
        for c in list(g.units)[:6]:
            put(("system-base", c), lambda c=c: (fstr(ureg.get_base_units(c, system=S)[0]),
                                                 sorted((k, fstr(v)) for k, v in dict(ureg.get_base_units(c, system=S)[1]._units._d).items())))
    if "context" in extra:
        C, a, b = extra["context"]
        put(("context", "name"), lambda: fstr(ureg.Quantity(nit(3), a).to(b, C).magnitude))
        put(("context", "alias+param"), lambda: fstr(ureg.Quantity(nit(3), a).to(b, "cx", n=nit(5)).magnitude))
        put(("context", "back"), lambda: fstr(ureg.Quantity(nit(3), b).to(a, C).magnitude))
        put(("context", "off"), lambda: fstr(ureg.Quantity(nit(3), a).to(b).magnitude))
    return ans


def run_generated(spec, rec, rng, pint):
    tmp = tempfile.mkdtemp(prefix="verif-c10-")
    try:
        for gi in range(spec["n"]):
            g, stm, extra = build_generated(rng)
            rec.count("generated_files")
            base_text = "\n".join(t for t, _ in stm) + "\n"
            for nitname, nit in NIT.items():
                answers = {}
                # canonical order, plain layout, list of lines
                variants = [("lines", stm, 0)]
                sh = [s for s in stm if s[1] in ("unit", "prefix")]
                dims = [s for s in stm if s[1] == "dim"]
                rest = [s for s in stm if s[1] not in ("unit", "prefix", "dim")]
                rng.shuffle(sh)
                rng.shuffle(dims)      # derived dimensions may refer to dimensions written further down
                variants.append(("lines-shuffled", sh + dims + rest, rng.randrange(4)))
                rng.shuffle(sh)
                dims = list(reversed(dims))
                variants.append(("file-shuffled", dims + list(sh) + rest, rng.randrange(4)))
                variants.append(("define", stm, 0))
                variants.append(("diskcache-cold", stm, 1))
                variants.append(("diskcache-warm", stm, 1))
                cache_dir = os.path.join(tmp, f"cache-{gi}-{nitname}")
                fpath_cache = os.path.join(tmp, f"defs-{gi}-{nitname}-cache.txt")
                for path, order, style in variants:
                    text = "\n".join(layout(rng, t, style) for t, _ in order) + "\n"
                    try:
                        if path.startswith("lines"):
                            ureg = pint.UnitRegistry(text.split("\n"), non_int_type=nit, cache_folder=None)
                        elif path == "file-shuffled":
                            fp = os.path.join(tmp, f"defs-{gi}-{nitname}.txt")
                            open(fp, "w", encoding="utf-8").write(text)
                            ureg = pint.UnitRegistry(fp, non_int_type=nit, cache_folder=None)
                        elif path == "define":
                            ureg = pint.UnitRegistry(None, non_int_type=nit, cache_folder=None)
                            for t, _ in order:
                                ureg.define(t)
                        else:
                            if path == "diskcache-cold":
                                open(fpath_cache, "w", encoding="utf-8").write(text)
                            ureg = pint.UnitRegistry(fpath_cache, non_int_type=nit, cache_folder=cache_dir)
                    except Exception as e:  # noqa: BLE001
                        rec.violation("valid-file-refused", {"text": text, "path": path, "nit": nitname,
                                                             "err": repr(e)[:300]}, path=path, probe="load")
                        continue
                    answers[path] = battery(ureg, g, extra, nit, rec)
                    rec.count("paths_compared")
                ref = answers.get("lines")
                if ref is None:
                    continue
                # (1) truth by construction (Fraction: exact; others: tolerance)
                for c, t in g.units.items():
                    rec.count("truth_factor_checks")
                    rec.case((spec["seed"], gi, nitname, "truth", c), nontrivial=t["factor"] != 1)
                    got = ref.get(("root", c))
                    want_units = sorted((k, str(v)) for k, v in t["root"].items())
                    if got == "raised:OverflowError" and nitname != "fraction":
                        rec.count("numeric_range_skipped")
                        continue
                    if isinstance(got, str):
                        rec.violation("truth-raised", {"text": base_text, "unit": c, "got": got, "nit": nitname},
                                      path="lines", probe="root")
                        continue
                    gf, gu = got
                    gu_n = sorted((k, str(F(v.lstrip("D")) if not v.startswith("D") else F(Decimal(v[1:]))))
                                  for k, v in gu)
                    if gu_n != want_units:
                        rec.violation("truth-root-units", {"text": base_text, "unit": c, "got": gu, "want": want_units,
                                                           "nit": nitname}, path="lines", probe="root")
                    if nitname == "fraction":
                        if F(gf) != t["factor"]:
                            rec.violation("truth-factor", {"text": base_text, "unit": c, "got": gf,
                                                           "want": str(t["factor"]), "nit": nitname},
                                          path="lines", probe="root")
                    else:
                        try:
                            val = F(Decimal(gf[1:])) if gf.startswith("D") else F(float(gf)) if "." in gf or "e" in gf or "n" in gf else F(gf)
                        except (OverflowError, ValueError):
                            rec.count("numeric_range_skipped")   # inf / nan: the float factor left the range
                            continue
                        tol = F(1, 10 ** 20) if nitname == "decimal" else F(1, 10 ** 11)
                        lo, hi = F(1, 10 ** 80), F(10 ** 80)   # beyond this float partial products go subnormal
                        if nitname == "float" and t.get("stress", 0.0) > 290:
                            # the final factor is moderate but the partial products of the chain
                            # can leave the normal float range (got 0.0 for 2.3e-10 at seed 2)
                            rec.count("numeric_range_skipped")
                            continue
                        if lo < abs(t["factor"]) < hi and abs(val - t["factor"]) > abs(t["factor"]) * tol:
                            rec.violation("truth-factor", {"text": base_text, "unit": c, "got": gf,
                                                           "want": str(t["factor"]), "nit": nitname},
                                          path="lines", probe="root")
                        if nitname == "decimal" and not gf.startswith("D") and gf not in ("1",) and "." in gf:
                            rec.violation("literal-type", {"text": base_text, "unit": c, "got": gf, "nit": nitname},
                                          path="lines", probe="root")
                for dname, dref in g.derived_dims.items():
                    for path, ans in answers.items():
                        got = ans.get(("derived-dim", dname))
                        want = sorted((k, str(v)) for k, v in dref.items())
                        gotn = sorted((k, str(F(v[1:]) if v.startswith("D") else F(v) if "." not in v and "e" not in v else F(float(v)).limit_denominator(64)))
                                      for k, v in got) if not isinstance(got, str) else got
                        rec.count("derived_dimension_checks")
                        if gotn != want:
                            rec.violation("truth-derived-dimension", {"text": base_text, "dimension": dname, "got": str(got)[:200],
                                                                      "want": str(want), "nit": nitname, "path": path},
                                          path=path, probe="derived-dim")
                for s, c in g.spell.items():
                    if ref.get(("name", s)) != c:
                        rec.violation("truth-name", {"text": base_text, "spelling": s, "got": ref.get(("name", s)),
                                                     "want": c}, path="lines", probe="name")
                    want_sym = g.units[c]["symbol"] or c
                    if ref.get(("symbol", s)) != want_sym:
                        rec.violation("truth-symbol", {"text": base_text, "spelling": s,
                                                       "got": ref.get(("symbol", s)), "want": want_sym},
                                      path="lines", probe="symbol")
                for gname, want in extra.get("groups", {}).items():
                    rec.count("truth_membership_checks")
                    if ref.get(("group-members", gname)) != want:
                        rec.violation("truth-members", {"text": base_text, "block": gname,
                                                        "got": str(ref.get(("group-members", gname)))[:200],
                                                        "want": str(want)}, path="lines", probe="group-members")
                if "system_members" in extra:
                    rec.count("truth_membership_checks")
                    if ref.get(("system-members",)) != extra["system_members"]:
                        rec.violation("truth-members", {"text": base_text, "block": "SX",
                                                        "got": str(ref.get(("system-members",)))[:200],
                                                        "want": str(extra["system_members"])},
                                      path="lines", probe="system-members")
                # (2) observational equivalence of the loading paths
                for path, ans in answers.items():
                    if path == "lines":
                        continue
                    for k, v in ref.items():
                        rec.case((spec["seed"], gi, nitname, path, k), nontrivial=True)
                        if ans.get(k) != v:
                            if nitname != "fraction" and k[0] in ("root", "system-base", "context", "offset") \
                                    and close(ans.get(k), v):
                                continue   # float/Decimal: summation order differs with line order
                            rec.violation("loading-paths-differ", {"text": base_text, "path": path, "probe": str(k),
                                                                   "lines": str(v)[:200], "other": str(ans.get(k))[:200],
                                                                   "nit": nitname}, path=path, probe=k[0])
            if gi == 0:
                rec.sample({"generated_file": base_text[:900]})
    finally:
        shutil.rmtree(tmp, ignore_errors=True)


def close(a, b):
    """Numeric strings / nested tuples equal up to 1e-12 relative."""
    try:
        if isinstance(a, (tuple, list)) and isinstance(b, (tuple, list)):
            return len(a) == len(b) and all(close(x, y) for x, y in zip(a, b))
        if isinstance(a, str) and isinstance(b, str):
            if a == b:
                return True
            fa = float(a[1:]) if a.startswith("D") else float(F(a)) if "/" in a else float(a)
            fb = float(b[1:]) if b.startswith("D") else float(F(b)) if "/" in b else float(b)
            return abs(fa - fb) <= 1e-12 * max(abs(fa), abs(fb))
        return a == b
    except Exception:  # noqa: BLE001
        return False


def run_cache_edit(spec, rec, rng, pint):
    """The on-disk cache must never outlive the text it was built from: a root file that @imports a
    second file is loaded with a cache folder, then ONE of the two files is edited (a factor changed, a
    unit added, a unit removed) and the registry is loaded again with the same cache folder; its answers
    must equal those of an uncached registry built from the edited files."""
    tmp = tempfile.mkdtemp(prefix="verif-c10e-")
    try:
        for gi in range(spec["n"]):
            for nitname, nit in NIT.items():
                g, stm, extra = build_generated(rng)
                units = [t for t, k in stm if k in ("unit", "prefix")]
                rest = [t for t, k in stm if k not in ("unit", "prefix")]
                d = os.path.join(tmp, f"case-{gi}-{nitname}")
                os.makedirs(d)
                root, part, cache = os.path.join(d, "root.txt"), os.path.join(d, "part.txt"), os.path.join(d, "cache")
                cut = rng.randint(1, max(1, len(units) - 1))
                in_part, in_root = units[:cut], units[cut:]

                def write():
                    open(part, "w", encoding="utf-8").write("\n".join(in_part) + "\n")
                    open(root, "w", encoding="utf-8").write("@import part.txt\n" + "\n".join(in_root + rest) + "\n")
                write()
                try:
                    r1 = pint.UnitRegistry(root, non_int_type=nit, cache_folder=cache)
                    battery(r1, g, extra, nit, rec)     # fill the caches
                except Exception as e:  # noqa: BLE001
                    rec.violation("valid-file-refused", {"err": repr(e)[:300], "path": "cache-edit"}, path="cache-edit",
                                  probe="load")
                    continue
                # edit one file: change the factor of a derived unit, add a unit
                which = rng.choice(("imported", "root"))
                lines = in_part if which == "imported" else in_root
                idx = [i for i, ln in enumerate(lines) if "=" in ln and "[" not in ln and not ln.split("=")[0].strip().endswith("-")]
                if not idx:
                    rec.count("cache_edit_skipped")
                    continue
                i = rng.choice(idx)
                name, rhs = lines[i].split("=", 1)
                lines[i] = f"{name}= 3 * {rhs.strip()}" if ";" not in rhs else lines[i]
                first_unit = units[0].split("=")[0].strip() if not units[0].split("=")[0].strip().endswith("-") else None
                lines.append(f"zedited{gi} = 7 * {next(c for c, t in g.units.items() if t['is_base'])}")
                write()
                try:
                    r2 = pint.UnitRegistry(root, non_int_type=nit, cache_folder=cache)
                    r3 = pint.UnitRegistry(root, non_int_type=nit, cache_folder=None)
                except Exception as e:  # noqa: BLE001
                    rec.violation("valid-file-refused", {"err": repr(e)[:300], "path": "cache-edit-reload"},
                                  path="cache-edit", probe="load")
                    continue
                g.spell[f"zedited{gi}"] = f"zedited{gi}"
                g.units[f"zedited{gi}"] = dict(kind="mult", dims={"x": 1}, factor=F(7), root={}, is_base=False,
                                               symbol=None, aliases=[], name=f"zedited{gi}")
                a2, a3 = battery(r2, g, extra, nit, rec), battery(r3, g, extra, nit, rec)
                rec.count("cache_edit_cases")
                rec.count("paths_compared")
                rec.case(("cache-edit", spec["seed"], gi, nitname, which), nontrivial=True)
                for k, v in a3.items():
                    if a2.get(k) != v:
                        rec.violation("stale-disk-cache-after-edit", {"edited": which, "probe": str(k),
                                                                      "cached_registry": str(a2.get(k))[:200],
                                                                      "uncached_registry": str(v)[:200], "nit": nitname},
                                      path="cache-edit", probe=k[0], edited=which)
                        break
        rec.sample({"cache_edit": "root.txt '@import part.txt' + units; one file edited between two cached loads"})
    finally:
        shutil.rmtree(tmp, ignore_errors=True)


# ---------------------------------------------------------------------------
BASE_OK = ["m = [length] = meter_", "s = [time]", "k- = 1000", "foot = 0.3048 * m = ft",
           "kelv = [temp]; offset: 0", "degx = kelv; offset: 273.15"]

ILLFORMED = [
    # (class, extra lines, first-use unit or None)
    ("invalid-name-digit-start", ["1abc = 3 * m"], "1abc"),
    ("invalid-name-space", ["a b = 3 * m"], "b"),
    ("invalid-name-operator", ["a+b = 3 * m"], "a"),
    ("invalid-name-paren", ["a(b) = 3 * m"], "a"),
    ("mixed-dimension-unit-reference", ["x = [length] * m"], "x"),
    ("mixed-dimension-unit-reference", ["x = 2 * [length] / s"], "x"),
    ("reference-cycle", ["a = 2 * b", "b = 3 * a"], "a"),
    ("reference-cycle", ["a = 2 * b", "b = 3 * c", "c = a / 7"], "c"),
    ("self-reference", ["a = 2 * a"], "a"),
    ("unknown-reference", ["a = 2 * nosuchunit"], "a"),
    ("non-numeric-modifier", ["t = kelv; offset: abc"], "t"),
    ("non-numeric-modifier", ["t = kelv; offset: 1 * m"], "t"),
    ("unknown-modifier", ["t = kelv; foo: 3"], "t"),
    ("log-missing-factor", ["t = 1; logbase: 10"], "t"),
    ("modifier-without-colon", ["t = kelv; offset 5"], "t"),
    ("modifier-without-colon", ["t = kelv; offset: 5; junk"], "t"),
    ("modifier-without-colon", ["t = kelv; bogus"], "t"),
    ("modifier-with-equals", ["t = 2 * kelv; offset = 5"], "t"),
    ("modifier-empty", ["t = kelv; offset:"], "t"),
    ("modifier-duplicate-colon", ["t = kelv; offset: 5: 6"], "t"),
    ("unknown-directive", ["@foo bar", "@end"], None),
    ("unknown-directive", ["@frobnicate"], None),
    ("unterminated-block", ["@group G", "    gg = 3 * m"], None),
    ("unterminated-block", ["@context C", "    [length] -> [time]: value * s / m"], None),
    ("unterminated-block", ["@system S", "    foot"], None),
    ("garbage-line", ["hello world"], None),
    ("garbage-line", ["???"], None),
    ("garbage-line", ["foot inch yard"], None),
    ("prefix-non-numeric", ["q- = m"], "qm"),
    ("prefix-non-numeric", ["q- = abc"], "qm"),
    ("dimension-with-unit", ["[speed] = [length] / s"], None),
    ("bad-alias-target", ["@alias nosuch = other"], None),
    ("bad-system-rule", ["@system S", "    a:b:c", "@end"], None),
    ("bad-context-relation", ["@context C", "    [length] -> : value", "@end"], None),
    ("group-using-unknown", ["@group G using Nope", "    gg = 3 * m", "@end"], "gg"),
    ("unbalanced-expression", ["a = (3 * m"], "a"),
    ("unbalanced-expression", ["a = 3 * m)"], "a"),
    ("dangling-operator", ["a = 3 *"], "a"),
    ("equals-only", ["= 3 * m"], None),
]


def run_illformed(spec, rec, rng, pint):
    for rep in range(spec["n"]):
        for cls, extra, first in ILLFORMED:
            for nitname, nit in NIT.items():
                for path in ("lines", "define"):
                    lines = list(BASE_OK)
                    pos = rng.randrange(len(lines) + 1) if rep else len(lines)
                    lines[pos:pos] = extra
                    rec.count("illformed_cases")
                    rec.case(("ill", cls, tuple(extra), nitname, path, rep))
                    stage = None
                    try:
                        if path == "lines":
                            ureg = pint.UnitRegistry(lines, non_int_type=nit, cache_folder=None)
                        else:
                            ureg = pint.UnitRegistry(BASE_OK, non_int_type=nit, cache_folder=None)
                            ureg.define("\n".join(extra))
                    except Exception as e:  # noqa: BLE001
                        stage = "load:" + type(e).__name__
                    if stage is None and first is not None:
                        # "first use" = asking for the unit's own expansion; a conversion to some other
                        # unit may fail for legitimate dimensional reasons and proves nothing
                        for use in (lambda: ureg.get_root_units(first), lambda: ureg.Quantity(nit(1), first).to_root_units(),
                                    lambda: ureg.get_dimensionality(first)):
                            try:
                                use()
                            except Exception as e:  # noqa: BLE001
                                stage = "first-use:" + type(e).__name__
                                break
                    rec.observe("illformed_outcomes", f"{cls}:{stage}")
                    if stage is None:
                        # silently given a meaning: show what meaning
                        meaning = None
                        if first is not None:
                            try:
                                meaning = repr(ureg.get_root_units(first))
                            except Exception:  # noqa: BLE001
                                pass
                        rec.violation("illformed-accepted", {"class": cls, "lines": extra, "path": path,
                                                             "nit": nitname, "meaning": meaning,
                                                             "units": sorted(set(ureg._units) - {"m", "s", "foot", "ft", "meter_", "kelv", "degx", "delta_degx"})[:8]},
                                      illformed_class=cls, path=path)
    rec.sample({"illformed_classes": sorted({c for c, _, _ in ILLFORMED})})



def run_relined(spec, rec, rng, pint):
    """A unit that a LATER line of the same text defines again (the later line is the one in force), with a
    @system block and a @context block that name units built on it placed before, between or after the two
    lines: every factor the registry reports - get_root_units, get_base_units, conversions - follows the last
    line, wherever the blocks stand, whether the text comes from a file or from a list of lines."""
    import os
    import shutil
    import tempfile
    from fractions import Fraction as F
    tmp = tempfile.mkdtemp(prefix="c10relined-")
    try:
        for i in range(spec["n"]):
            nitname = ("fraction", "float", "decimal")[i % 3]
            nit = NIT[nitname]
            a1, a2 = F(rng.randint(2, 99), rng.choice((1, 4, 10))), F(rng.randint(101, 999), rng.choice((1, 8, 100)))
            b, c = F(rng.randint(2, 40)), F(rng.randint(2, 40), rng.choice((1, 5)))
            base = ["rm = [rlength]", "rs = [rtime]", "rg = [rmass]"]
            first = f"ru1 = {a1.numerator} / {a1.denominator} * rm"
            second = f"ru1 = {a2.numerator} / {a2.denominator} * rm"
            deps = [f"ru2 = {b.numerator} * ru1", f"ru3 = {c.numerator} / {c.denominator} * ru2 / rs"]
            system = ["@system rsys", "    ru2", "    rs", "@end"]
            context = ["@context rctx", "    [rlength] -> [rtime]: value / (3 ru3)", "@end"]
            where = rng.randrange(4)
            if where == 0:      # blocks between the two lines
                lines = base + [first] + deps + system + context + [second]
            elif where == 1:    # blocks before the dependants are complete, redefinition last
                lines = base + [first] + deps[:1] + system + deps[1:] + [second] + context
            elif where == 2:    # blocks after both lines
                lines = base + [first] + deps + [second] + system + context
            else:               # the second line directly after the first
                lines = base + [first, second] + deps + system + context
            truth = {"ru1": a2, "ru2": b * a2, "ru3": c * b * a2}
            from_file = i % 2 == 0
            try:
                if from_file:
                    fn = os.path.join(tmp, f"relined{i}.txt")
                    with open(fn, "w") as fh:
                        fh.write("\n".join(lines) + "\n")
                    ureg = pint.UnitRegistry(fn, non_int_type=nit, on_redefinition="ignore", cache_folder=None)
                else:
                    ureg = pint.UnitRegistry(lines, non_int_type=nit, on_redefinition="ignore", cache_folder=None)
            except Exception as e:  # noqa: BLE001
                rec.violation("generated-file-refused", {"text": "\n".join(lines), "err": repr(e)[:300]},
                              workload="relined")
                continue
            w = {"text": "\n".join(lines), "blocks": ("between", "split", "after", "adjacent")[where],
                 "from_file": from_file, "registry": nitname}
            for u, want in truth.items():
                probes = {
                    "get_root_units": lambda: ureg.get_root_units(u)[0],
                    "get_base_units": lambda: ureg.get_base_units(u)[0],
                    "convert": lambda: ureg.convert(nit(1), u, "rm" if u != "ru3" else "rm / rs"),
                    "to_root_units": lambda: ureg.Quantity(nit(1), u).to_root_units().magnitude,
                }
                for pname, fn_ in probes.items():
                    rec.count("relined_factor_checks")
                    rec.case(("relined", i, u, pname), nontrivial=True)
                    try:
                        got = fn_()
                    except Exception as e:  # noqa: BLE001
                        rec.violation("relined-probe-raised", dict(w, unit=u, probe=pname, err=repr(e)[:200]),
                                      workload="relined", probe=pname)
                        continue
                    ok = (F(got) == want) if nit is F else abs(float(got) - float(want)) <= 1e-12 * float(want)
                    if not ok:
                        rec.violation("factor-not-from-the-last-definition",
                                      dict(w, unit=u, probe=pname, got=str(got), want=str(want),
                                           first_definition=str(a1), last_definition=str(a2)),
                                      workload="relined", probe=pname, blocks=w["blocks"])
            if i == 0:
                rec.sample({"relined_text": lines})
    finally:
        shutil.rmtree(tmp, ignore_errors=True)
