"""C17 - `ureg.wraps` / `ureg.check` hand over correct magnitudes and enforce dimensions.

Technique: generated *programs* are executed against the real decorators.  A program is a
function compiled from generated source (1-5 parameters; positional-only / positional-or-
keyword / keyword-only; defaults) whose body records exactly the objects it received, a list
of per-parameter specifications and a return specification.  Each program is called several
times (positional / keyword / omitted-default mixes; compatible and incompatible quantities;
bare numbers; arbitrary objects for `None` entries).  What the function saw, what came back
and what was raised are compared with an oracle written here:

* expected magnitude = value * ratio, with ratio taken from the independent reference model
  (`harness/refmodel.py`, exact Fractions; pint's own `convert` is never consulted);
* expected error = model dimension vectors differ (`Model.dimvec`);
* classification of `=A` specs (definition = first spec that names a symbol alone with
  exponent 1; everything else that contains `=` is a dependent) is re-derived by the oracle
  from the spec list, not read from pint.

Three registry configurations, one per shard (see `shards`): "fraction" (Fraction registry,
declared units given as Unit objects; equality is `==`, no tolerance), "fraction-str" (same,
unit strings allowed as argument specs) and "float" (default registry, 1e-12 relative).
Lost exactness in a Fraction registry is reported as one mechanism with a `via` field naming
the route (string spec / bare number for a reference spec / conversion cache filled by one
of those); see `World.inexact_via`.  Float registry only: magnitudes are not compared when
an exponent exceeds 3 or a factor leaves 1e-100..1e100, and calls ending in OverflowError are
skipped and counted (`float_range_skipped*`): pint's float root factors pass through
denormals / overflow there (e.g. bohr_magneton**6, conventional_watt_90**6); the same cases
are decided exactly in the Fraction shards.

Deviations from the DESIGN plan / interpretation notes
* Reference specs and bare numbers.  pint treats a bare number given for an `=A...` spec as
  a dimensionless quantity in BOTH strict and non-strict mode (its own test-suite asserts
  `wraps('=A', ['=A','=A'])(f)(3, 1) == 4` with strict=True).  The statement's "strict
  refuses / non-strict passes unchanged" is therefore decided for parameters with declared
  (non-reference) units only; for reference specs the oracle uses "bare == dimensionless
  quantity" and the occurrences are counted (`ref_bare_as_dimensionless`), not alarmed on.
* Strings as argument values (parsed in strict mode) are not part of the statement; skipped.
* Offset units (degC, degF, ...) are exercised with declared-unit specs only; `=A` algebra
  on offset units raises OffsetUnitCalculusError by pint's offset calculus (C06 territory).
* The `with_context` decorator named in the anchors is not mentioned by the statement.
* When several error conditions hold in one call, any of the expected error families is
  accepted (pint iterates index *sets*, so which one fires first is not specified).
"""
import random
from fractions import Fraction as F

PID = "C17"
RULE = ("generated programs = (signature of 1-5 params over positional-only/positional-or-"
        "keyword/keyword-only x defaults, per-parameter spec from {unit string, Unit, None, "
        "'=A' definition, '=A' repeat, '=A*B', '=A**2', '=A/B', '=A**-1', '=A**2*B'}, return "
        "spec scalar/tuple/list over {None, unit, '=A..'}, strict on/off), each called with "
        "several argument sets (positional/keyword/omitted-default mixes; compatible, "
        "incompatible, bare, arbitrary-object values); plus ureg.check programs over {unit "
        "string, Unit, dimension string, derived dimension, UnitsContainer, None}, parameter-"
        "count mismatches at decoration time, and offset-unit specs.  distinct = (decorator, "
        "parameter kinds, spec roles/forms, return form, strict, per-parameter passing style "
        "and value class, outcome class); non-trivial = at least one spec is not None")
ASSUMPTIONS = [
    "reference model (validated by C01/C02/C20) gives exact factors and dimension vectors",
    "spellings used in specs are pre-validated against pint's own name resolution "
    "(parse_units), so C08 name-resolution issues cannot alarm here",
    "bare number for a reference ('=A...') spec == dimensionless quantity in both modes "
    "(pint test-suite behaviour); strict/non-strict clauses decided on declared-unit specs",
    "float registry tolerance 1e-12 relative; Fraction registry exact",
    "when several error conditions hold in one call any expected error family is accepted",
]

PREFIXES = ("kilo", "centi", "milli", "micro", "mega")
SYMS = ("A", "B", "C")
PNAMES = ("x", "y", "z", "t", "u", "v", "w", "alpha", "beta", "length", "mass", "n", "k",
          "val", "rho", "q0", "_p", "arg", "kw", "values", "sig", "self", "strict", "ureg")


def exhaustive(tier):
    return False


def required(tier):
    s = 0.7 if tier == "quick" else 4
    req = {
        "programs_wraps": 15000, "programs_check": 5000,
        "wraps_ok_calls": 40000, "wraps_dimerr_calls": 6000,
        "strict_refused_calls": 1500, "nonstrict_passthrough_args": 4000,
        "none_passthrough_args": 30000, "none_spec_non_quantity_in_strict_mode": 5000,
        "converted_args_checked": 40000, "converted_args_ratio_ne_1": 30000,
        "converted_kw_args": 15000, "converted_default_args": 4000,
        "def_args_checked": 40000, "dep_args_checked": 10000,
        "dep_before_its_definition_checked": 2000,
        "kw_passed_args": 80000, "defaults_used_args": 20000,
        "ret_scalar_checked": 20000, "ret_container_checked": 20000,
        "ret_derived_checked": 12000,
        "check_pass_calls": 12000, "check_raise_calls": 6000,
        "check_raise_only_at_later_position": 2000,
        "check_args_identity_checked": 30000,
        "deco_mismatch_wraps": 600, "deco_mismatch_check": 600,
    }
    req = {k: int(v * s) for k, v in req.items()}
    req["offset_args_checked"] = 2000
    req["array_calls"] = 400
    req["dimensionless_spec_args"] = 500
    req["unitless_values_for_declared_units"] = 1000
    return req


def shards(tier, seed):
    # "fraction": Fraction registry, declared units only given as Unit objects  -> every
    #             converted magnitude must be exactly (==) the model's value;
    # "fraction-str": Fraction registry, unit *strings* allowed as argument specs.  pint
    #             parses those without the registry (float ParserHelper) and caches the float
    #             factor under a key that equals the exact one, so exactness is lost for
    #             that spec AND for later conversions of the same pair (separate registry so
    #             that the exact shards stay uncontaminated and attributable);
    # "float":    default registry, 1e-12 relative.
    n = 16 if tier == "quick" else 24
    per = 1500 if tier == "quick" else 9000
    out = []
    for i in range(n):
        out.append({"kind": "main", "nit": ("fraction", "fraction-str", "float")[i % 3],
                    "n": per, "name": f"main-{i}"})
    return out


# --------------------------------------------------------------------------------------
# small value classes
# --------------------------------------------------------------------------------------
class AV:
    """One argument value: the object handed to the wrapper and what the oracle knows."""
    __slots__ = ("obj", "isq", "mag", "units", "label")

    def __init__(self, obj, isq, mag, units, label):
        self.obj, self.isq, self.mag, self.units, self.label = obj, isq, mag, units, label


class Param:
    __slots__ = ("name", "kind", "default")

    def __init__(self, name, kind):
        self.name, self.kind, self.default = name, kind, None   # default: AV or None


class Spec:
    """form: str | unit | none | ref ;  role: plain | none | def | dep."""
    def __init__(self, form, obj, sp=None, canon=None, refd=None, text=None):
        self.form, self.obj, self.sp, self.canon, self.refd = form, obj, sp, canon, refd
        self.canon_pool = None
        self.role = {"none": "none", "ref": "dep"}.get(form, "plain")
        self.sym = None
        self.text = text if text is not None else srepr(obj)


def srepr(o, depth=0):
    """repr that never formats a pint Unit/Quantity (D4: formatting raises in a Fraction
    registry) - units are shown as plain dicts."""
    try:
        if hasattr(o, "_magnitude") and hasattr(o, "_units"):
            return f"Q({o._magnitude!r}, {dict(o._units)!r})"
        if hasattr(o, "_units") and hasattr(o, "_REGISTRY"):
            return f"Unit({dict(o._units)!r})"
        if type(o).__name__ in ("UnitsContainer", "ParserHelper"):
            return f"{type(o).__name__}({dict(o)!r})"
        if isinstance(o, (list, tuple)) and depth < 4:
            inner = ", ".join(srepr(x, depth + 1) for x in o)
            return ("[%s]" if isinstance(o, list) else "(%s)") % inner
        if isinstance(o, dict) and depth < 4:
            return "{" + ", ".join(f"{k!r}: {srepr(v, depth + 1)}" for k, v in o.items()) + "}"
        if isinstance(o, BaseException):
            return f"{type(o).__name__}({', '.join(srepr(a, depth + 1) for a in o.args)})"[:400]
        return repr(o)
    except Exception as e:  # noqa: BLE001
        return f"<unreprable {type(o).__name__}: {type(e).__name__}>"


def fkey(d):
    return tuple(sorted(d.items()))


def merge(a, b, e=1):
    d = dict(a)
    for k, v in b.items():
        nv = d.get(k, 0) + v * e
        if nv == 0:
            d.pop(k, None)
        else:
            d[k] = nv
    return d


def render(d, style):
    """{spelling: int} -> unit expression string (three styles)."""
    pos = [(n, e) for n, e in d.items() if e > 0]
    neg = [(n, e) for n, e in d.items() if e < 0]

    def p(n, e):
        return n if e == 1 else f"{n}**{e}"
    if style == 0 or not neg:
        return " * ".join(p(n, e) for n, e in d.items())
    head = " * ".join(p(n, e) for n, e in pos) if pos else "1"
    s = head + "".join(" / " + p(n, -e) for n, e in neg)
    return s.replace(" ", "") if style == 2 and pos else s


def render_ref(d, style):
    """{symbol: int} -> '=A*B' style text."""
    if style == 1 and any(e < 0 for e in d.values()) and any(e > 0 for e in d.values()):
        pos = "*".join(s if e == 1 else f"{s}**{e}" for s, e in d.items() if e > 0)
        neg = "".join("/" + (s if e == -1 else f"{s}**{-e}") for s, e in d.items() if e < 0)
        return "=" + pos + neg
    return "=" + ("*" if style != 2 else " * ").join(
        s if e == 1 else f"{s}**{e}" for s, e in d.items())


# --------------------------------------------------------------------------------------
# the world: registry, model, pools, oracle primitives
# --------------------------------------------------------------------------------------
class World:
    def __init__(self, spec, rec):
        from harness import pintload, refmodel as R, gen
        import pint
        self.rec = rec
        self.rng = random.Random(spec["seed"])
        self.nitname = spec["nit"]
        self.nit = float if self.nitname == "float" else F
        self.allow_str = self.nitname != "fraction"
        self.m = R.default_model(pintload.REPO)
        self.ureg = pintload.registry(non_int_type=self.nit)
        self.Q = self.ureg.Quantity
        self.DimErr = pint.DimensionalityError
        m = self.m
        names = [c for c in gen.canonical_units(m, multiplicative=True, exact_only=True)
                 if m.root(c)[0].v > 0]
        ok = [c for c in names if self._valid(c, c)]
        rec.count("pool_units_excluded_by_spelling_validation", len(names) - len(ok))
        classes = gen.dimension_classes(m, ok)
        self.classes = {k: v for k, v in classes.items() if len(v) >= 2}
        self.class_keys = sorted(self.classes)
        # favour everyday dimensions a little, but keep every class reachable
        self.cls_of = {c: k for k, v in self.classes.items() for c in v}
        self.base_unit = {}
        for c in m.order:
            u = m.units[c]
            if u["is_base"] and not u["mods"]:
                dv = m.root(c)[2]
                if len(dv) == 1 and list(dv.values()) == [1]:
                    self.base_unit.setdefault(next(iter(dv)), c)
        self._exp = {}
        self._dim = {}
        self._spell_ok = {}
        self.tainted_quotients = set()
        rec.observe("pool", f"{len(self.cls_of)} units / {len(self.classes)} classes")

    # -- spelling validation (trusts pint's name resolution, nothing else) ----------------
    def _valid(self, spelling, canon):
        try:
            got = dict(self.ureg.parse_units(spelling)._units)
        except Exception:  # noqa: BLE001
            return False
        return got == {canon: 1}

    def spelled(self, c):
        """canonical pool unit -> (spelling, pint-canonical name of that spelling)."""
        rng, m = self.rng, self.m
        r = rng.random()
        cand = None
        if r < 0.22:
            p = rng.choice(PREFIXES)
            ps = p + c
            if ps not in m.spell and len(m.readings(ps)) == 1:
                cand = (ps, ps)
        elif r < 0.36:
            sym = m.units[c]["symbol"]
            if sym and sym.isidentifier() and sym.isascii() and m.spell.get(sym) == c:
                cand = (sym, c)
        elif r < 0.42:
            al = [a for a in m.units[c]["aliases"] if a.isidentifier() and a.isascii()
                  and m.spell.get(a) == c]
            if al:
                cand = (rng.choice(al), c)
        if cand is None:
            return c, c
        if cand not in self._spell_ok:
            self._spell_ok[cand] = self._valid(*cand)
            if not self._spell_ok[cand]:
                self.rec.count("spelling_excluded")
        if not self._spell_ok[cand]:
            return c, c
        self.cls_of.setdefault(cand[1], self.cls_of[c])
        return cand

    # -- unit dict generators ---------------------------------------------------------
    def compound(self, kmax=3):
        """-> canonical {pool unit: int}."""
        rng = self.rng
        k = rng.choice((1, 1, 1, 2, 2, 3)[:2 * kmax])
        d = {}
        for _ in range(k):
            c = rng.choice(self.classes[rng.choice(self.class_keys)])
            d = merge(d, {c: rng.choice((1, 1, 1, 2, -1, -1, -2))})
        return d or {rng.choice(self.classes[self.class_keys[0]]): 1}

    def spell_dict(self, canon):
        """canonical dict -> (spelled dict, pint-canonical dict)."""
        sp, cn = {}, {}
        for c, e in canon.items():
            s, n = self.spelled(c)
            sp = merge(sp, {s: e})
            cn = merge(cn, {n: e})
        return sp, cn

    def variant(self, canon):
        """A pint-canonical dict with the same dimension, other units/prefixes."""
        rng = self.rng
        out = {}
        for c, e in canon.items():
            k = self.cls_of[c]
            c2 = rng.choice(self.classes[k]) if rng.random() < 0.8 else c
            if c2 not in self.cls_of:
                c2 = c
            if rng.random() < 0.25:
                ps = rng.choice(PREFIXES) + c2
                if ps not in self.m.spell and len(self.m.readings(ps)) == 1:
                    key = (ps, ps)
                    if key not in self._spell_ok:
                        self._spell_ok[key] = self._valid(ps, ps)
                    if self._spell_ok[key]:
                        self.cls_of.setdefault(ps, k)
                        c2 = ps
            out = merge(out, {c2: e})
        return out

    def spoil(self, canon):
        """A dict whose dimension differs from `canon` (verified with the model)."""
        rng = self.rng
        for _ in range(8):
            extra = rng.choice(self.classes[rng.choice(self.class_keys)])
            d = merge(self.variant(canon), {extra: rng.choice((1, -1, 2))})
            if d and self.dim(d) != self.dim(canon):
                return d
        return None

    # -- model primitives ---------------------------------------------------------
    def expand(self, d):
        k = fkey(d)
        r = self._exp.get(k)
        if r is None:
            r = self._exp[k] = self.m.expand(d)[0]
            assert r.exact
        return r.v

    def dim(self, d):
        k = fkey(d)
        r = self._dim.get(k)
        if r is None:
            r = self._dim[k] = fkey(self.m.dimvec(d))
        return r

    def ratio(self, src, dst):
        return self.expand(src) / self.expand(dst)

    # -- attribution of lost exactness (Fraction registries) -------------------------------
    # wraps hands pint's converter two kinds of non-registry containers: a float ParserHelper
    # for a unit *string* spec, and a float `UnitsContainer({})` as the source of a bare
    # number given for a reference spec.  Both make the factor a float, and both are cached
    # (conversion_factor / root_units) under keys that compare equal to the exact registry
    # containers, so later conversions with the same src/dst quotient inherit the float.
    def quotient(self, src, dst):
        return fkey(merge(src, dst, -1))

    def note_direct(self, src, dst):
        self.tainted_quotients.add(self.quotient(src, dst))

    def inexact_via(self, direct, src, dst):
        if direct:
            return direct
        if self.quotient(src, dst) in self.tainted_quotients:
            return "cache-after-float-tainted-conversion"
        return "unattributed"

    def float_safe(self, src, dst):
        """Float registry only: compare magnitudes when no exponent exceeds 3 and the
        factors are far from the float range limits (intermediate products of CODATA-
        sized scales underflow to denormals beyond that)."""
        for d in (src, dst):
            if any(abs(e) > 3 for e in d.values()):
                return False
            f = self.expand(d)
            if not (F(1, 10 ** 100) < f < F(10 ** 100)):
                return False
        return True

    # -- numbers and quantities ---------------------------------------------------
    def number(self, allow_zero=True):
        rng = self.rng
        r = rng.random()
        if allow_zero and r < 0.03:
            v = F(0)
        elif r < 0.18:
            v = F(rng.randint(-50, 50) or 7)
            return int(v)
        else:
            v = F(rng.choice((1, 1, 1, -1)) * rng.randint(1, 9999),
                  rng.choice((1, 2, 3, 7, 10, 64, 100, 1000)))
        return v if self.nit is F else float(v)

    def quantity(self, canon, label):
        mag = self.number()
        if self.rng.random() < 0.3 and canon:
            q = self.Q(mag, render(canon, self.rng.randrange(3)))
        else:
            q = self.Q(mag, self.ureg.UnitsContainer(dict(canon)))
        return AV(q, True, mag, dict(canon), label)

    def bare(self, label="bare"):
        x = self.number()
        return AV(x, False, x, None, label)

    def other(self):
        o = self.rng.choice(("text", None, [1, 2], (3,), {"a": 1}, object()))
        return AV(o, False, o, None, "other")

    # -- comparison ---------------------------------------------------------
    def cmp_number(self, got, want):
        """-> None (equal) | 'inexact' (Fraction registry, within 1e-12) | 'wrong'."""
        if isinstance(got, bool) or not isinstance(got, (int, float, F)):
            return "wrong"
        if got != got:
            return "wrong"
        try:
            g = F(got)
        except (ValueError, OverflowError):
            return "wrong"
        if g == want:
            if self.nit is F and isinstance(got, float) and want.denominator != 1:
                return "inexact"
            return None
        close = abs(g - want) <= abs(want) * F(1, 10 ** 12)
        if self.nit is F:
            return "inexact" if close else "wrong"
        return None if close else "wrong"

    def units_equal(self, container, want):
        try:
            got = {k: F(v) for k, v in dict(container).items()}
        except Exception:  # noqa: BLE001
            return False
        return got == {k: F(v) for k, v in want.items()}


# --------------------------------------------------------------------------------------
# program generation
# --------------------------------------------------------------------------------------
def gen_params(W):
    rng = W.rng
    n = rng.choice((1, 2, 2, 3, 3, 3, 4, 4, 5))
    names = rng.sample(PNAMES, n)
    r = rng.random()
    n_ko = 0 if r < 0.6 else rng.randint(1, n)
    n_po = 0
    if rng.random() < 0.15:
        n_po = rng.randint(1, n - n_ko) if n - n_ko >= 1 else 0
    kinds = ["po"] * n_po + ["pk"] * (n - n_po - n_ko) + ["ko"] * n_ko
    params = [Param(nm, k) for nm, k in zip(names, kinds)]
    npos = n - n_ko
    d0 = npos if rng.random() < 0.45 else rng.randint(0, npos)
    has_default = [i >= d0 for i in range(npos)] + [rng.random() < 0.5 for _ in range(n_ko)]
    return params, has_default


def make_function(params, recorder, retbox):
    parts = []
    g = {"_REC": recorder, "_RET": retbox}
    for i, p in enumerate(params):
        if p.kind == "ko" and (i == 0 or params[i - 1].kind != "ko"):
            parts.append("*")
        if p.default is not None:
            g[f"_D{i}"] = p.default.obj
            parts.append(f"{p.name}=_D{i}")
        else:
            parts.append(p.name)
        if p.kind == "po" and (i + 1 == len(params) or params[i + 1].kind != "po"):
            parts.append("/")
    names = "".join(p.name + ", " for p in params)
    src = (f"def target({', '.join(parts)}):\n"
           f"    _REC.append(({names}))\n"
           f"    return _RET[0]\n")
    exec(compile(src, "<c17>", "exec"), g)  # noqa: S102 - generated, closed source text
    return g["target"], src


def gen_call_style(W, params):
    """-> list of 'pos' | 'kw' | 'omit' per parameter (a legal Python call)."""
    rng = W.rng
    pos_idx = [i for i, p in enumerate(params) if p.kind != "ko"]
    min_req = sum(1 for i in pos_idx if params[i].kind == "po" and params[i].default is None)
    npos = len(pos_idx)
    r = rng.random()
    if r < 0.35:
        npass = npos
    elif r < 0.5:
        npass = min_req
    else:
        npass = rng.randint(min_req, npos)
    style = []
    for i, p in enumerate(params):
        if p.kind != "ko" and i < npass:
            style.append("pos")
        elif p.kind == "po":
            style.append("omit")
        elif p.default is not None and rng.random() < 0.5:
            style.append("omit")
        else:
            style.append("kw")
    return style


def gen_wraps_specs(W, n):
    """-> (specs, templates {symbol: canonical dict})."""
    rng = W.rng
    use_refs = rng.random() < 0.6
    nsym = rng.randint(1, min(n, 3)) if use_refs else 0
    definers = dict(zip(rng.sample(range(n), nsym), SYMS[:nsym]))
    tmpl = {s: W.compound(kmax=2) for s in SYMS[:nsym]}
    specs = []
    for i in range(n):
        if i in definers:
            s = Spec("ref", "=" + definers[i], refd={definers[i]: 1}, text="=" + definers[i])
            specs.append(s)
            continue
        r = rng.random()
        if nsym and r < 0.42:
            specs.append(gen_ref(W, SYMS[:nsym]))
        elif r < 0.55:
            specs.append(Spec("none", None))
        else:
            specs.append(gen_plain(W))
    classify(specs)
    return specs, tmpl


def gen_ref(W, syms):
    rng = W.rng
    x = rng.choice(syms)
    y = rng.choice(syms)
    r = rng.random()
    if r < 0.25:
        d = {x: 1}
    elif r < 0.45:
        d = {x: 2}
    elif r < 0.65:
        d = merge({x: 1}, {y: 1})
    elif r < 0.8 and x != y:
        d = {x: 1, y: -1}
    elif r < 0.9:
        d = {x: -1}
    else:
        d = merge({x: 2}, {y: 1})
    text = render_ref(d, rng.randrange(3))
    return Spec("ref", text, refd=d, text=text)


def gen_plain(W, canon=None, ret=False):
    rng = W.rng
    canon = canon or W.compound()
    sp, cn = W.spell_dict(canon)
    text = render(sp, rng.randrange(3))
    if rng.random() < 0.4 or (not W.allow_str and not ret):
        return Spec("unit", W.ureg.Unit(text), sp=sp, canon=cn, text="Unit(%r)" % (text,))
    return Spec("str", text, sp=sp, canon=cn, text=text)


def classify(specs):
    """The oracle's own reading of the documented rule: a reference that names one symbol
    alone with exponent 1, for the first time (in parameter order), defines that symbol."""
    defined = set()
    for s in specs:
        if s.form != "ref":
            continue
        if len(s.refd) == 1:
            (k, e), = s.refd.items()
            if e == 1 and k not in defined:
                defined.add(k)
                s.role, s.sym = "def", k
                continue
        s.role = "dep"


def gen_ret(W, syms):
    rng = W.rng

    def one():
        r = rng.random()
        if r < 0.2:
            return Spec("none", None)
        if syms and r < 0.6:
            return gen_ref(W, syms)
        return gen_plain(W, ret=True)
    r = rng.random()
    if r < 0.5:
        return "scalar", one()
    k = rng.choice((1, 2, 2, 3))
    return ("tuple" if r < 0.85 else "list"), [one() for _ in range(k)]


def gen_value(W, spec, tmpl, strict, clean):
    """A value for a parameter governed by `spec` (templates give the symbols' dimension)."""
    rng = W.rng
    r = rng.random()
    if spec.role == "none":
        if r < 0.4:
            return W.quantity(W.variant(W.compound()), "anyq")
        return W.bare() if r < 0.7 else W.other()
    if spec.role == "plain":
        if clean:
            if not strict and r < 0.3:
                return W.bare()
            return W.quantity(W.variant(spec.canon_pool), "compat")
        if r < 0.55:
            return W.quantity(W.variant(spec.canon_pool), "compat")
        if r < 0.8:
            d = W.spoil(spec.canon_pool)
            if d:
                return W.quantity(d, "incompat")
        return W.bare()
    if spec.role == "def":
        if clean or r < 0.8:
            return W.quantity(W.variant(tmpl[spec.sym]), "compat")
        if r < 0.9:
            return W.quantity(W.variant(W.compound()), "anyq")
        return W.bare()
    # dependent
    target = {}
    for s, e in spec.refd.items():
        target = merge(target, tmpl[s], e)
    if clean or r < 0.6:
        return W.quantity(W.variant(target), "compat")
    if r < 0.8:
        d = W.spoil(target)
        if d:
            return W.quantity(d, "incompat")
    return W.bare()


def attach_pool_canon(W, specs):
    """Every plain spec remembers its pint-canonical dict; `variant` substitutes class-wise
    (prefixed names were registered in `cls_of` when they were spelled)."""
    for s in specs:
        if s.role == "plain":
            for n in s.canon:
                if n not in W.cls_of:
                    raise KeyError(n)
            s.canon_pool = dict(s.canon)


# --------------------------------------------------------------------------------------
# calling and judging
# --------------------------------------------------------------------------------------
def bind(params, style, values):
    """-> (args, kwargs, bound AV per param, flags)."""
    args, kwargs, bound = [], {}, []
    flags = {"kw": 0, "defaults": 0, "posonly_default_omitted": False}
    for p, st, v in zip(params, style, values):
        if st == "pos":
            args.append(v.obj)
            bound.append(v)
        elif st == "kw":
            kwargs[p.name] = v.obj
            bound.append(v)
            flags["kw"] += 1
        else:
            bound.append(p.default)
            flags["defaults"] += 1
            if p.kind == "po":
                flags["posonly_default_omitted"] = True
    return args, kwargs, bound, flags


def shuffled_kwargs(W, kwargs):
    items = list(kwargs.items())
    W.rng.shuffle(items)
    return dict(items)


def describe(prog, style, bound):
    return {
        "source": prog["src"],
        "specs": [s.text for s in prog["specs"]],
        "roles": [s.role for s in prog["specs"]],
        "ret": prog.get("ret_text"),
        "strict": prog.get("strict"),
        "style": style,
        "values": [srepr(b.obj) if b is not None else None for b in bound],
        "defaults": [srepr(p.default.obj) if p.default is not None else None
                     for p in prog["params"]],
    }


def run_wraps_program(W, rec):
    rng, ureg = W.rng, W.ureg
    params, has_default = gen_params(W)
    n = len(params)
    specs, tmpl = gen_wraps_specs(W, n)
    attach_pool_canon(W, specs)
    strict = rng.random() < 0.55
    syms = sorted({s.sym for s in specs if s.role == "def"})
    ret_form, ret = gen_ret(W, syms)
    for p, hd, s in zip(params, has_default, specs):
        if hd:
            p.default = gen_value(W, s, tmpl, strict, clean=rng.random() < 0.8)
    recorder = []
    k = 1 if ret_form == "scalar" else len(ret)
    retvals = [W.number() for _ in range(k)]
    retbox = [retvals[0] if ret_form == "scalar" else tuple(retvals)]
    func, src = make_function(params, recorder, retbox)
    spec_objs = [s.obj for s in specs]
    r = rng.random()
    if n == 1 and r < 0.3:
        spec_arg = spec_objs[0]
    elif r < 0.65:
        spec_arg = tuple(spec_objs)
    else:
        spec_arg = list(spec_objs)
    if ret_form == "scalar":
        ret_arg = ret.obj
    else:
        ret_arg = (tuple if ret_form == "tuple" else list)(x.obj for x in ret)
    prog = {"params": params, "specs": specs, "src": src, "strict": strict,
            "ret_text": srepr(ret_arg)}
    rec.count("programs_wraps")
    try:
        if strict and rng.random() < 0.5:
            wrapped = ureg.wraps(ret_arg, spec_arg)(func)      # strict is the default
            rec.count("strict_by_default_programs")
        else:
            wrapped = ureg.wraps(ret_arg, spec_arg, strict=strict)(func)
    except Exception as e:  # noqa: BLE001
        rec.violation("wraps-decoration-raised",
                      dict(describe(prog, None, []), err=srepr(e)[:300]),
                      decorator="wraps", exc=type(e).__name__)
        return
    if getattr(wrapped, "__name__", None) != "target":
        rec.violation("wraps-metadata", {"name": getattr(wrapped, "__name__", None)},
                      decorator="wraps")
    for call_no in range(rng.choice((3, 4, 5))):
        clean = call_no == 0 or rng.random() < 0.35
        style = gen_call_style(W, params)
        values = [gen_value(W, s, tmpl, strict, clean) for s in specs]
        judge_wraps_call(W, rec, prog, wrapped, recorder, style, values, strict,
                         ret_form, ret, retvals, retbox)


def judge_wraps_call(W, rec, prog, wrapped, recorder, style, values, strict,
                     ret_form, ret, retvals, retbox):
    params, specs = prog["params"], prog["specs"]
    args, kwargs, bound, flags = bind(params, style, values)
    kwargs = shuffled_kwargs(W, kwargs)
    # ---- oracle -----------------------------------------------------------------------
    errs = set()
    exp = [None] * len(params)
    symunits = {}
    zero_def_neg = False
    for s, b in zip(specs, bound):
        if s.role == "def":
            symunits[s.sym] = dict(b.units) if b.isq else {}
    for i, (s, b) in enumerate(zip(specs, bound)):
        if s.role == "none":
            exp[i] = ("is", b.obj)
        elif s.role == "def":
            exp[i] = ("is", b.mag)
        elif s.role == "plain":
            if b.isq:
                if W.dim(b.units) != W.dim(s.sp):
                    errs.add("dim")
                else:
                    rt = W.ratio(b.units, s.sp)
                    dst = s.sp if s.form == "str" else s.canon
                    direct = "string-spec" if s.form == "str" else None
                    exp[i] = ("val", F(b.mag) * rt, rt, W.float_safe(b.units, s.sp),
                              b.units, dst, direct)
            elif strict:
                errs.add("refused")
            else:
                exp[i] = ("is", b.obj)
        else:
            target = {}
            for sym, e in s.refd.items():
                target = merge(target, symunits[sym], e)
            src = b.units if b.isq else {}
            if not b.isq:
                rec.count("ref_bare_as_dimensionless")
            if W.dim(src) != W.dim(target):
                errs.add("dim")
            else:
                rt = W.ratio(src, target)
                direct = None if b.isq else "bare-number-for-reference-spec"
                exp[i] = ("val", F(b.mag) * rt, rt, W.float_safe(src, target),
                          src, target, direct)
    # conversions happen (and are cached) even in calls that end with an error raised for
    # another parameter, so float-tainting routes are noted before the call is made
    for e in exp:
        if e is not None and e[0] == "val" and e[6]:
            W.note_direct(e[4], e[5])
    # pint derives the symbols' units by real quantity arithmetic (value ** exponent): a
    # zero-valued definition under a negative exponent is an observable special case
    ret_list = [ret] if ret_form == "scalar" else ret
    for s in list(specs) + (list(ret_list) if not errs else []):
        if s.form == "ref" and s.role != "def":
            for sym, e in s.refd.items():
                bi = next(b for sp_, b in zip(specs, bound) if sp_.role == "def" and sp_.sym == sym)
                if e < 0 and bi.mag == 0:
                    zero_def_neg = True
    # ---- run --------------------------------------------------------------------------
    del recorder[:]
    try:
        out = wrapped(*args, **kwargs)
        raised = None
    except Exception as e:  # noqa: BLE001
        out, raised = None, e
    spec_forms = tuple(s.form if s.role in ("plain", "none") else s.role for s in specs)
    outcome = ("err:" + type(raised).__name__) if raised is not None else "ok"
    key = ("wraps", tuple(p.kind + ("d" if p.default is not None else "") for p in params),
           spec_forms, ret_form, strict, tuple(style),
           tuple(b.label for b in bound), outcome)
    rec.case(key, nontrivial=any(s.role != "none" for s in specs))
    rec.observe("wraps_outcomes", outcome)
    rec.count("kw_passed_args", flags["kw"])
    rec.count("defaults_used_args", flags["defaults"])
    for p, st in zip(params, style):
        rec.observe("passing", f"{p.kind}:{st}")
    wit = None

    def witness(**extra):
        nonlocal wit
        if wit is None:
            wit = describe(prog, style, bound)
            wit["args"] = [srepr(a) for a in args]
            wit["kwargs"] = {k: srepr(v) for k, v in kwargs.items()}
            wit["registry"] = W.nitname
        return dict(wit, **extra)

    common = {"decorator": "wraps", "registry": W.nitname}
    if W.nit is float and isinstance(raised, OverflowError):
        # e.g. conventional_watt_90**6: the float factor itself leaves the double range
        rec.count("float_range_skipped_calls")
        return
    if flags["posonly_default_omitted"]:
        rec.count("posonly_default_omitted_calls")
        if type(raised) is TypeError and "positional-only" in str(raised):
            rec.violation("default-of-positional-only-parameter-passed-as-keyword",
                          witness(err=srepr(raised)[:300]), **common)
            return
    if zero_def_neg:
        rec.count("zero_definition_negative_exponent_calls")
        if isinstance(raised, ZeroDivisionError):
            rec.violation("reference-units-derived-from-zero-magnitude",
                          witness(err=srepr(raised)[:300]), **common)
            return
    if errs:
        if raised is None:
            rec.violation("wraps-accepted-bad-argument",
                          witness(expected=sorted(errs), received=srepr(recorder)[:300]),
                          expected="+".join(sorted(errs)), strict=strict, **common)
            return
        if recorder:
            rec.violation("wraps-called-function-before-refusing", witness(), **common)
        if errs == {"dim"}:
            rec.count("wraps_dimerr_calls")
            if not isinstance(raised, W.DimErr):
                rec.violation("wraps-wrong-error-for-incompatible-argument",
                              witness(err=srepr(raised)[:300]), exc=type(raised).__name__,
                              **common)
        elif errs == {"refused"}:
            rec.count("strict_refused_calls")
            rec.observe("strict_refusal_exception", type(raised).__name__)
        else:
            rec.count("wraps_multi_error_calls")
        return
    if raised is not None:
        rec.violation("wraps-raised-on-valid-call", witness(err=srepr(raised)[:300]),
                      exc=type(raised).__name__, strict=strict, **common)
        return
    rec.count("wraps_ok_calls")
    if len(recorder) != 1:
        rec.violation("wraps-function-call-count", witness(calls=len(recorder)), **common)
        return
    got = recorder[0]
    for i, (s, b, e, g) in enumerate(zip(specs, bound, exp, got)):
        role = s.role
        form = s.form
        if e[0] == "is":
            if role == "none":
                rec.count("none_passthrough_args")
                if strict and not b.isq:
                    rec.count("none_spec_non_quantity_in_strict_mode")
            elif role == "def":
                rec.count("def_args_checked")
            else:
                rec.count("nonstrict_passthrough_args")
            if g is not e[1] and not (type(g) is type(e[1]) and not b.isq and g == e[1]
                                      and role != "none"):
                rec.violation("wraps-argument-not-passed-through",
                              witness(index=i, got=srepr(g), want=srepr(e[1])),
                              role=role, strict=strict, **common)
            continue
        rec.count("converted_args_checked")
        if e[2] != 1:
            rec.count("converted_args_ratio_ne_1")
        if role == "dep":
            rec.count("dep_args_checked")
            if any(sp_.role == "def" and sp_.sym in s.refd for sp_ in specs[i + 1:]):
                rec.count("dep_before_its_definition_checked")
        if style[i] == "kw":
            rec.count("converted_kw_args")
        elif style[i] == "omit":
            rec.count("converted_default_args")
        if W.nit is float and not e[3]:
            # e.g. bohr_magneton**6: pint's float root factor passes through a denormal
            # (e**6 * hbar**6 ~ 1e-317) and loses 1e-9 - float range, not a wraps matter;
            # the same cases are decided exactly in the Fraction shards
            rec.count("float_range_skipped")
            continue
        c = W.cmp_number(g, e[1])
        if c == "inexact":
            rec.violation("wraps-argument-inexact-in-fraction-registry",
                          witness(index=i, got=srepr(g), want=str(e[1])),
                          via=W.inexact_via(e[6], e[4], e[5]), **common)
        elif c == "wrong":
            rec.violation("wraps-argument-magnitude",
                          witness(index=i, got=srepr(g), want=str(e[1]),
                                  want_float=float(e[1])),
                          role=role, spec_form=form, passing=style[i], **common)
    # ---- return value -----------------------------------------------------------------
    def judge_ret(s, res, rv, where):
        if s.role == "none":
            if res is not rv:
                rec.violation("wraps-return-none-spec-altered",
                              witness(got=srepr(res), want=srepr(rv)), ret=where, **common)
            return
        if s.form == "ref":
            want_units = {}
            for sym, e in s.refd.items():
                want_units = merge(want_units, symunits[sym], e)
            rec.count("ret_derived_checked")
        else:
            want_units = s.canon
        if not isinstance(res, W.Q):
            rec.violation("wraps-return-not-quantity", witness(got=srepr(res)), ret=where,
                          **common)
            return
        if not W.units_equal(res._units, want_units):
            rec.violation("wraps-return-units",
                          witness(got=srepr(dict(res._units)), want=srepr(want_units)),
                          ret=where, ret_form=s.form, **common)
        m_ = res._magnitude
        if not (m_ is rv or (type(m_) is type(rv) and m_ == rv)):
            rec.violation("wraps-return-magnitude", witness(got=srepr(m_), want=srepr(rv)),
                          ret=where, ret_form=s.form, **common)

    if ret_form == "scalar":
        rec.count("ret_scalar_checked")
        judge_ret(ret, out, retvals[0], "scalar")
    else:
        rec.count("ret_container_checked")
        cls = tuple if ret_form == "tuple" else list
        if type(out) is not cls or len(out) != len(ret):
            rec.violation("wraps-return-container", witness(got=srepr(out)), ret=ret_form,
                          **common)
        else:
            for s, res, rv in zip(ret, out, retvals):
                judge_ret(s, res, rv, ret_form)
    if W.rng.random() < 0.01:
        rec.sample({"source": prog["src"], "specs": [s.text for s in specs],
                    "ret": prog["ret_text"], "strict": strict,
                    "args": [srepr(a) for a in args],
                    "kwargs": {k: srepr(v) for k, v in kwargs.items()},
                    "received": srepr(got), "returned": srepr(out)})


# --------------------------------------------------------------------------------------
# ureg.check
# --------------------------------------------------------------------------------------
def render_dims(W, dv, style):
    """model dimension vector (tuple of (dim, exp)) -> '[length] / [time] ** 2' text."""
    d = {k: v for k, v in dv}
    if not d:
        return W.rng.choice(("", "[]"))
    if any(F(v).denominator != 1 for v in d.values()):
        return None
    return render({k: int(v) for k, v in d.items()}, style)


def gen_check_spec(W):
    """-> Spec-like with .dimkey (model dimension vector) ; role plain | none."""
    rng = W.rng
    r = rng.random()
    if r < 0.15:
        return Spec("none", None)
    canon = W.compound()
    sp, cn = W.spell_dict(canon)
    dv = W.dim(sp)
    text = render(sp, rng.randrange(3))
    if r < 0.35:
        s = Spec("str", text, sp=sp, canon=cn, text=text)
    elif r < 0.5:
        s = Spec("unit", W.ureg.Unit(text), sp=sp, canon=cn, text="Unit(%r)" % (text,))
    elif r < 0.6:
        s = Spec("container", W.ureg.UnitsContainer(dict(cn)), sp=sp, canon=cn,
                 text="UnitsContainer(%r)" % cn)
    elif r < 0.85:
        t = render_dims(W, dv, rng.randrange(3))
        if t is None:
            s = Spec("str", text, sp=sp, canon=cn, text=text)
        elif rng.random() < 0.25 and t not in ("", "[]"):
            dd = {k: int(v) for k, v in dv}
            s = Spec("dimcontainer", W.ureg.UnitsContainer(dd), sp=sp, canon=cn,
                     text="UnitsContainer(%r)" % dd)
        else:
            s = Spec("dimstr", t, sp=sp, canon=cn, text=t)
    else:
        # a derived dimension name of the model, realised by base units
        name = rng.choice(W.derived_dims)
        dvec = W.m.dimvec({name: 1})
        canon = {}
        for bd, e in dvec.items():
            if bd not in W.base_unit or F(e).denominator != 1:
                canon = None
                break
            canon = merge(canon, {W.base_unit[bd]: int(e)})
        if not canon or any(c not in W.cls_of for c in canon):
            s = Spec("str", text, sp=sp, canon=cn, text=text)
        else:
            s = Spec("deriveddim", name, sp=dict(canon), canon=dict(canon), text=name)
    s.role = "plain" if s.form != "none" else "none"
    return s


def run_check_program(W, rec):
    rng, ureg = W.rng, W.ureg
    params, has_default = gen_params(W)
    specs = [gen_check_spec(W) for _ in params]
    attach_pool_canon(W, specs)
    for p, hd, s in zip(params, has_default, specs):
        if hd:
            p.default = gen_check_value(W, s, clean=rng.random() < 0.8)
    recorder = []
    sentinel = object()
    retbox = [sentinel]
    func, src = make_function(params, recorder, retbox)
    prog = {"params": params, "specs": specs, "src": src}
    rec.count("programs_check")
    try:
        wrapped = ureg.check(*[s.obj for s in specs])(func)
    except Exception as e:  # noqa: BLE001
        rec.violation("check-decoration-raised",
                      dict(describe(prog, None, []), err=srepr(e)[:300]),
                      decorator="check", exc=type(e).__name__,
                      spec_forms=sorted({s.form for s in specs}))
        return
    for call_no in range(rng.choice((3, 4, 5))):
        clean = call_no == 0 or rng.random() < 0.4
        style = gen_call_style(W, params)
        values = [gen_check_value(W, s, clean) for s in specs]
        args, kwargs, bound, flags = bind(params, style, values)
        kwargs = shuffled_kwargs(W, kwargs)
        bad = []
        for i, (s, b) in enumerate(zip(specs, bound)):
            if s.role == "none":
                continue
            src_units = b.units if b.isq else {}
            if W.dim(src_units) != W.dim(s.sp):
                bad.append(i)
        del recorder[:]
        try:
            out = wrapped(*args, **kwargs)
            raised = None
        except Exception as e:  # noqa: BLE001
            out, raised = None, e
        outcome = ("err:" + type(raised).__name__) if raised is not None else "ok"
        key = ("check", tuple(p.kind + ("d" if p.default is not None else "") for p in params),
               tuple(s.form for s in specs), tuple(style), tuple(b.label for b in bound),
               tuple(bad), outcome)
        rec.case(key, nontrivial=any(s.role != "none" for s in specs))
        rec.observe("check_outcomes", outcome)
        rec.count("kw_passed_args", flags["kw"])
        rec.count("defaults_used_args", flags["defaults"])
        for s in specs:
            rec.observe("check_spec_forms", s.form)
        common = {"decorator": "check", "registry": W.nitname}

        def witness(**extra):
            w = describe(prog, style, bound)
            w["args"] = [srepr(a) for a in args]
            w["kwargs"] = {k: srepr(v) for k, v in kwargs.items()}
            w["mismatching_positions"] = bad
            return dict(w, **extra)

        if flags["posonly_default_omitted"]:
            rec.count("posonly_default_omitted_calls")
            if type(raised) is TypeError and "positional-only" in str(raised):
                rec.violation("default-of-positional-only-parameter-passed-as-keyword",
                              witness(err=srepr(raised)[:300]), **common)
                continue
        if bad:
            rec.count("check_raise_calls")
            if len(bad) == 1 and bad[0] > 0:
                rec.count("check_raise_only_at_later_position")
            if raised is None:
                rec.violation("check-accepted-wrong-dimension",
                              witness(received=srepr(recorder)[:300]),
                              first_bad_is_position_0=bad[0] == 0,
                              value_kind=bound[bad[0]].label, spec_form=specs[bad[0]].form,
                              **common)
            elif not isinstance(raised, W.DimErr):
                rec.violation("check-wrong-error", witness(err=srepr(raised)[:300]),
                              exc=type(raised).__name__, value_kind=bound[bad[0]].label,
                              spec_form=specs[bad[0]].form, **common)
            elif recorder:
                rec.violation("check-called-function-before-refusing", witness(), **common)
            continue
        rec.count("check_pass_calls")
        if raised is not None:
            rec.violation("check-raised-on-matching-dimensions",
                          witness(err=srepr(raised)[:300]), exc=type(raised).__name__,
                          spec_forms=sorted({s.form for s in specs}), **common)
            continue
        if len(recorder) != 1 or out is not sentinel:
            rec.violation("check-call-or-return-altered",
                          witness(calls=len(recorder), out=srepr(out)), **common)
            continue
        for i, (b, g) in enumerate(zip(bound, recorder[0])):
            rec.count("check_args_identity_checked")
            if g is not b.obj:
                rec.violation("check-argument-altered",
                              witness(index=i, got=srepr(g), want=srepr(b.obj)), **common)


def gen_check_value(W, spec, clean):
    rng = W.rng
    r = rng.random()
    if spec.role == "none":
        if r < 0.4:
            return W.quantity(W.variant(W.compound()), "anyq")
        return W.bare() if r < 0.7 else W.other()
    dimless = W.dim(spec.sp) == ()
    if clean:
        if dimless and r < 0.3:
            return W.bare("bare-dimensionless-ok")
        return W.quantity(W.variant(spec.canon_pool), "compat")
    if r < 0.5:
        return W.quantity(W.variant(spec.canon_pool), "compat")
    if r < 0.85:
        d = W.spoil(spec.canon_pool)
        if d:
            return W.quantity(d, "incompat")
    return W.bare("bare-dimensionless-ok" if dimless else "bare")


# --------------------------------------------------------------------------------------
# decoration-time parameter-count mismatch
# --------------------------------------------------------------------------------------
def run_mismatch_program(W, rec):
    rng, ureg = W.rng, W.ureg
    params, has_default = gen_params(W)
    n = len(params)
    for p, hd in zip(params, has_default):
        if hd:
            p.default = W.bare()
    recorder = []
    func, src = make_function(params, recorder, [None])
    m = rng.choice([k for k in range(0, 8) if k != n])
    which = "wraps" if rng.random() < 0.5 else "check"
    if which == "wraps":
        nsym = rng.randint(0, min(m, 2))
        objs = []
        for i in range(m):
            if i < nsym:
                objs.append("=" + SYMS[i])
            else:
                r = rng.random()
                objs.append(None if r < 0.3 else (gen_ref(W, SYMS[:nsym]).obj
                                                  if nsym and r < 0.5 else gen_plain(W).obj))
        rng.shuffle(objs)
        if m == 1 and rng.random() < 0.5:
            spec_arg = objs[0]
        else:
            spec_arg = (tuple if rng.random() < 0.5 else list)(objs)
        retspec = rng.choice((None, "meter", ("meter", None)))
        strict = rng.random() < 0.5

        def decorate():
            return ureg.wraps(retspec, spec_arg, strict=strict)(func)
        text = srepr(spec_arg)
    else:
        objs = [gen_check_spec(W).obj for _ in range(m)]

        def decorate():
            return ureg.check(*objs)(func)
        text = srepr(objs)
    rec.count("deco_mismatch_" + which)
    rec.case(("mismatch", which, n, m, tuple(p.kind for p in params)))
    try:
        wrapped = decorate()
    except Exception as e:  # noqa: BLE001
        rec.observe("deco_mismatch_exception", f"{which}:{type(e).__name__}")
        if recorder:
            rec.violation("function-called-during-decoration", {"source": src},
                          decorator=which)
        return
    rec.violation("parameter-count-mismatch-accepted-at-decoration",
                  {"source": src, "specs": text, "nparams": n, "nspecs": m,
                   "wrapped": srepr(wrapped)},
                  decorator=which, more_specs_than_params=m > n)


# --------------------------------------------------------------------------------------
# offset units with declared-unit specs (model: K = x * scale + offset)
# --------------------------------------------------------------------------------------
def run_offsets(W, rec):
    m, ureg, Q = W.m, W.ureg, W.Q
    temps = [c for c in m.order if m.root(c)[2] == {"[temperature]": F(1)}
             and m.root(c)[0].exact and set(m.units[c]["mods"]) <= {"offset"}]
    temps = [c for c in temps if W._valid(c, c)]
    rec.observe("offset_units", ",".join(sorted(temps)))

    def to_k(c, x):
        u = m.units[c]
        off = u["mods"]["offset"].v if "offset" in u["mods"] else F(0)
        return x * m.root(c)[0].v + off

    def from_k(c, k):
        u = m.units[c]
        off = u["mods"]["offset"].v if "offset" in u["mods"] else F(0)
        return (k - off) / m.root(c)[0].v

    xs = [F(0), F(20), F(-40), F(37315, 100), F(1, 3)]
    for a in temps:
        for b in temps:
            for form in (("unit", "str") if W.allow_str else ("unit",)):
                specobj = b if form == "str" else ureg.Unit(b)
                got = []

                def f(t):
                    got.append(t)
                    return 5
                w = ureg.wraps(specobj, (specobj,))(f)
                for x in xs:
                    xv = x if W.nit is F else float(x)
                    want = from_k(b, to_k(a, x))
                    del got[:]
                    rec.case(("offset", a, b, form, str(x)),
                             nontrivial=a != b)
                    rec.count("offset_args_checked")
                    if form == "str":
                        W.note_direct({a: 1}, {b: 1})
                    try:
                        out = w(Q(xv, a))
                    except Exception as e:  # noqa: BLE001
                        rec.violation("wraps-offset-raised",
                                      {"src": a, "dst": b, "x": str(x), "err": srepr(e)[:200]},
                                      decorator="wraps", registry=W.nitname)
                        continue
                    ok = len(got) == 1
                    if ok:
                        close = abs(F(got[0]) - want) <= F(1, 10 ** 9) * max(abs(want), 1)
                        if W.nit is F:
                            ok = isinstance(got[0], (int, F)) and got[0] == want
                            if not ok and close:
                                rec.violation(
                                    "wraps-argument-inexact-in-fraction-registry",
                                    {"src": a, "dst": b, "x": str(x), "got": srepr(got),
                                     "want": str(want)},
                                    via=W.inexact_via(
                                        "string-spec" if form == "str" else None,
                                        {a: 1}, {b: 1}),
                                    decorator="wraps", registry=W.nitname)
                                ok = True
                        else:
                            ok = close
                    if not ok:
                        rec.violation("wraps-offset-argument-magnitude",
                                      {"src": a, "dst": b, "x": str(x), "got": srepr(got),
                                       "want": str(want)},
                                      decorator="wraps", registry=W.nitname, spec_form=form)
                    if not (isinstance(out, Q) and dict(out._units) == {b: 1}
                            and out._magnitude == 5):
                        rec.violation("wraps-return-units",
                                      {"dst": b, "out": srepr(out)}, decorator="wraps",
                                      registry=W.nitname, ret="offset")


def run_dimensionless(W, rec):
    """A parameter declared dimensionless ('' / 'dimensionless' / ureg.dimensionless / Unit('')): an
    EMPTY units container is still a declaration - arguments are converted to plain numbers,
    dimensional quantities are refused, bare numbers follow the strict rule."""
    m, ureg, Q, pint = W.m, W.ureg, W.Q, W.pint if hasattr(W, "pint") else __import__("pint")
    dimless = [c for c in m.order if not m.root(c)[2] and m.is_multiplicative(c) and m.root(c)[0].exact
               and m.root(c)[0].v > 0 and W._valid(c, c)][:12]
    rec.observe("dimensionless_units", ",".join(dimless))
    specs = [("''", ""), ("'dimensionless'", "dimensionless"), ("ureg.dimensionless", ureg.dimensionless),
             ("Unit('')", ureg.Unit(""))]
    if not W.allow_str:
        specs = specs[2:]
    for label, specobj in specs:
        for strict in (True, False):
            got = []
            w = ureg.wraps(None, (specobj,), strict=strict)(lambda x: got.append(x))
            fields = dict(decorator="wraps", registry=W.nitname, strict=strict, spec="dimensionless")
            for c in dimless + [""]:
                x = F(7, 2) if W.nit is F else 3.5
                want = F(7, 2) * (m.root(c)[0].v if c else 1)
                del got[:]
                rec.count("dimensionless_spec_args")
                rec.case(("dimless-spec", label, strict, c), nontrivial=bool(c))
                try:
                    w(Q(x, c))
                except Exception as e:  # noqa: BLE001
                    rec.violation("wraps-raised-on-valid-call", {"spec": label, "arg": f"{x} {c}", "err": srepr(e)[:200]},
                                  exc=type(e).__name__, **fields)
                    continue
                ok = len(got) == 1 and not hasattr(got[0], "_units") and isinstance(got[0], (int, float, F)) \
                    and abs(F(got[0]) - want) <= F(1, 10 ** 12) * abs(want)
                if not ok:
                    rec.violation("wraps-dimensionless-argument", {"spec": label, "arg": f"{x} {c}", "got": srepr(got),
                                                                   "want": str(want)}, **fields)
            # a dimensional quantity is refused
            for bad in ("second", "meter / second"):
                rec.count("dimensionless_spec_args")
                try:
                    w(Q(3, bad))
                    rec.violation("wraps-accepted-incompatible-argument", {"spec": label, "arg": "3 " + bad}, **fields)
                except pint.DimensionalityError:
                    pass
                except Exception as e:  # noqa: BLE001
                    rec.violation("wraps-wrong-exception", {"spec": label, "arg": "3 " + bad, "err": srepr(e)[:200]},
                                  exc=type(e).__name__, **fields)
            # bare number: refused when strict, handed over unchanged otherwise
            del got[:]
            rec.count("dimensionless_spec_args")
            try:
                w(0.25)
                if strict:
                    rec.violation("wraps-strict-accepted-bare-number", {"spec": label, "arg": "0.25"}, **fields)
                elif got != [0.25]:
                    rec.violation("wraps-dimensionless-argument", {"spec": label, "arg": "0.25 (bare)", "got": srepr(got),
                                                                   "want": "0.25"}, **fields)
            except ValueError:
                if not strict:
                    rec.violation("wraps-nonstrict-refused-bare-number", {"spec": label, "arg": "0.25"}, **fields)
            except Exception as e:  # noqa: BLE001
                rec.violation("wraps-wrong-exception", {"spec": label, "arg": "0.25 (bare)", "err": srepr(e)[:200]},
                              exc=type(e).__name__, **fields)


def run_strict_bare(W, rec):
    """Unit-less values of every shape for a parameter with declared units: refused with ValueError in
    strict mode, handed over untouched otherwise (the statement says 'bare numbers'; sequences and arrays
    of numbers are the same thing to a wrapped numerical function)."""
    import numpy as np
    from decimal import Decimal
    ureg, Q = W.ureg, W.Q
    values = [("int", 3), ("float", 2.5), ("Fraction", F(7, 2)), ("Decimal", Decimal("1.5")), ("np.float64", np.float64(2.5)),
              ("list", [1.0, 2.0]), ("tuple", (3.0,)), ("ndarray", np.array([1.0, 2.0])), ("0-d ndarray", np.array(3.0)),
              ("int ndarray", np.array([1, 2]))]
    for unit in ("meter", "second", "kilogram * meter / second ** 2"):
        specobj = ureg.Unit(unit)
        for strict in (True, False):
            for pos in ("positional", "keyword", "second-parameter"):
                got = []
                if pos == "second-parameter":
                    w = ureg.wraps(None, (None, specobj), strict=strict)(lambda a, b: got.append(b))
                else:
                    w = ureg.wraps(None, (specobj,), strict=strict)(lambda b: got.append(b))
                for label, v in values:
                    del got[:]
                    rec.count("unitless_values_for_declared_units")
                    rec.case(("strict-bare", unit, strict, pos, label), nontrivial=True)
                    fields = dict(decorator="wraps", registry=W.nitname, strict=strict, value_kind=label)
                    try:
                        if pos == "positional":
                            w(v)
                        elif pos == "keyword":
                            w(b=v)
                        else:
                            w(1, v)
                        raised = None
                    except ValueError:
                        raised = "ValueError"
                    except Exception as e:  # noqa: BLE001
                        raised = type(e).__name__
                    if strict:
                        if raised != "ValueError":
                            rec.violation("wraps-strict-accepted-bare-number",
                                          {"unit": unit, "value": srepr(v), "how": pos, "outcome": raised or "accepted"}, **fields)
                    else:
                        same = len(got) == 1 and (got[0] is v or (type(got[0]) is type(v) and np.all(np.asarray(got[0]) == np.asarray(v))))
                        if raised or not same:
                            rec.violation("wraps-nonstrict-passthrough-changed",
                                          {"unit": unit, "value": srepr(v), "how": pos, "outcome": raised or srepr(got)}, **fields)


def run_arrays(W, rec, n):
    """ndarray magnitudes, each wrapped function called TWICE with the very same argument objects:
    both calls must receive the converted numbers and the caller's quantities must be left alone."""
    import numpy as np
    ureg, Q, rng = W.ureg, W.Q, W.rng
    for _ in range(n):
        canon = W.compound(2)
        src = W.variant(canon)
        if not W.float_safe(src, canon):
            continue
        fac = W.ratio(src, canon)
        if fac is None:
            continue
        form = rng.choice(("plain", "plain", "def-dep"))
        base = np.array([float(W.number(allow_zero=False)) for _ in range(rng.randint(1, 4))], dtype=float)
        arg = Q(base.copy(), ureg.UnitsContainer(dict(src)))
        got = []
        if form == "plain":
            w = ureg.wraps(None, (ureg.Unit(ureg.UnitsContainer(dict(canon))),))(lambda a: got.append(np.array(a, copy=True)))
            args = (arg,)
            want = [base * float(fac)]
        else:
            # '=A' takes the first argument as it is, '=A' again converts the second into the first's units
            other = Q(base.copy() * 2.0, ureg.UnitsContainer(dict(canon)))
            w = ureg.wraps(None, ("=A", "=A"))(lambda a, b: got.extend([np.array(a, copy=True), np.array(b, copy=True)]))
            args = (other, arg)
            want = [base * 2.0, base * float(fac)]
        snap = [(np.array(a.magnitude, copy=True), dict(a._units.items())) for a in args]
        rec.case(("arrays", form, fkey(src), fkey(canon)), nontrivial=src != canon)
        for call in (1, 2):
            del got[:]
            rec.count("array_calls")
            try:
                w(*args)
            except Exception as e:  # noqa: BLE001
                rec.violation("wraps-raised-on-valid-call", {"src": srepr(src), "dst": srepr(canon), "err": srepr(e)[:200],
                                                             "call": call, "magnitude": "ndarray"},
                              decorator="wraps", registry=W.nitname, exc=type(e).__name__, strict=True)
                break
            ok = len(got) == len(want) and all(
                np.shape(g) == np.shape(x) and np.allclose(g, x, rtol=1e-9, atol=0) for g, x in zip(got, want))
            if not ok:
                rec.violation("wraps-array-argument-magnitude",
                              {"src": srepr(src), "dst": srepr(canon), "call": call, "form": form,
                               "got": srepr([g.tolist() for g in got]), "want": srepr([x.tolist() for x in want])},
                              decorator="wraps", registry=W.nitname, call="first" if call == 1 else "repeated")
            for a, (m0, u0) in zip(args, snap):
                if dict(a._units.items()) != u0 or not np.array_equal(np.asarray(a.magnitude), m0):
                    rec.violation("wraps-mutated-its-argument",
                                  {"src": srepr(src), "dst": srepr(canon), "call": call, "form": form,
                                   "before": srepr(m0.tolist()), "after": srepr(np.asarray(a.magnitude).tolist())},
                                  decorator="wraps", registry=W.nitname)
                    break


# --------------------------------------------------------------------------------------
def run_shard(spec, rec):
    W = World(spec, rec)
    W.derived_dims = sorted(d for d in W.m.dims)
    run_offsets(W, rec)
    run_dimensionless(W, rec)
    run_strict_bare(W, rec)
    if W.nit is float:
        run_arrays(W, rec, max(40, spec["n"] // 10))
    rng = W.rng
    for _ in range(spec["n"]):
        r = rng.random()
        if r < 0.68:
            run_wraps_program(W, rec)
        elif r < 0.93:
            run_check_program(W, rec)
        else:
            run_mismatch_program(W, rec)
