"""C16 — NumPy functions, ufuncs and ndarray methods on Quantity arrays respect units.

Oracle (harness/c16_table.py): an own table  name -> (how to call it, which arguments carry
units, unit algebra of the result)  written from NumPy's documentation, plus an own table of
unit factors (verified against the registry at shard start; a disagreement there is C02's
business and makes this run inconclusive, not violated).  Every case is an abstract call whose
unit-carrying arguments are physical values in root units; it is realised twice in different
compatible units (U, U') and executed on the real pint.  Clauses decided per case:

  unit         result structure (Quantity / bare / tuple) and dimensionality = table's algebra
  value        result (root-unit magnitudes) == NumPy applied to root-unit magnitudes, rtol 1e-9
               (functions that are not homogeneous - floor, round, modf, nextafter ... - are
               evaluated in the unit of the first unit-carrying argument instead)
  metamorphic  f(U) physically equals f(U')
  mutation     byte/units fingerprint of every input unchanged unless it is the declared in-place
               target (copyto dst, put, fill, __setitem__, out=)
  error        one argument moved to another dimension (or replaced by a bare non-zero number
               where a dimensioned value is required) must raise DimensionalityError
  offset       role X realised in degC/degF vs kelvin: either refused (exception) or physically
               equal to the kelvin run - a returned value that differs, or that carries an offset
               unit inside a compound unit, is "not refused where ambiguous"

Besides every name of HANDLED_FUNCTIONS / HANDLED_UFUNCS / the wrapped ndarray methods and
properties of NumpyQuantity (names absent from the table are reported as 'uncovered'; >10 % makes
the run inconclusive; names pint registers but this NumPy no longer has - trapz, ndarray.ptp -
are reported as 'unreachable'), the table has entries for Unit objects as ufunc operands
(facets/numpy/unit.py) and for to/ito/m_as and the (in-place) arithmetic operators on arrays
(facets/plain/quantity.py: only ito and the i-operators may touch the operand's buffer).
Result quantities are normalised with the check's own factor table (not with pint's conversion).

Deviations from DESIGN.md: (0) the offset clause uses the kelvin run as its oracle instead of a
per-function list: a returned value is accepted iff it is physically the kelvin result, an
exception is always accepted (refusal); unary minus/abs are not probed because pint's own unary
operators accept offset units too. (1) discrete-valued outputs (comparisons, isin, searchsorted, arg*)
use mutually well separated values and a stability guard (reference evaluated in the base frame
and in the frame of the first argument must agree, else the case is skipped and counted), since
float conversion noise legitimately flips ties; cross-unit *equality* is only demanded when all
operands of a role share one unit. (2) an exception on a valid call is a violation only when it
is not TypeError/NotImplementedError (those are counted as 'refused_option': pint declaring an
optional argument unsupported is not a wrong number). (3) names of HANDLED_UFUNCS that are not
NumPy ufuncs (sum, cumprod, ...) are only reachable as Quantity methods and are covered there.
"""
import random

PID = "C16"
RULE = ("every (kind, name, call variant) of the check's own table (NumPy functions, ufuncs, "
        "Quantity methods/properties, Unit operands, conversions and (in-place) operators) x "
        "registry configuration {default, force_ndarray, force_ndarray_like} x R random cases "
        "(ranks 0-3, per-argument random compatible units, two realisations U/U'); error mode: "
        "one argument re-dimensioned or made bare; offset mode: degC/degF vs kelvin (default and "
        "autoconvert_offset_to_baseunit registries).  A case is distinct by (mode, config, kind, "
        "name, variant, assigned units, shapes); non-trivial = at least one argument in a "
        "non-root unit, or an error/offset probe")
ASSUMPTIONS = [
    "c16_table.py transcribes NumPy's documented semantics correctly (human-written)",
    "the unit factors of the own table agree with the registry (verified at every shard start; "
    "a disagreement makes the run inconclusive)",
    "inputs are built and results are normalised with the check's own factors, not pint's "
    "conversion (pint's to_root_units is only used for unit names outside the table: counted)",
    "rtol 1e-9 (float32 variants 1e-5); discrete outputs only where the reference is stable",
    "TypeError/NotImplementedError on an optional-argument form = declared unsupported, not wrong",
]
SHARD_TIMEOUT = {"quick": 300, "thorough": 1500}


def exhaustive(tier):
    return False


def required(tier):
    k = 1 if tier == "quick" else 12
    return {"value_checks": 30000 * k, "metamorphic_checks": 15000 * k, "unit_checks": 30000 * k,
            "mutation_checks": 60000 * k, "error_checks": 1500 * k, "offset_checks": 4000 * k,
            "functions_checked": 200, "functions_error_checked": 70,
            "functions_offset_checked": 140, "variants_checked": 480}


def shards(tier, seed):
    q = tier == "quick"
    out = []
    n_main = 6 if q else 10
    for i in range(n_main):
        out.append({"mode": "main", "cfg": "default", "part": i, "parts": n_main,
                    "reps": 24 if q else 700, "name": f"main-default-{i}"})
    for cfg in ("force_ndarray", "force_ndarray_like"):
        n = 2 if q else 3
        for i in range(n):
            out.append({"mode": "main", "cfg": cfg, "part": i, "parts": n,
                        "reps": 8 if q else 100, "name": f"main-{cfg}-{i}"})
    n = 3 if q else 4
    for i in range(n):
        out.append({"mode": "error", "cfg": "default", "part": i, "parts": n,
                    "reps": 12 if q else 200, "name": f"error-{i}"})
    n = 2 if q else 3
    for i in range(n):
        out.append({"mode": "offset", "cfg": "default", "part": i, "parts": n,
                    "reps": 10 if q else 160, "name": f"offset-{i}"})
    out.append({"mode": "offset", "cfg": "autoconvert", "part": 0, "parts": 1,
                "reps": 4 if q else 60, "name": "offset-autoconvert"})
    return out


# ---------------------------------------------------------------------------------------
def run_shard(spec, rec):
    import numpy as np
    from harness import pintload
    from harness import c16_table as T
    from harness.core import h64
    import pint
    from pint.facets.numpy import numpy_func as NF
    from pint.facets.numpy.quantity import NumpyQuantity

    np.seterr(all="ignore")
    cfg, mode = spec["cfg"], spec["mode"]
    kw = {}
    if cfg in ("force_ndarray", "force_ndarray_like"):
        kw[cfg] = True
    if cfg == "autoconvert":
        kw["autoconvert_offset_to_baseunit"] = True
    ureg = pintload.registry(**kw)
    Q = ureg.Quantity
    DimErr = pint.DimensionalityError
    OffErr = pint.OffsetUnitCalculusError

    _viol = rec.violation
    rec.violation = lambda mech, wit, **f: _viol(mech, wit, cfg=cfg, **f)

    # -- own factor table must agree with the registry (else inconclusive, not violated) ----
    UNIT = {}
    for fam, (dims, units) in T.FAM.items():
        for name, f, off in units:
            u = ureg.Unit(name)
            UNIT[name] = u
            try:
                got = Q(1.0, u).to_root_units().magnitude - Q(0.0, u).to_root_units().magnitude
                zero = Q(0.0, u).to_root_units().magnitude
                d = {k: float(v) for k, v in dict(u.dimensionality).items()}
            except Exception as e:  # noqa: BLE001
                rec.inconc(f"own unit table: {name} not usable in this registry: {e!r}")
                return
            if abs(got - f) > 1e-12 * abs(f) or abs(zero - off * f) > 1e-9 or d != dims:
                rec.inconc(f"own unit table disagrees with registry for {name}: factor {got!r} vs "
                           f"{f!r}, zero {zero!r} vs {off * f!r}, dims {d} vs {dims}")
                return
            rec.count("unit_table_rows_verified")

    for name, (f, off, dims) in T.ATOM.items():
        try:
            u = ureg.Unit(name)
            got = Q(1.0, u).to_root_units().magnitude - Q(0.0, u).to_root_units().magnitude
            d = {k: float(v) for k, v in dict(u.dimensionality).items()}
        except Exception as e:  # noqa: BLE001
            rec.inconc(f"own unit table: atom {name} not usable: {e!r}")
            return
        if abs(got - f) > 1e-12 * abs(f) or d != dims:
            rec.inconc(f"own unit table disagrees with registry for atom {name}: {got!r} vs {f!r}")
            return

    def own_root(q):
        """(root-unit magnitudes, dimensionality) of a result quantity by the check's own factor
        table; None when the unit contains a name outside the table."""
        uc = dict(q._units)
        mag = np.asarray(q._magnitude, dtype=float)
        if len(uc) == 1:
            (n, e), = uc.items()
            if n in T.ATOM and T.ATOM[n][1] != 0.0 and abs(float(e) - 1.0) < 1e-12:
                f, off, dims = T.ATOM[n]
                return (mag + off) * f, dict(dims)
        factor, dims = 1.0, {}
        for n, e in uc.items():
            if n not in T.ATOM or T.ATOM[n][1] != 0.0:
                return None
            f, _, dm = T.ATOM[n]
            factor *= f ** float(e)
            for k, v in dm.items():
                dims[k] = dims.get(k, 0.0) + v * float(e)
        return mag * factor, {k: v for k, v in dims.items() if abs(v) > 1e-12}

    # -- coverage of pint's handled names by the table ---------------------------------------
    names = []
    unreachable = []
    for n in NF.HANDLED_FUNCTIONS:
        f = np
        for part in n.split("."):
            f = getattr(f, part, None)
        if f is None:
            unreachable.append(n)       # registered by pint but absent from this NumPy (trapz)
        else:
            names.append(("func", n))
    for n in NF.HANDLED_UFUNCS:
        if isinstance(getattr(np, n, None), np.ufunc):
            names.append(("ufunc", n))
        elif callable(getattr(np.ndarray, n, None)):
            names.append(("method", n))
        else:
            unreachable.append(n)
    for n in NumpyQuantity._wrapped_numpy_methods:
        if ("method", n) not in names:
            names.append(("method", n))
    for n, v in vars(NumpyQuantity).items():
        if n in ("__getitem__", "__setitem__", "__len__", "__array__") or not n.startswith("_"):
            if isinstance(v, property):
                names.append(("prop", n))
            elif callable(v) and ("method", n) not in names:
                names.append(("method", n))
    uncovered = [k for k in names if k not in T.TABLE]
    rec.count("names_total", 0)
    if spec["part"] == 0 and mode == "main" and cfg == "default":
        rec.count("names_total", len(names))
        rec.count("names_uncovered", len(uncovered))
        for k in uncovered:
            rec.observe("uncovered", f"{k[0]}:{k[1]}")
        for n in unreachable:
            rec.observe("unreachable_in_this_numpy", n)
    if len(uncovered) > 0.10 * len(names):
        rec.inconc(f"{len(uncovered)}/{len(names)} handled names are not in the oracle table: "
                   f"{uncovered[:12]}")
        return
    stale = [k for k in T.TABLE if k not in names and k[0] in ("func", "ufunc")]
    for k in stale:
        rec.observe("table_entries_not_handled_by_pint", f"{k[0]}:{k[1]}")

    # -- helpers -------------------------------------------------------------------------------
    OFFSET_UNITS = {"degree_Celsius", "degree_Fahrenheit"}

    def isq(x):
        return hasattr(x, "_units") and hasattr(x, "_magnitude")

    def walk(obj, fn):
        if isinstance(obj, T.QA):
            return fn(obj)
        if isinstance(obj, list):
            return [walk(o, fn) for o in obj]
        if isinstance(obj, tuple):
            return tuple(walk(o, fn) for o in obj)
        if isinstance(obj, dict):
            return {k: walk(v, fn) for k, v in obj.items()}
        if isinstance(obj, np.ndarray):
            return obj.copy()
        return obj

    def qas(call):
        out = []
        walk([call.args, call.kwargs], lambda q: out.append(q) or q)
        return out

    def realize(call, assign):
        def fn(q):
            a = assign[id(q)]
            if a is None:
                return float(q.base) if q.base.ndim == 0 else q.base.copy()
            name, f, off = a
            if q.as_unit:
                return UNIT[name]
            mag = q.base / f - off
            mag = float(mag) if q.py else np.array(mag, dtype=float)
            return Q(mag, UNIT[name])
        return walk(call.args, fn), walk(call.kwargs, fn)

    def base_args(call, assign=None):
        def fn(q):
            if q.as_unit:
                return float(assign[id(q)][1])      # "1 unit" in root units
            return float(q.base) if q.py else q.base.copy()
        return walk(call.args, fn), walk(call.kwargs, fn)

    def frame_args(call, assign, frame):
        fname, ff, foff = frame

        def fn(q):
            a = assign[id(q)] or ("bare", 1.0, 0.0)      # a bare number is a dimensionless value
            name, f, off = a
            m = q.base / f - off
            if (name, f, off) != frame:
                m = (m + off) * f / ff - foff
            return float(m) if q.py else np.array(m, dtype=float)
        return walk(call.args, fn), walk(call.kwargs, fn)

    def fingerprint(args, kwargs, call):
        """[(is_target, fingerprint)] of every array-like input, in traversal order"""
        fps = []

        def rec_(real, abstract):
            if isinstance(abstract, T.QA):
                tgt = abstract.target
                if abstract.as_unit:
                    return                      # a Unit object: immutable, nothing to fingerprint
                if isq(real):
                    m = np.asarray(real._magnitude)
                    fps.append((tgt, (m.tobytes(), m.shape, str(m.dtype),
                                      tuple(sorted((k, float(v)) for k, v in real._units.items())))))
                else:
                    m = np.asarray(real)
                    fps.append((tgt, (m.tobytes(), m.shape, str(m.dtype), None)))
            elif isinstance(abstract, (list, tuple)):
                for r, a in zip(real, abstract):
                    rec_(r, a)
            elif isinstance(abstract, dict):
                for k in abstract:
                    rec_(real[k], abstract[k])
            elif isinstance(abstract, np.ndarray):
                fps.append((False, (real.tobytes(), real.shape, str(real.dtype), None)))
        rec_(args, call.args)
        rec_(kwargs, call.kwargs)
        return fps

    def resolve(kind, name):
        if kind in ("func", "ufunc"):
            f = np
            for p in name.split("."):
                f = getattr(f, p)
            return f
        return None

    def invoke(ent, var, args, kwargs, on_numpy=False):
        """run the real call (on_numpy=False) or the reference on plain magnitudes"""
        if on_numpy:
            if var.ref is not None:
                return var.ref(*args, **kwargs)
            if ent.kind in ("func", "ufunc"):
                return resolve(ent.kind, ent.name)(*args, **kwargs)
            a0 = np.asarray(args[0], dtype=float)
            if ent.kind == "prop":
                return getattr(a0, ent.name)
            return getattr(a0, ent.name)(*args[1:], **kwargs)
        if var.inv is not None:
            return var.inv(np, *args, **kwargs)
        if ent.kind in ("func", "ufunc"):
            return resolve(ent.kind, ent.name)(*args, **kwargs)
        if ent.kind == "prop":
            return getattr(args[0], ent.name)
        return getattr(args[0], ent.name)(*args[1:], **kwargs)

    def outcome(fn):
        try:
            return "ok", fn()
        except DimErr as e:
            return "DimensionalityError", e
        except OffErr as e:
            return "OffsetUnitCalculusError", e
        except RecursionError as e:
            return "RecursionError", e
        except Exception as e:  # noqa: BLE001
            return type(e).__name__, e

    def dims_of(spec_u, fams):
        d = {}
        for role, e in spec_u.exps.items():
            for k, v in T.FAM[fams[role]][0].items():
                d[k] = d.get(k, 0.0) + v * e
        return {k: v for k, v in d.items() if abs(v) > 1e-12}

    def same_dims(a, b):
        keys = set(a) | set(b)
        return all(abs(a.get(k, 0.0) - b.get(k, 0.0)) < 1e-9 for k in keys)

    def close(got, exp, tol):
        g, e = np.asarray(got), np.asarray(exp)
        if g.shape != e.shape:
            return False
        if g.dtype == object or e.dtype == object:
            return bool(np.all(g == e))
        if e.dtype.kind in "biu" and g.dtype.kind in "biu":
            return bool(np.array_equal(g, e))
        if e.dtype.kind not in "fcbiu" or g.dtype.kind not in "fcbiu":
            return bool(np.all(g == e))
        fin = np.isfinite(e)
        scale = float(np.max(np.abs(e[fin]))) if np.any(fin) else 1.0
        # absolute floor 1e-11: generated physical values are O(0.1 .. 1e3) in root units, so a
        # result that cancels to ~0 carries rounding noise of that order and no unit information
        return bool(np.allclose(g, e, rtol=tol, atol=max(tol * scale, 1e-11), equal_nan=True))

    class Mismatch(Exception):
        def __init__(self, clause, msg):
            self.clause, self.msg = clause, msg

    def normalise(got, rspec, fams):
        """-> list of leaves ('q', root magnitudes, dims, unit-name) | ('b', value) ;
        raises Mismatch('unit'|'offset', ...)"""
        if isinstance(rspec, T.Seq):
            if (isq(got) or isinstance(got, np.ndarray)) and np.ndim(got) >= 1 \
                    and np.shape(got)[0] == len(rspec.items):
                got = [got[i] for i in range(len(rspec.items))]   # stacked: unpacks like a tuple
            if not isinstance(got, (tuple, list)) or len(got) != len(rspec.items):
                raise Mismatch("unit", f"expected a sequence of {len(rspec.items)} results, got "
                                       f"{type(got).__name__}: {short(got)}")
            out = []
            for g_, s_ in zip(got, rspec.items):
                out.extend(normalise(g_, s_, fams))
            return out
        if isinstance(rspec, T.U):
            want = dims_of(rspec, fams)
            if isq(got):
                uc = dict(got._units)
                nonmult = [k for k in uc if k in OFFSET_UNITS]
                if nonmult and (len(uc) > 1 or any(abs(float(v) - 1.0) > 1e-12 for v in uc.values())):
                    raise Mismatch("offset", f"result carries an offset unit inside a compound "
                                             f"unit: {got.units!r}")
                own = own_root(got)
                if own is not None:
                    rmag, d = own
                    if cfg in ("default", "autoconvert") and any(
                            isinstance(v, np.integer) for v in uc.values()):
                        # a NumPy integer as unit exponent: does the quantity still convert?
                        try:
                            pr = np.asarray(got.to_root_units().magnitude, dtype=float)
                            bad = None if close(pr, rmag, 1e-9) else \
                                f"to_root_units() gives {short(pr, 80)}, own factors {short(rmag, 80)}"
                        except Exception as e:  # noqa: BLE001
                            bad = f"to_root_units() raises {short(e, 120)}"
                        if bad:
                            raise Mismatch("unusable", "result unit has NumPy-integer exponents "
                                                   f"({got.units!r}) and cannot be converted: {bad}")
                else:
                    rec.count("normalised_by_pint_fallback")
                    try:
                        rmag = np.asarray(got.to_root_units().magnitude)
                        d = {k: float(v) for k, v in dict(got.dimensionality).items()}
                    except OffErr as e:
                        raise Mismatch("offset", f"result carries an offset unit in a compound "
                                                 f"unit: {got.units!r} ({e})")
                if not same_dims(d, want):
                    raise Mismatch("unit", f"result unit {got.units!r} has dimensionality {d}, "
                                           f"implied {want}")
                if rspec.unit is not None and got.units != UNIT[rspec.unit]:
                    raise Mismatch("unit", f"result unit {got.units!r}, documented {rspec.unit}")
                return [("q", np.asarray(rmag), d)]
            if isinstance(got, (tuple, list)) and any(isq(x) for x in got):
                raise Mismatch("unit", f"expected one quantity, got a sequence: {short(got)}")
            if want:
                raise Mismatch("unit", f"result is a bare {type(got).__name__} but the implied "
                                       f"dimensionality is {want}")
            if rspec.unit is not None and rspec.unit != "radian":
                raise Mismatch("unit", f"bare result, documented unit {rspec.unit}")
            return [("q", np.asarray(got), {})]
        if rspec == T.BARE:
            def chk(x):
                if isq(x):
                    raise Mismatch("unit", f"result should be bare, got quantity {short(x)}")
                if isinstance(x, (tuple, list)):
                    for y in x:
                        chk(y)
            chk(got)
            return [("b", got)]
        if rspec == T.ANY:
            return [("b", np.asarray(got.magnitude if isq(got) else got))]
        if rspec == "shape":
            return [("b", np.shape(got.magnitude if isq(got) else got))]
        raise AssertionError(rspec)

    def flat_expected(exp, rspec, scale):
        """expected value -> leaves parallel to normalise(); scale multiplies 'q' leaves"""
        if isinstance(rspec, T.Seq):
            out = []
            for e_, s_ in zip(exp, rspec.items):
                out.extend(flat_expected(e_, s_, scale))
            return out
        if isinstance(rspec, T.U):
            k = sum(rspec.exps.values())
            return [("q", np.asarray(exp, dtype=float) * (scale ** k if scale != 1.0 else 1.0))]
        if rspec == "shape":
            return [("b", np.shape(exp))]
        if rspec == T.ANY:
            return [("b", np.asarray(exp))]
        return [("b", exp)]

    def bare_equal(a, b, tol):
        if isinstance(a, (tuple, list)) and isinstance(b, (tuple, list)):
            return len(a) == len(b) and all(bare_equal(x, y, tol) for x, y in zip(a, b))
        try:
            return close(a, b, tol)
        except Exception:  # noqa: BLE001
            return a == b

    def leaves_equal(a, b, tol):
        if len(a) != len(b):
            return False
        for x, y in zip(a, b):
            if x[0] != y[0]:
                return False
            if x[0] == "q":
                if len(x) > 2 and len(y) > 2 and not same_dims(x[2], y[2]):
                    return False
                if not close(x[1], y[1], tol):
                    return False
            elif not bare_equal(x[1], y[1], tol):
                return False
        return True

    def short(x, n=300):
        try:
            s = repr(x)
        except Exception as e:  # noqa: BLE001
            s = f"<unreprable {type(x).__name__}: {e!r}>"
        return s if len(s) <= n else s[:n] + "..."

    def describe(call, assign):
        def fn(q):
            a = assign[id(q)]
            m = q.base if a is None else q.base / a[1] - a[2]     # magnitude as passed to pint
            return f"<{q.role}:{a[0] if a else 'bare'}:{short(np.round(m, 6).tolist(), 80)}>"
        return short(walk([call.args, call.kwargs], fn), 700)

    def choose(g, call, fams, how, keep=None, like=None):
        """unit assignment {id(QA): (name, factor, offset) | None}"""
        assign, per_role = {}, {}
        lst = qas(call)
        for i, q in enumerate(lst):
            units = T.FAM[fams[q.role]][1]
            if keep is not None and i == 0:
                assign[id(q)] = keep
                per_role.setdefault(q.role, keep)
                continue
            if how == "root":
                u = units[0]
            elif how == "same":
                u = per_role.setdefault(q.role, g.r.choice(units))
            else:
                u = g.r.choice(units)
            if (q.bare_ok and i > 0 and g.r.random() < 0.3) or q.always_bare:
                u = None
            assign[id(q)] = u
        return assign

    def sig(assign, call):
        return tuple((a[0] if a else None) for a in (assign[id(q)] for q in qas(call)))

    def draw_fams(g, call):
        fams = dict(T.FIXED_ROLE_FAM)
        pick = g.r.sample(T.DIMFAMS, 3)
        fams.update(zip("XYZ", pick))
        return fams

    def classify_exc(ent, label, oc, exc, call, assign, clause="value"):
        if oc in ("TypeError", "NotImplementedError"):
            rec.count("refused_option")
            rec.observe("refused_option", f"{ent.kind}:{ent.name}:{label}:{oc}")
            return
        rec.violation("valid_call_raises",
                      {"function": ent.name, "variant": label, "call": describe(call, assign),
                       "exception": short(exc)},
                      function=ent.name, kind=ent.kind, clause=clause, variant=label, exc=oc)

    # -- main mode ---------------------------------------------------------------------------
    def run_main(ent, label, var, g):
        call = var.build(g)
        fams = draw_fams(g, call)
        lst = qas(call)
        if not lst:
            return
        for i, q in enumerate(lst):
            # scalar companions (bounds, initial, fill values ...) also as Python-float quantities
            if q.base.ndim == 0 and (i > 0 or cfg != "default") and g.r.random() < 0.4:
                q.py = True
        how = var.assign or g.r.choice(["free", "free", "free", "same", "root"])
        a1 = choose(g, call, fams, how)
        if all(v is None for v in a1.values()):
            a1[id(lst[0])] = T.FAM[fams[lst[0].role]][1][0]
        frame1 = a1[id(lst[0])]
        a2 = None
        for _ in range(6):
            cand = choose(g, call, fams, "same" if var.assign == "same" else "free",
                          keep=None if var.homog else frame1)
            if sig(cand, call) != sig(a1, call):
                a2 = cand
                break
        rspec = var.res(call) if callable(var.res) else var.res
        if rspec is T.REFUSE:
            # the documentation leaves no unit that fits every slot of the result: any returned value is wrong
            for a_ in (a1, a2):
                if a_ is None:
                    continue
                args, kwargs = realize(call, a_)
                oc, got = outcome(lambda: invoke(ent, var, args, kwargs))
                rec.count("refusal_checks")
                rec.case(("refuse", cfg, ent.kind, ent.name, label, sig(a_, call)), nontrivial=True)
                rec.observe("functions_checked", f"{ent.kind}:{ent.name}")
                rec.observe("variants_checked", f"{ent.kind}:{ent.name}:{label}")
                if oc == "ok":
                    rec.violation("result_unit",
                                  {"function": ent.name, "variant": label, "call": describe(call, a_),
                                   "problem": "the output slots multiply different numbers of elements, so no single "
                                              "unit fits the result; a value was returned", "got": short(got)},
                                  function=ent.name, kind=ent.kind, variant=label, clause="unit")
            return
        tol = var.tol
        has_bare = any(s in (T.BARE,) for s in
                       (rspec.items if isinstance(rspec, T.Seq) else [rspec]))

        # reference values
        if var.homog:
            oc, exp1 = outcome(lambda: invoke(ent, var, *base_args(call, a1), on_numpy=True))
            scale1 = scale2 = 1.0
            exp2 = exp1
            if a2 is not None and not var.meta:
                _, exp2 = outcome(lambda: invoke(ent, var, *base_args(call, a2), on_numpy=True))
        else:
            oc, exp1 = outcome(lambda: invoke(ent, var, *frame_args(call, a1, frame1), on_numpy=True))
            scale1 = frame1[1] if frame1 else 1.0
            if a2 is not None:
                fr2 = a2[id(lst[0])]
                oc2_, exp2 = outcome(lambda: invoke(ent, var, *frame_args(call, a2, fr2), on_numpy=True))
                scale2 = fr2[1] if fr2 else 1.0
        if oc != "ok":
            rec.count("skipped_reference_raised")
            rec.observe("reference_raised", f"{ent.kind}:{ent.name}:{label}:{oc}")
            return
        try:
            fe1 = flat_expected(exp1, rspec, scale1)
            fe2 = flat_expected(exp2, rspec, scale2) if a2 is not None else None
        except Exception as e:  # noqa: BLE001
            rec.count("skipped_reference_shape")
            rec.observe("reference_raised", f"{ent.kind}:{ent.name}:{label}:flat:{type(e).__name__}")
            return
        if var.homog and (has_bare or var.assign == "same") and frame1 is not None:
            # stability guard for discrete outcomes: base frame vs frame of the first argument
            for a_ in (a1, a2):
                if a_ is None or a_[id(lst[0])] is None:
                    continue
                fr = a_[id(lst[0])]
                ocf, expf = outcome(lambda: invoke(ent, var, *frame_args(call, a_, fr), on_numpy=True))
                if ocf != "ok":
                    continue
                try:
                    fef = flat_expected(expf, rspec, fr[1])
                except Exception:  # noqa: BLE001
                    continue
                if not leaves_equal(fef, fe1, 1e-7):
                    rec.count("skipped_unstable")
                    return

        results = []
        for which, a_, fe in (("U", a1, fe1), ("U'", a2, fe2)):
            if a_ is None:
                continue
            args, kwargs = realize(call, a_)
            before = fingerprint(args, kwargs, call)
            oc, got = outcome(lambda: invoke(ent, var, args, kwargs))
            after = fingerprint(args, kwargs, call)
            nontriv = any(v is not None and v[1] != 1.0 for v in a_.values())
            rec.case(("main", cfg, ent.kind, ent.name, label, sig(a_, call),
                      tuple(q.base.shape for q in lst)), nontrivial=nontriv)
            rec.observe("functions_checked", f"{ent.kind}:{ent.name}")
            rec.observe("variants_checked", f"{ent.kind}:{ent.name}:{label}")
            # mutation clause
            for i, ((tgt, b), (_, a)) in enumerate(zip(before, after)):
                if tgt:
                    continue
                rec.count("mutation_checks")
                if a != b:
                    what = "units" if a[3] != b[3] else "bytes"
                    rec.violation("input_modified",
                                  {"function": ent.name, "variant": label, "input_index": i,
                                   "changed": what, "call": describe(call, a_),
                                   "units_before": short(b[3]), "units_after": short(a[3])},
                                  function=ent.name, kind=ent.kind, clause="mutation", variant=label)
            if oc != "ok":
                rec.observe("outcomes", f"valid->{oc}")
                classify_exc(ent, label, oc, got, call, a_)
                continue
            rec.observe("outcomes", "valid->ok")
            try:
                leaves = normalise(got, rspec, fams)
            except Mismatch as m:
                rec.count("unit_checks")
                mech = {"unit": "result_unit", "unusable": "result_unusable",
                        "offset": "offset_not_refused"}[m.clause]
                rec.violation(mech,
                              {"function": ent.name, "variant": label, "call": describe(call, a_),
                               "problem": m.msg, "got": short(got)},
                              function=ent.name, kind=ent.kind, variant=label,
                              clause="unit" if m.clause == "unusable" else m.clause)
                continue
            except Exception as e:  # noqa: BLE001
                rec.violation("result_unusable",
                              {"function": ent.name, "variant": label, "call": describe(call, a_),
                               "problem": short(e), "got": short(got)},
                              function=ent.name, kind=ent.kind, clause="unit", variant=label)
                continue
            rec.count("unit_checks")
            rec.count("value_checks")
            if not leaves_equal(leaves, fe, tol):
                rec.violation("result_value",
                              {"function": ent.name, "variant": label, "call": describe(call, a_),
                               "got": short(got), "got_root": short([x[1] for x in leaves]),
                               "expected_root": short([x[1] for x in fe])},
                              function=ent.name, kind=ent.kind, clause="value", variant=label)
            elif nontriv:
                rec.count("value_checks_nontrivial")
            results.append((which, a_, leaves, got))
            if rec._nsample < 40 or g.r.random() < 0.002:
                rec.sample({"function": ent.name, "variant": label, "call": describe(call, a_),
                            "got": short(got, 200)})
        if len(results) == 2 and var.meta:
            rec.count("metamorphic_checks")
            if not leaves_equal(results[0][2], results[1][2], tol):
                rec.violation("reexpression_changes_result",
                              {"function": ent.name, "variant": label,
                               "call_U": describe(call, results[0][1]), "got_U": short(results[0][3]),
                               "call_U'": describe(call, results[1][1]), "got_U'": short(results[1][3])},
                              function=ent.name, kind=ent.kind, clause="metamorphic", variant=label)

    # -- error mode --------------------------------------------------------------------------
    def run_error(ent, label, var, g):
        if not var.err:
            return
        call = var.build(g)
        fams = draw_fams(g, call)
        lst = qas(call)
        roles = [q.role for q in lst]
        cands = [q for q in lst if roles.count(q.role) >= 2 or q.role in T.FIXED_ROLE_FAM]
        if not cands:
            rec.count("error_no_constraint")
            return
        victim = g.r.choice(cands)
        used = {fams[r] for r in set(roles)}
        foreign = g.r.choice([f for f in T.DIMFAMS if f not in used])
        a = choose(g, call, fams, "free")
        probes = [("redimensioned", {**a, id(victim): g.r.choice(T.FAM[foreign][1])})]
        others_q = [q for q in lst if q is not victim]
        # bare probe: the first unit-carrying argument stays a Quantity so that the call still
        # reaches pint (np.pad(ndarray, constant_values=Q) etc. never dispatch to pint)
        if victim.role in "XYZ" and victim is not lst[0] and roles.count(victim.role) >= 2 \
                and not getattr(victim, "nobare", False):
            probes.append(("bare", {**a, id(victim): None}))
        for pname, a_ in probes:
            args, kwargs = realize(call, a_)
            if pname == "bare":
                # a zero or NaN bare number is accepted by pint's convention: keep it non-zero
                pass
            before = fingerprint(args, kwargs, call)
            oc, got = outcome(lambda: invoke(ent, var, args, kwargs))
            after = fingerprint(args, kwargs, call)
            rec.case(("error", cfg, ent.kind, ent.name, label, pname, sig(a_, call)))
            rec.count("error_checks")
            rec.observe("functions_error_checked", f"{ent.kind}:{ent.name}")
            rec.observe("outcomes", f"incompatible:{pname}->{oc}")
            wit = {"function": ent.name, "variant": label, "probe": pname,
                   "victim_role": victim.role, "call": describe(call, a_)}
            if oc == "ok":
                rec.violation("incompatible_returns_numbers", dict(wit, got=short(got)),
                              function=ent.name, kind=ent.kind, clause="error", variant=label,
                              probe=pname)
            elif oc != "DimensionalityError":
                rec.count("error_other_exception")
                rec.observe("error_other_exception", f"{ent.kind}:{ent.name}:{label}:{pname}:{oc}")
                if oc in ("RecursionError", "AttributeError", "IndexError", "KeyError",
                          "UnboundLocalError", "AssertionError"):
                    rec.violation("incompatible_crashes", dict(wit, exception=short(got)),
                                  function=ent.name, kind=ent.kind, clause="error", variant=label,
                                  probe=pname, exc=oc)
            for i, ((tgt, b), (_, a2)) in enumerate(zip(before, after)):
                rec.count("mutation_checks")
                if a2 != b and not (tgt and oc == "ok"):
                    rec.violation("input_modified",
                                  {"function": ent.name, "variant": label, "input_index": i,
                                   "call": describe(call, a_), "after_outcome": oc, "target": tgt},
                                  function=ent.name, kind=ent.kind, clause="mutation",
                                  variant=label, probe=pname)

    # -- offset mode ---------------------------------------------------------------------------
    OFFMECH = "offset_not_autoconverted" if cfg == "autoconvert" else "offset_not_refused"

    def run_offset(ent, label, var, g):
        if not (var.offset and var.homog) or var.assign == "same":
            return
        call = var.build(g)
        lst = qas(call)
        xs = [q for q in lst if q.role == "X"]
        if not xs:
            return
        fams = draw_fams(g, call)
        fams["X"] = "temperature"
        # physical values: absolute temperatures (shift the generator's O(1..10) values up)
        for q in xs:
            q.base = np.abs(q.base) * 10.0 + 200.0
        kel, degc, degf = T.FAM["temperature"][1]
        a_k = choose(g, call, fams, "free")
        a_c = dict(a_k)
        for q in xs:
            a_k[id(q)] = kel
            a_c[id(q)] = g.r.choice([degc, degf, degc, degf, kel])
        if all(a_c[id(q)] == kel for q in xs):
            a_c[id(g.r.choice(xs))] = g.r.choice([degc, degf])
        if var.truth:
            # truth-value functions: 0 degC is 273.15 K - "zero" depends on the frame
            for q in xs:
                q.base = np.where(g.mask(q.base.shape, 0.5), 273.15, q.base)
                a_c[id(q)] = degc
        elif len(xs) >= 2 and g.r.random() < 0.3:
            # one operand sits exactly on the zero point of its offset scale (magnitude all zeros in degC,
            # 273.15 K physically) next to operands in other units: zero is not "nothing" there
            q0 = g.r.choice(xs[1:])
            q0.base = np.full_like(q0.base, 273.15)
            a_c[id(q0)] = degc
            if a_c[id(xs[0])] == degc:
                a_c[id(xs[0])] = kel
            rec.count("offset_zero_point_operands")
        rspec = var.res(call) if callable(var.res) else var.res
        args, kwargs = realize(call, a_k)
        oc_k, got_k = outcome(lambda: invoke(ent, var, args, kwargs))
        if oc_k != "ok":
            rec.count("offset_kelvin_run_failed")
            return
        try:
            lk = normalise(got_k, rspec, fams)
        except Exception:  # noqa: BLE001
            rec.count("offset_kelvin_run_failed")   # main mode reports these
            return
        args, kwargs = realize(call, a_c)
        before = fingerprint(args, kwargs, call)
        oc, got = outcome(lambda: invoke(ent, var, args, kwargs))
        after = fingerprint(args, kwargs, call)
        rec.case(("offset", cfg, ent.kind, ent.name, label, sig(a_c, call)))
        rec.count("offset_checks")
        rec.observe("functions_offset_checked", f"{ent.kind}:{ent.name}")
        wit = {"function": ent.name, "variant": label, "call": describe(call, a_c)}
        for i, ((tgt, b), (_, a2)) in enumerate(zip(before, after)):
            rec.count("mutation_checks")
            if a2 != b and not tgt:
                rec.violation("input_modified", dict(wit, input_index=i, after_outcome=oc),
                              function=ent.name, kind=ent.kind, clause="mutation", variant=label)
        if oc != "ok":
            rec.observe("outcomes", f"offset->{oc}")
            rec.count("offset_refused")
            if oc in ("RecursionError", "AttributeError", "IndexError", "KeyError"):
                rec.violation("offset_crashes", dict(wit, exception=short(got)),
                              function=ent.name, kind=ent.kind, clause="offset", variant=label, exc=oc)
            return
        try:
            lc = normalise(got, rspec, fams)
        except Mismatch as m:
            rec.observe("outcomes", "offset->returned_compound_offset_unit"
                        if m.clause == "offset" else "offset->unit_mismatch")
            rec.violation(OFFMECH,
                          dict(wit, problem=m.msg, got=short(got), kelvin_run=short(got_k)),
                          function=ent.name, kind=ent.kind, clause="offset", variant=label,
                          how="compound_offset_unit" if m.clause == "offset" else "wrong_unit")
            return
        except Exception as e:  # noqa: BLE001
            rec.violation(OFFMECH, dict(wit, problem=short(e), got=short(got)),
                          function=ent.name, kind=ent.kind, clause="offset", variant=label,
                          how="unusable_result")
            return
        if leaves_equal(lc, lk, max(1e-8, var.tol)):
            rec.observe("outcomes", "offset->ok_equal_to_kelvin")
            rec.count("offset_equal")
        else:
            rec.observe("outcomes", "offset->returned_different")
            rec.violation(OFFMECH,
                          dict(wit, got=short(got), got_root=short([x[1] for x in lc]),
                               kelvin_run=short(got_k)),
                          function=ent.name, kind=ent.kind, clause="offset", variant=label,
                          how="differs_from_kelvin")

    # -- drive ---------------------------------------------------------------------------------
    runner = {"main": run_main, "error": run_error, "offset": run_offset}[mode]
    entries = [e for i, e in enumerate(T.TABLE.values()) if i % spec["parts"] == spec["part"]]
    for ent in entries:
        if (ent.kind, ent.name) not in names and ent.kind in ("func", "ufunc"):
            continue        # NumPy / pint of this tree do not provide it
        for label, var in ent.variants.items():
            for rep in range(spec["reps"]):
                g = T.G(random.Random(h64((spec["seed"], mode, cfg, ent.kind, ent.name, label, rep))))
                try:
                    runner(ent, label, var, g)
                except Exception as e:  # noqa: BLE001  (harness-side failure: never a verdict)
                    import traceback
                    rec.count("harness_errors")
                    rec.observe("harness_errors", f"{ent.kind}:{ent.name}:{label}:"
                                                  f"{type(e).__name__}:{short(e, 120)}")
                    if rec.counters.get("harness_errors", 0) == 1:
                        # a case the harness could not evaluate is never a pass
                        rec.inconc("harness error (first of possibly several): "
                                   + traceback.format_exc()[-700:])
                    if rec.counters.get("harness_errors", 0) > 40:
                        return
