"""C08 — unit names resolve deterministically: exact names first, then prefix+unit+plural.

Oracle: `Model.readings` of the independent reference model enumerates ALL readings of a
string (prefix spelling + unit spelling + optional 's').  Expected: exact spelling => that
unit; otherwise pint's answer must be one of the readings (the reading, when unique), with
the prefix factor applied exactly once; no reading => UndefinedUnitError.  Each string is
asked of a fresh registry and of a registry aged by earlier lookups; choices made for
ambiguous strings are digested per shard and compared across PYTHONHASHSEEDs in finalize().
"""
import hashlib
import itertools
import random
from fractions import Fraction as F

PID = "C08"
RULE = ("cross product prefix spelling (72 + none) x unit spelling (~917) x plural {'', 's'} "
        "(stratified sample + every ambiguous string in quick; complete in thorough), through "
        "parse_unit_name/get_name/get_symbol/parse_units/getattr/in/convert; double-prefix strings; "
        "case-folded variants in case-insensitive mode; random non-unit strings; generated "
        "registries over a tiny alphabet where ALL strings up to length 6 are asked; delta reading "
        "of offset units in compound expressions; fresh vs aged registry. distinct = (workload, "
        "string); non-trivial = string is not an exact defined spelling")
ASSUMPTIONS = [
    "for strings with several readings any model reading is accepted (pint warns and picks one), "
    "but the pick must not depend on history or hash seed",
    "the one-letter-stem plural exclusion ('ms' is not 'm'+'s') is part of the model: documented in the code",
]


def exhaustive(tier):
    return tier == "thorough"


def required(tier):
    return {"unique_reading": 10000, "no_reading": 300, "ambiguous": 100, "exact_spelling": 800,
            "numeric_prefix_once": 5000, "aged_compared": 5000, "casei_checked": 2000,
            "generated_strings": 5000, "delta_forms": 30, "lookups_under_redefining_context": 300,
            "lookups_after_redefining_context": 300}


def shards(tier, seed):
    n = 8 if tier == "quick" else 16
    out = [{"kind": "cross", "part": i, "parts": n, "name": f"cross{i}",
            "rate": 0.16 if tier == "quick" else 1.0} for i in range(n)]
    # the same parts again: same strings (the sampling seed is pinned), another hash seed -> finalize()
    for i in range(2 if tier == "quick" else 4):
        out.append(dict(out[i], name=f"cross{i}-again", sample_seed=1000 + i))
        out[i]["sample_seed"] = 1000 + i
    out.append({"kind": "double", "name": "double", "n": 3000 if tier == "quick" else 30000})
    for i in range(2 if tier == "quick" else 4):
        out.append({"kind": "casei", "name": f"casei{i}", "n": 2500 if tier == "quick" else 20000})
    out.append({"kind": "random", "name": "random", "n": 8000 if tier == "quick" else 100000})
    for i in range(2 if tier == "quick" else 8):
        out.append({"kind": "generated", "name": f"gen{i}", "n": 6 if tier == "quick" else 40})
    out.append({"kind": "delta", "name": "delta"})
    for i in range(2 if tier == "quick" else 6):
        # names and symbols while a context that REDEFINES units is active, and after it was left
        out.append({"kind": "redefctx", "name": f"redefctx{i}", "n": 25 if tier == "quick" else 80})
    return out


def ask(ureg, pint, s, case_sensitive=None):
    """-> ('ok', canonical name) | ('undefined',) | ('offset',) | ('other', repr)."""
    try:
        if case_sensitive is None:
            return ("ok", ureg.get_name(s))
        return ("ok", ureg.get_name(s, case_sensitive=case_sensitive))
    except pint.UndefinedUnitError:
        return ("undefined",)
    except pint.OffsetUnitCalculusError:
        return ("offset",)
    except Exception as e:  # noqa: BLE001
        return ("other", type(e).__name__ + ":" + str(e)[:80])


def expected(m, s, is_mult):
    """-> ('exact', canon) | ('readings', [(prefix canon, unit canon)...]) | ('none',)."""
    if s in m.spell:
        return ("exact", m.spell[s])
    r = m.readings(s)
    if not r:
        return ("none",)
    return ("readings", r)


def run_shard(spec, rec):
    from harness import pintload, refmodel as R
    import pint

    rng = random.Random(spec["seed"])
    kind = spec["kind"]
    if kind == "generated":
        return run_generated(spec, rec, rng, pint)
    m = R.default_model(pintload.REPO)
    lazily = set()   # prefixed names pint registers while building its cache (kilogram, ...)
    for u in m.units.values():
        for r in u["ref"]:
            if r not in m.spell and not r.startswith("["):
                try:
                    pc, c = m.resolve(r)
                    if pc:
                        lazily.add(pc + c)
                except KeyError:
                    pass

    def is_mult(c):
        return m.is_multiplicative(c) or m.units[c]["mods"].get("offset", None) is not None and \
            m.units[c]["mods"]["offset"].v == 0

    def psym(pc):
        return (m.prefixes[pc]["symbol"] or pc) if pc else ""

    def usym(c):
        return m.units[c]["symbol"] or c

    digest = hashlib.blake2b(digest_size=8)

    def judge(ureg, s, tag, numeric=True, aged=None):
        exp = expected(m, s, is_mult)
        got = ask(ureg, pint, s)
        rec.case((tag, s), nontrivial=exp[0] != "exact")
        w = {"string": s, "got": got, "expected": str(exp)[:300]}
        fields = {"workload": tag}
        if exp[0] == "exact":
            rec.count("exact_spelling")
            if got != ("ok", exp[1]):
                rec.violation("exact-spelling-wrong", w, **fields)
            else:
                sy = ureg.get_symbol(s)
                if sy != usym(exp[1]):
                    rec.violation("symbol-wrong", dict(w, symbol=sy, want=usym(exp[1])), shape=shape(s), **fields)
            return got
        if exp[0] == "none":
            rec.count("no_reading")
            if got[0] == "ok":
                rec.violation("no-reading-accepted", w, shape=shape(s), **fields)
            elif got[0] != "undefined":
                rec.violation("wrong-exception", w, **fields)
            cont = None
            try:
                cont = s in ureg
            except Exception as e:  # noqa: BLE001
                cont = "raised:" + type(e).__name__
            if got[0] == "undefined" and cont is not False and s.isidentifier() and not s.startswith("_") \
                    and not s.endswith("__"):
                rec.violation("contains-disagrees", dict(w, contains=cont), **fields)
            return got
        readings = exp[1]
        rec.count("unique_reading" if len(readings) == 1 else "ambiguous")
        ok_names = {}
        for pc, c in readings:
            if pc and not is_mult(c):
                ok_names["<offset>"] = (pc, c)
            else:
                ok_names[pc + c] = (pc, c)
        if got[0] == "offset":
            if "<offset>" not in ok_names:
                rec.violation("spurious-offset-refusal", w, **fields)
            return got
        if got[0] != "ok":
            if set(ok_names) == {"<offset>"} and got[0] == "offset":
                return got
            rec.violation("reading-refused", w, nreadings=min(len(readings), 3), **fields)
            return got
        if got[1] not in ok_names:
            rec.violation("not-a-model-reading", w, nreadings=min(len(readings), 3), shape=shape(s), **fields)
            return got
        pc, c = ok_names[got[1]]
        if len(readings) > 1:
            digest.update(f"{s}->{got[1]};".encode())
            rec.observe("ambiguous_examples", s) if rng.random() < 0.02 else None
        # symbol, parse_units, getattr, contains agree with the same reading
        try:
            sy = ureg.get_symbol(s)
            pu = ureg.parse_units(s)
            ga = getattr(ureg, s) if s.isidentifier() and not s.startswith("_") else pu
            co = (s in ureg) if s.isidentifier() and not s.startswith("_") else True
        except Exception as e:  # noqa: BLE001
            rec.violation("secondary-api-raised", dict(w, err=repr(e)), **fields)
            return got
        want_sym = psym(pc) + usym(c)
        if len(readings) == 1 and sy != want_sym:
            rec.violation("symbol-wrong", dict(w, symbol=sy, want=want_sym), shape=shape(s), **fields)
        if dict(pu._units._d) != {got[1]: 1} or dict(ga._units._d) != {got[1]: 1} or co is not True:
            rec.violation("secondary-api-disagrees", dict(w, parse_units=repr(dict(pu._units._d)),
                                                          getattr=repr(dict(ga._units._d)), contains=co),
                          **fields)
        if numeric:
            rec.count("numeric_prefix_once")
            try:
                f = ureg.convert(F(1), s, c)
            except Exception as e:  # noqa: BLE001
                rec.violation("numeric-raised", dict(w, err=repr(e)), **fields)
                return got
            want = m.prefixes[pc]["value"] if pc else F(1)
            exact = m.root(c)[0].exact
            bad = (f != want) if exact else abs(float(f) - float(want)) > 1e-9 * abs(float(want))
            if bad:
                rec.violation("prefix-factor-not-once", dict(w, factor=str(f), want=str(want)), shape=shape(s), **fields)
        return got

    shape = make_shape(list(m.prefixes), set(m.units), [""] + list(m.pspell), m)

    # --------------------------------------------------------------------------
    if kind == "cross":
        if "sample_seed" in spec:
            rng = random.Random(spec["sample_seed"])
        fresh = pintload.registry(non_int_type=F)
        aged = pintload.registry(non_int_type=F)
        spells = sorted(m.spell)
        pfx = [""] + sorted(m.pspell)
        strings = []
        k = 0
        for p in pfx:
            for u in spells:
                for suf in ("", "s"):
                    k += 1
                    if k % spec["parts"] != spec["part"]:
                        continue
                    s = p + u + suf
                    if not s.isidentifier():
                        continue   # '%', degree signs: spellings but not prefixable tokens
                    if spec["rate"] < 1.0 and rng.random() > spec["rate"]:
                        # keep every exact spelling and every ambiguous string even when sampling
                        if s not in m.spell and len(m.readings(s)) < 2:
                            continue
                    strings.append(s)
        # age the second registry with earlier lookups of other strings (any outcome)
        warm = [rng.choice(pfx) + rng.choice(pfx) + rng.choice(spells) + rng.choice(("", "s"))
                for _ in range(400)] + rng.sample(strings, min(800, len(strings)))
        for s in warm:
            ask(aged, pint, s)
            try:
                aged.parse_units(s)
            except Exception:  # noqa: BLE001
                pass
        for s in strings:
            g1 = judge(fresh, s, "cross")
            g2 = ask(aged, pint, s)
            rec.count("aged_compared")
            if g1 != g2:
                rec.violation("fresh-vs-aged-differs", {"string": s, "fresh": g1, "aged": g2},
                              workload="cross", shape=shape(s))
        rec.sample({"strings": strings[:5], "asked": len(strings)})
    elif kind == "redefctx":
        ureg = pintload.registry(non_int_type=F)
        cands = [c for c, u in m.units.items() if is_mult(c) and not u["is_base"] and m.is_multiplicative(c)
                 and c.isidentifier() and m.root(c)[0].v > 0 and m.root(c)[1]
                 # names that also read as prefix + unit (milliarcsecond) are refused by pint's
                 # Context ("Can't redefine a unit with a prefix"): not this workload's subject
                 and len(m.readings(c)) == 1]        # (rads = rad + s trips an assertion there)
        withsym = [c for c in cands if m.units[c]["symbol"] and m.units[c]["symbol"] != c]
        targets = rng.sample(withsym, min(len(withsym), spec["n"] * 2 // 3)) + rng.sample(cands, spec["n"] // 3)
        ctx = pint.Context("c08redef")
        chosen = []
        for c in dict.fromkeys(targets):
            u = m.units[c]
            spellings = [c] + [a for a in u["aliases"] if a.isidentifier()]
            lhs = c if rng.random() < 0.7 else rng.choice([x for x in spellings if len(m.readings(x)) == 1])
            fac, root, _ = m.root(c)
            rhs = " * ".join(f"{k} ** ({v})" for k, v in root.items())
            line = f"{lhs} = {float(fac.v) * 1.0625!r} * {rhs}"
            try:
                ctx.redefine(line)
            except Exception as e:  # noqa: BLE001
                rec.count("redefinition_refused_by_context")
                continue
            chosen.append(c)
        ureg.add_context(ctx)
        pfx = sorted(m.pspell)
        strings = []
        for c in chosen:
            u = m.units[c]
            for sp in [c] + ([u["symbol"]] if u["symbol"] else []) + list(u["aliases"]):
                if not sp.isidentifier():
                    continue
                strings.append(sp)
                strings.append(sp + "s")
                for p in rng.sample(pfx, 2):
                    strings.append(p + sp)
        strings = [x for x in dict.fromkeys(strings)]
        rec.count("redefined_units", len(chosen))
        with ureg.context("c08redef"):
            # the redefinition took effect (otherwise the workload observes nothing)
            c0 = chosen[0]
            if ureg.convert(F(1), c0, ureg.get_root_units(c0)[1]) == m.root(c0)[0].v:
                rec.inconc("context redefinition had no effect")
            for x in strings:
                # no numeric clause: Context.redefine parses its line with floats, exactness is not the point
                judge(ureg, x, "redefctx-active", numeric=False)
                rec.count("lookups_under_redefining_context")
        for x in strings:
            judge(ureg, x, "redefctx-left", numeric=False)
            rec.count("lookups_after_redefining_context")
        rec.sample({"redefined": chosen[:6], "strings": strings[:8]})
    elif kind == "double":
        fresh = pintload.registry(non_int_type=F)
        aged = pintload.registry(non_int_type=F)
        pfx = sorted(m.pspell)
        spells = [s for s in sorted(m.spell) if s.isidentifier()]
        cases = []
        for _ in range(spec["n"]):
            cases.append(rng.choice(pfx) + rng.choice(pfx) + rng.choice(spells) + rng.choice(("", "", "s")))
        for s in cases:      # age: the inner prefixed unit is looked up first
            for p in pfx:
                if s.startswith(p):
                    ask(aged, pint, s[len(p):])
        for s in cases:
            g1 = judge(fresh, s, "double", numeric=False)
            g2 = ask(aged, pint, s)
            rec.count("aged_compared")
            if g1 != g2:
                rec.violation("fresh-vs-aged-differs", {"string": s, "fresh": g1, "aged": g2},
                              workload="double", shape=shape(s))
        rec.sample({"double_prefix_strings": cases[:6]})
    elif kind == "random":
        fresh = pintload.registry(non_int_type=F)
        alphabet = "abcdefghijklmnopqrstuvwxyzABCDEFGHIJKLMNOPQRSTUVWXYZ_0123456789µΩ"
        for i in range(spec["n"]):
            mode = rng.random()
            if mode < 0.5:
                s = rng.choice(alphabet[:52]) + "".join(rng.choice(alphabet) for _ in range(rng.randint(0, 9)))
            else:
                base = rng.choice(sorted(m.spell))
                if not base.isidentifier():
                    continue
                j = rng.randrange(len(base) + 1)
                s = base[:j] + rng.choice(alphabet[:52]) + base[j + rng.choice((0, 1)):]
            if not s.isidentifier() or s in ("inf", "nan", "dimensionless", "infinity") or s.startswith("_"):
                continue
            judge(fresh, s, "random")
    elif kind == "casei":
        ureg = pintload.registry(non_int_type=F)
        ureg_ci = pintload.registry(non_int_type=F, case_sensitive=False)
        lower = {}
        for sp, c in m.spell.items():
            lower.setdefault(sp.lower(), set()).add(c)

        def ci_readings(s):
            out = set()
            for suf in ("", "s"):
                if suf and not s.endswith("s"):
                    continue
                stem = s[:-1] if suf else s
                for p, pc in [("", "")] + list(m.pspell.items()):
                    if stem.startswith(p):
                        u = stem[len(p):]
                        if suf and len(u) == 1:
                            continue
                        for c in lower.get(u.lower(), ()):
                            out.add((pc, c))
            return out

        spells = [s for s in sorted(m.spell) if s.isidentifier()]
        pfx = [""] * 6 + sorted(m.pspell)
        for i in range(spec["n"]):
            u = rng.choice(spells)
            v = "".join(ch.upper() if rng.random() < 0.4 else ch.lower() if rng.random() < 0.4 else ch
                        for ch in u)
            s = rng.choice(pfx) + v + rng.choice(("", "", "s"))
            rec.count("casei_checked")
            rec.case(("casei", s))
            got_cs = ask(ureg, pint, s, case_sensitive=True)
            got_ci = ask(ureg, pint, s, case_sensitive=False)
            # the per-call option through every entry point, on a registry whose own setting is the
            # opposite: an explicit request wins over the registry default, whichever way
            if i % 3 == 0:
                def via(reg, how, cs):
                    try:
                        if how == "get_name":
                            return ("ok", reg.get_name(s, case_sensitive=cs))
                        r = {"parse_units": reg.parse_units, "parse_expression": reg.parse_expression,
                             "call": reg}[how](s, case_sensitive=cs)
                        d = dict(r._units._d) if hasattr(r, "_units") else None
                        return ("ok", next(iter(d))) if d and len(d) == 1 and list(d.values()) == [1] else ("ok", "?")
                    except pint.UndefinedUnitError:
                        return ("undefined",)
                    except pint.OffsetUnitCalculusError:
                        return ("offset",)
                    except Exception as e:  # noqa: BLE001
                        return ("other", type(e).__name__)
                for reg, regname in ((ureg, "case-sensitive registry"), (ureg_ci, "case-insensitive registry")):
                    for cs, ref in ((True, got_cs), (False, got_ci)):
                        for how in ("get_name", "parse_units", "parse_expression", "call"):
                            g = via(reg, how, cs)
                            rec.count("per_call_case_option_checks")
                            # constants and numbers (parse_expression of 'e', 'pi') are not unit lookups
                            if g == ("ok", "?") or ref[0] == "offset" or g[0] == "offset":
                                continue
                            if g[0] != ref[0] or (g[0] == "ok" and ref[0] == "ok" and g[1] != ref[1] and how != "get_name"
                                                  and not g[1].startswith("delta_")):
                                rec.violation("per-call-case-option-ignored",
                                              {"string": s, "registry": regname, "case_sensitive": cs, "entry": how,
                                               "got": g, "get_name_on_default_registry": ref},
                                              workload="casei", entry=how, requested="sensitive" if cs else "insensitive",
                                              registry_default="insensitive" if reg is ureg_ci else "sensitive")
            # case-sensitive answer is the C08 main clause (judged elsewhere); here: what case
            # insensitivity ADDS.
            if s in m.spell:
                if got_ci != ("ok", m.spell[s]):
                    rec.violation("casei-exact-spelling-wrong", {"string": s, "got": got_ci}, workload="casei")
                continue
            rd = ci_readings(s)
            names = {pc + c for pc, c in rd if not (pc and not is_mult(c))}
            offs = any(pc and not is_mult(c) for pc, c in rd)
            w = {"string": s, "case_insensitive": got_ci, "case_sensitive": got_cs,
                 "model_readings": sorted(names)[:6]}
            if not rd:
                if got_ci[0] == "ok":
                    rec.violation("casei-accepts-more-than-case-variants", w, workload="casei", shape=shape(s))
            elif got_ci[0] == "ok":
                if got_ci[1] not in names:
                    rec.violation("casei-not-a-reading", w, workload="casei")
            elif got_ci[0] == "offset":
                if not offs:
                    rec.violation("casei-spurious-offset", w, workload="casei")
            else:
                rec.violation("casei-refuses-case-variant", w, workload="casei")
            # exact-case readings keep their meaning under case-insensitive lookup
            if got_cs[0] == "ok" and len(m.readings(s)) == 1 and got_ci != got_cs and got_ci[0] == "ok":
                # Within ONE prefix split the exact-case unit spelling must keep its meaning ('mA' is
                # milli+ampere, not milli+'a' = year); a different split ('RD' = 'Rd' rutherford vs
                # R + D) is not ranked by the statement.
                (pc_exact, c_exact), = m.readings(s)
                try:
                    first = ureg.parse_unit_name(s, case_sensitive=False)[0]
                except Exception:  # noqa: BLE001
                    first = None
                if first is not None and first[0] == pc_exact and first[1] != c_exact:
                    rec.violation("casei-prefers-case-variant-over-exact-spelling-in-same-prefix-split",
                                  dict(w, exact_case_reading=(pc_exact, c_exact), first_candidate=first),
                                  workload="casei")
            if got_cs[0] == "ok" and len(m.readings(s)) == 1 and got_ci != got_cs:
                # e.g. 'RD': ronna+debye case-sensitively, rutherford ('Rd') case-insensitively.
                # The statement does not rank case variants against exact-case prefix readings:
                # reported, not alarmed on.
                rec.count("casei_exact_case_reading_shadowed")
            if i % 500 == 0:
                rec.sample(w)
    elif kind == "delta":
        for nit in (F, float):
            ureg = pintload.registry(non_int_type=nit)
            offs = [c for c in m.units if "offset" in m.units[c]["mods"] and m.units[c]["mods"]["offset"].v != 0]
            for c in offs:
                spellings = [c] + m.units[c]["aliases"] + ([m.units[c]["symbol"]] if m.units[c]["symbol"] else [])
                for sp in spellings:
                    if not sp.isidentifier():
                        continue
                    forms = [(f"{sp}/meter", {"delta_" + c: 1, "meter": -1}, {c: 1, "meter": -1}),
                             (f"{sp}**2", {"delta_" + c: 2}, {c: 2}),
                             (f"meter*{sp}", {"delta_" + c: 1, "meter": 1}, {c: 1, "meter": 1}),
                             (f"{sp}", {c: 1}, {c: 1})]
                    for expr, want_delta, want_plain in forms:
                        rec.count("delta_forms")
                        rec.case(("delta", nit.__name__, expr))
                        try:
                            a = dict(ureg.parse_units(expr)._units._d)
                            b = dict(ureg.parse_units(expr, as_delta=False)._units._d)
                            d = dict(ureg.parse_units(expr, as_delta=True)._units._d)
                        except Exception as e:  # noqa: BLE001
                            rec.violation("delta-parse-raised", {"expr": expr, "err": repr(e)}, workload="delta")
                            continue
                        if a != want_delta or d != want_delta or b != want_plain:
                            rec.violation("delta-reading-wrong", {"expr": expr, "default": repr(a),
                                                                  "as_delta_false": repr(b)}, workload="delta")
                # prefixed offset unit refused
                for p in ("milli", "k", "kilo"):
                    g = ask(ureg, pint, p + c)
                    rec.case(("delta-prefix", nit.__name__, p + c))
                    if g[0] != "offset":
                        rec.violation("prefixed-offset-accepted", {"string": p + c, "got": g}, workload="delta")
    if kind == "cross":
        # parts repeated under another PYTHONHASHSEED (names cross<i>-again) carry the same key
        rec.observe("ambiguous_choice_digest", f"{kind}:{spec.get('part', 0)}:{spec.get('rate', 1)}:{digest.hexdigest()}")
        rec.count("ambiguous_choice_digests")


def make_shape(prefix_canon, unit_canon, prefix_spellings, m):
    """Classifier for finding D17.  `can_auto(w)`: w can enter pint's unit table by being looked
    up: w = canonical prefix + (canonical unit | name that can itself enter the table).  A string
    is 'via-auto-registered-prefixed-unit' when it is [prefix spelling] + such a name + ['s'], or
    when a unit it resolves to has such a name (a defined unit named like prefix+unit)."""
    memo = {}

    def can_auto(w):
        if w in memo:
            return memo[w]
        memo[w] = False
        for pc in prefix_canon:
            if w.startswith(pc) and len(w) > len(pc):
                rest = w[len(pc):]
                if rest in unit_canon or can_auto(rest):
                    memo[w] = True
                    break
        return memo[w]

    def shape(s):
        for suf in ("", "s"):
            if suf and not s.endswith("s"):
                continue
            stem = s[:-1] if suf else s
            for p in prefix_spellings:
                if stem.startswith(p) and can_auto(stem[len(p):]):
                    return "via-auto-registered-prefixed-unit"
        cands = [m.spell[s]] if s in m.spell else [c for _, c in m.readings(s)]
        if any(can_auto(c) for c in cands):
            return "via-auto-registered-prefixed-unit"
        return "other"

    return shape


def finalize(observed, counters):
    """The same workload part under different hash seeds must make the same choices."""
    out = []
    seen = {}
    for d in observed.get("ambiguous_choice_digest", ()):
        key, _, h = d.rpartition(":")
        if key in seen and seen[key] != h:
            out.append(("ambiguous-choice-depends-on-hash-seed", {"part": key}, {"workload": "cross"}))
        seen[key] = h
    return out


# ---------------------------------------------------------------------------
def run_generated(spec, rec, rng, pint):
    """Tiny alphabets with deliberately colliding prefix / unit spellings: ALL strings up to a
    length are asked and compared with the model readings."""
    from harness import refmodel as R

    for gi in range(spec["n"]):
        alpha = "ab"
        def word(n):
            return "".join(rng.choice(alpha) for _ in range(n))
        units, prefixes = set(), set()
        while len(units) < rng.randint(2, 5):
            w = word(rng.randint(1, 3))
            units.add(w)
        while len(prefixes) < rng.randint(1, 3):
            w = word(rng.randint(1, 2))
            if w not in units:
                prefixes.add(w)
        units, prefixes = sorted(units), sorted(prefixes)
        lines = []
        vals = {}
        for i, p in enumerate(prefixes):
            vals[p] = F(rng.choice((2, 3, 5, 7, 10, 1000)), 1) ** rng.choice((1, -1, 2))
            lines.append(f"{p}- = {R.F(vals[p]).numerator} / {R.F(vals[p]).denominator}")
        lines.append(f"{units[0]} = [dim]")
        for i, u in enumerate(units[1:]):
            lines.append(f"{u} = {rng.randint(2, 9)} * {units[0]}")
        text = "\n".join(lines)
        try:
            ureg = pint.UnitRegistry(lines, non_int_type=F, cache_folder=None, on_redefinition="raise")
        except Exception as e:  # noqa: BLE001
            rec.count("generated_refused")
            continue
        m = R.read_text(text)
        gshape = make_shape(prefixes, set(units), [""] + prefixes, m)
        for n in range(1, 7):
            for tup in itertools.product(alpha + "s", repeat=n):
                s = "".join(tup)
                rec.count("generated_strings")
                if s in m.spell:
                    exp = {m.spell[s]}
                    exact = True
                else:
                    exact = False
                    exp = {pc + c for pc, c in m.readings(s)}
                # a FRESH registry per string: earlier lookups corrupt the shared table (D17) and
                # would smear one root cause over unrelated strings
                ureg = pint.UnitRegistry(lines, non_int_type=F, cache_folder=None)
                g = ask(ureg, pint, s)
                rec.case(("gen", text, s), nontrivial=not exact)
                w = {"definitions": lines, "string": s, "got": g, "model": sorted(exp)}
                sh = gshape(s)
                if not exp:
                    if g[0] == "ok":
                        rec.violation("no-reading-accepted", w, workload="generated", shape=sh)
                elif g[0] != "ok" or g[1] not in exp:
                    rec.violation("not-a-model-reading" if g[0] == "ok" else "reading-refused", w,
                                  workload="generated", nreadings=min(len(exp), 3), shape=sh)
                elif exact or len(m.readings(s)) == 1:
                    # numeric: prefix applied exactly once
                    (pc, c), = m.readings(s) if not exact else [("", m.spell[s])]
                    try:
                        f = ureg.convert(F(1), s, c)
                    except Exception as e:  # noqa: BLE001
                        rec.violation("numeric-raised", dict(w, err=repr(e)[:200]), workload="generated", shape=sh)
                        continue
                    want = vals[pc] if pc else F(1)
                    if f != want:
                        rec.violation("prefix-factor-not-once", dict(w, factor=str(f), want=str(want)),
                                      workload="generated", shape=sh)
        if gi == 0:
            rec.sample({"definitions": lines})
