"""C15 — unit-rewriting helpers preserve the physical quantity.

Every helper call on the real pint code is observed by an oracle built on the independent
reference model (harness/refmodel.py): value in root units and base-dimension vector of
(magnitude, units) before and after the call.  Value equality is `==` in the Fraction
registry when neither side involves a unit tainted by a fractional power of a scale and the
magnitudes are int/Fraction; every other comparison is 1e-9 relative, done in the log domain
(so 4 units at exponent 3 with Planck-scale factors cannot overflow the ORACLE).

Clauses (field `clause` of a violation):
  value / dimension       every helper, every default system, Fraction / float / Decimal
                          registries, int / Fraction / float / Decimal / ufloat magnitudes
  ito-differs             object after ito_X() vs result of to_X(): magnitude, units, types
  mergeable-left          to_reduced_units (and auto_reduce_dimensions arithmetic) leaves two
                          units whose MODEL dimension vectors are proportional
  more-than-one-unit / not-a-decimal-prefix / renamed-to-other-unit / units-differ
                          to_compact: containers compared unit by unit
  range                   to_compact, leading unit (first positive exponent in container
                          order, else first unit) with exponent +1 or -1: |magnitude| in
                          [1, 1000) with a 1e-9 guard band, only when the needed 10**3k prefix
                          exists in the MODEL's prefix table
  special-changed         to_compact on unitless, 0, NaN, +-inf
  system-base-unit-left   to_base_units result still contains a root unit that the active
                          system replaces (rules read by the model from the @system blocks)
  raised                  a helper raised on a valid multiplicative quantity

Deviations from DESIGN.md §4/C15 (stated so nobody has to guess):
  * `dimensionless ... returned unchanged by to_compact` is read the way the code decides it
    (`quantity.unitless`): a quantity whose units cancel to NO root unit (no units at all,
    m/m, percent, link**-3*minim).  Decided here from the MODEL's root-unit exponents.
    Dimensionless quantities whose root units survive (radian, bit, count: 1500 B -> 1.5 kB,
    the main use of to_compact) are rescaled by design; they are value/structure checked and
    counted (`compact_dimensionless_base_unit_rescaled`), not alarmed on.
  * the [1, 1000) clause is also evaluated for a leading unit with exponent -1 (no numerator
    present): pint takes ceil there and lands in the same interval; the statement's
    "first-power" is read as |exponent| == 1.  Higher powers are only counted against the
    best possible interval [1, 1000**|e|).
  * to_compact reads unit names through parse_unit_name: `milliarcsecond` and
    `kilometer_per_second` are defined units that it treats as milli+arcsecond /
    kilo+meter_per_second.  The structural clause uses the same reading, taken from the MODEL
    (all prefix+unit(+s) readings, unprefixed twin dropped); more than one reading left = D12.
  * `system-base-unit-left` is not in the statement's text; it is the defining contract of
    to_base_units "in every default system" and the only way a dropped system rule is
    observable through this property.  Silent on the unchanged tree.
  * under auto_reduce_dimensions the `mergeable-left` clause is applied to results of * and /
    (also in-place, also with a number on either side) but not to `number / quantity`:
    __rtruediv__ is not wrapped by ireduce_dimensions, nothing was applied (counted).
  * non-multiplicative units (offset, logarithmic) are run alone (exponent 1); an
    OffsetUnitCalculusError / LogarithmicUnitCalculusError refusal is counted, a returned
    value is checked with the affine model; logarithmic units only in the float registry.
  * float range.  pint multiplies scale**exponent leaf by leaf through the definition chains of
    source and destination; with Planck / atomic units at |exponent| up to 10 the partial
    products leave the normal float range (OverflowError, ZeroDivisionError, Fraction('inf'),
    log10(0), results 0.0 / inf, and - observed - a silent 1.2e-3 relative error with
    bohr**-8).  `Oracle.stress` bounds that excursion from the MODEL (sum of
    |exponent*log10(scale)| over every leaf of source and destination, plus |log10 x|); above
    290 decades a float-typed outcome is counted as `skipped_float_range`, never judged.
    Exact cases (Fraction registry, untainted units, int/Fraction magnitude) are never skipped.
  * to_preferred: the integer programme can take seconds for half-integer dimension vectors
    (Gaussian units); they are kept out of the quick tier and sparse in the thorough tier.
  * witnesses never str()/repr() a Quantity or UnitsContainer of the Fraction registry (D4).
"""
import math
import os
import sys
import random
from decimal import Decimal as D
from fractions import Fraction as F

PID = "C15"
RULE = ("random quantities over all canonical multiplicative units of the default registry (1-4 "
        "units, integer exponents -3..3, 40 % of the compounds forced to contain two units of the "
        "same dimension up to a power, magnitudes mant*10**k with k in -33..30 and both signs, "
        "int/Fraction/float/Decimal/ufloat) x {to_root_units, to_base_units in each of the 7 "
        "default systems, to_reduced_units, to_compact, to_preferred} + in-place twins; a "
        "to_compact sweep over every canonical unit, prefixed inputs, decade boundaries and "
        "special magnitudes; * and / (also in-place and with numbers) in registries with "
        "auto_reduce_dimensions / autoconvert_to_preferred; single offset / logarithmic units. "
        "distinct = (workload, registry, helper, units, magnitude kind, decade); non-trivial = "
        "the helper returned different units than it was given")
ASSUMPTIONS = [
    "harness/refmodel.py (independent reader + Fraction algebra) gives the root value and the "
    "dimension vector; validated by C02 against truth-by-construction files",
    "exact == only in the Fraction registry, on untainted units, with int/Fraction magnitudes "
    "and integer exponents; otherwise 1e-9 relative",
    "'dimensionless' in the to_compact clause means the empty unit container (pint's name for it)",
    "leading unit of to_compact = first positive exponent in container (insertion) order",
    "float overflow/underflow of intermediate factors (beyond 1e+-250) is skipped, not judged",
]
SYSTEMS = ["mks", "cgs", "SI", "imperial", "US", "atomic", "Planck"]
SHARD_TIMEOUT = {"quick": 600, "thorough": 3000}
TOL_LOG = 4.4e-10            # log10(1 + 1e-9)
TOLF = F(1, 10 ** 9)


def exhaustive(tier):
    return False


def required(tier):
    if tier == "quick":
        return {
            "value_checks_exact": 8000, "value_checks_tolerance": 8000, "ito_twin_checks": 8000,
            "reduced_merges_observed": 1000, "reduced_structure_checks": 3000,
            "compact_structure_checks": 4000, "compact_range_checks": 2000,
            "compact_range_inverse_checks": 300, "compact_special_unchanged": 200,
            "compact_prefix_changed": 2000, "base_system_structure_checks": 3000,
            "preferred_checks": 180, "preferred_units_changed": 80, "auto_reduce_checks": 1000,
            "auto_reduce_merges_observed": 300, "auto_preferred_checks": 80, "nonmult_checks": 30,
            "systems": 7, "magnitude_kinds": 5, "decades": 55, "units_seen_in_compact": 380,
            "helpers": 9, "compact_special_kinds": 12,
        }
    return {
        "value_checks_exact": 400000, "value_checks_tolerance": 400000, "ito_twin_checks": 400000,
        "reduced_merges_observed": 50000, "reduced_structure_checks": 150000,
        "compact_structure_checks": 300000, "compact_range_checks": 100000,
        "compact_range_inverse_checks": 20000, "compact_special_unchanged": 2000,
        "compact_prefix_changed": 200000, "base_system_structure_checks": 150000,
        "preferred_checks": 2500, "preferred_units_changed": 1000, "auto_reduce_checks": 50000,
        "auto_reduce_merges_observed": 15000, "auto_preferred_checks": 1500, "nonmult_checks": 300,
        "systems": 7, "magnitude_kinds": 5, "decades": 60, "units_seen_in_compact": 380,
        "helpers": 9, "compact_special_kinds": 15,
    }


def shards(tier, seed):
    q = tier == "quick"
    out = []
    for s in SYSTEMS:
        if q:
            out.append({"kind": "helpers", "system": s, "name": f"helpers-{s}",
                        "regs": {"fraction": 330, "float": 230, "decimal": 70}})
        else:
            out.append({"kind": "helpers", "system": s, "name": f"helpers-{s}-F",
                        "regs": {"fraction": 24000}})
            out.append({"kind": "helpers", "system": s, "name": f"helpers-{s}-f",
                        "regs": {"float": 18000, "decimal": 5000}})
    for i, nit in enumerate(("fraction", "float", "decimal") if q else
                            ("fraction", "fraction", "float", "decimal")):
        out.append({"kind": "compact", "nit": nit, "name": f"compact-{nit}-{i}",
                    "n": 3000 if q else 120000, "sweep": 3 if q else 12})
    for i, nit in enumerate(("fraction", "float") if q else ("fraction", "fraction", "float")):
        slow = 2 if nit == "fraction" else 1         # mip on Fraction coefficients is ~5x slower
        out.append({"kind": "auto", "nit": nit, "name": f"auto-{nit}-{i}",
                    "n": 900 if q else 28000, "npref": (110 if q else 2000) // slow})
    for i, nit in enumerate(("fraction", "float") if q else ("fraction", "fraction", "float")):
        slow = 3 if nit == "fraction" else 1
        out.append({"kind": "preferred", "nit": nit, "name": f"preferred-{nit}-{i}",
                    "n": (180 if q else 2400) // slow})
    return out


# ---------------------------------------------------------------------------
# oracle
# ---------------------------------------------------------------------------
def fexp(e):
    """Exponent as it sits in a container -> Fraction (floats like 0.333.. -> 1/3)."""
    if isinstance(e, (int, F)):
        return F(e)
    if isinstance(e, D):
        return F(e).limit_denominator(10 ** 6)
    return F(float(e)).limit_denominator(10 ** 6)


def is_exact_mag(x):
    return isinstance(x, (int, F)) and not isinstance(x, bool)


def nominal(x):
    return x.nominal_value if hasattr(x, "nominal_value") else x


def isnan(x):
    try:
        return math.isnan(x)
    except Exception:  # noqa: BLE001
        return False


def isinf(x):
    try:
        return math.isinf(x)
    except Exception:  # noqa: BLE001
        return False


def tofrac(x):
    x = nominal(x)
    if isinstance(x, (int, F, D, float)):
        return F(x)
    return F(float(x))


def log10abs(v):
    """log10|v| for a Fraction (arbitrarily large / small) or a float; None if undefined."""
    if isinstance(v, F):
        if v == 0:
            return None
        return math.log10(abs(v.numerator)) - math.log10(v.denominator)
    v = float(v)
    if v == 0 or v != v or abs(v) == math.inf:
        return None
    return math.log10(abs(v))


def sign(v):
    return (v > 0) - (v < 0)


def floor_log10(v: F) -> int:
    """exact floor(log10|v|) of a non-zero Fraction."""
    v = abs(v)
    d = int(math.floor(log10abs(v)))
    while F(10) ** d > v:
        d -= 1
    while F(10) ** (d + 1) <= v:
        d += 1
    return d


def is_range_error(ex):
    """exceptions by which float overflow / underflow surfaces in pint: OverflowError from
    scale**exp, ZeroDivisionError after a factor flushed to 0, Fraction('inf') / Fraction('nan')
    when a float factor is turned back into a Fraction, log10(0) in to_compact."""
    name = type(ex).__name__
    if name in ("OverflowError", "ZeroDivisionError", "Overflow", "Underflow"):
        return True
    if name == "ValueError":
        a = repr(ex.args)
        return "'inf'" in a or "'nan'" in a or "'-inf'" in a or "math domain error" in a
    return False


def mag_desc(x):
    return type(x).__name__ + ":" + repr(x)[:60]


def units_desc(d):
    return {str(k): str(fexp(v)) for k, v in d.items()}


class Fac:
    """Factor to root units kept overflow-free: exact Fraction part * sgn * 10**log."""
    __slots__ = ("frac", "log", "sgn", "exact")

    def __init__(self, frac=F(1), log=0.0, sgn=1, exact=True):
        self.frac, self.log, self.sgn, self.exact = frac, log, sgn, exact

    def times(self, val, e):
        """self * val**e   (val: refmodel.Val of ONE unit, e: Fraction)"""
        if val.exact and e.denominator == 1:
            return Fac(self.frac * F(val.v) ** int(e), self.log, self.sgn, self.exact)
        v = float(val.v)
        if v == 0 or v != v or abs(v) == math.inf:
            raise KeyError("degenerate factor")
        sg = self.sgn
        if v < 0:
            if e.denominator != 1:
                raise KeyError("fractional power of a negative scale")
            sg = sg * (-1 if int(e) % 2 else 1)
        if val.exact and v in (1.0, -1.0):
            return Fac(self.frac, self.log, sg, self.exact)
        return Fac(self.frac, self.log + float(e) * math.log10(abs(v)), sg, False)

    def mul(self, other, e=1):
        return Fac(self.frac * other.frac ** e, self.log + e * other.log, self.sgn * other.sgn,
                   self.exact and other.exact)

    def sign(self):
        return self.sgn * sign(self.frac)

    def log10(self):
        return log10abs(self.frac) + self.log


class Oracle:
    def __init__(self, m, R, qmodel):
        self.m, self.R, self.qm = m, R, qmodel
        self._u = {}
        self._cr = {}
        self._st = {}
        self.dec_by_k = {0: ""}
        self.k_of = {"": 0}
        for pc, p in m.prefixes.items():
            v = F(p["value"])
            if v <= 0:
                continue
            big = v.numerator if v.denominator == 1 else (v.denominator if v.numerator == 1 else None)
            if big is None:
                continue
            k = len(str(big)) - 1
            if 10 ** k != big:
                continue
            k = k if v.denominator == 1 else -k
            self.dec_by_k.setdefault(k, pc)
            self.k_of[pc] = k
        self.dec_names = sorted(self.k_of, key=lambda s: -len(s))
        # root units replaced by each system (model reading of the @system rules)
        self.sys_forbidden = {}
        self.sys_map = {}
        self.sys_tainted = {}
        for s, sd in m.systems.items():
            bad = set()
            self.sys_map[s] = {}
            self.sys_tainted[s] = False
            for rule in sd["rules"]:
                new = rule[0]
                try:
                    _, newc = m.resolve(new)
                    pref = m.resolve(new)[0]
                    ru = m.root_of_spelling(new)[1]
                except Exception:  # noqa: BLE001
                    continue
                if len(rule) > 1 and rule[1]:
                    old = rule[1]
                elif len(ru) == 1:
                    old = next(iter(ru))
                else:
                    continue
                self.sys_map[s][old] = new
                if not m.root_of_spelling(new)[0].exact:
                    self.sys_tainted[s] = True
                if not (old == newc and not pref):
                    bad.add(old)
            self.sys_forbidden[s] = bad

    def stress1(self, name):
        """sum over the whole definition chain of |exponent * log10(scale)| for one spelling."""
        r = self._st.get(name)
        if r is None:
            self._st[name] = 0.0          # cycle guard
            m = self.m
            pc, c = m.resolve(self.qm.strip_delta(name))
            r = abs(log10abs(F(m.prefixes[pc]["value"]))) if pc else 0.0
            u = m.units[c]
            if not u["is_base"]:
                lv = log10abs(u["scale"].v)
                r += abs(lv) if lv is not None else 0.0
                for ref, e in u["ref"].items():
                    r += abs(float(e)) * self.stress1(ref)
            self._st[name] = r
        return r

    def stress(self, units):
        return sum(abs(float(fexp(e))) * self.stress1(n) for n, e in units.items())

    def reduced_stress_bound(self, units):
        """stress of the worst destination to_reduced_units may pick: each group of mergeable
        units collapsed onto any one of its members (planck_length**13 is a real outcome)."""
        groups = {}
        for n, e in units.items():
            groups.setdefault(self.proj_key(n), []).append((n, fexp(e)))
        total = 0.0
        for key, members in groups.items():
            if not key:
                total += sum(abs(float(e)) * self.stress1(n) for n, e in members)
                continue
            k0 = key[0][0]
            worst = 0.0
            for tgt, _ in members:
                dt = self.info(tgt)[1][k0]
                exp_t = sum(e * self.info(n)[1][k0] / dt for n, e in members)
                worst = max(worst, abs(float(exp_t)) * self.stress1(tgt))
            total += worst
        return total

    def system_stress(self, system, units):
        """stress of the destination of to_base_units: root units mapped through the rules."""
        mp = self.sys_map.get(system, {})
        return sum(abs(float(e)) * self.stress1(mp.get(r, r)) for r, e in self.root_units(units).items())

    def info(self, name):
        """spelling -> (Val factor to root, dims); delta_ units by their scale."""
        r = self._u.get(name)
        if r is None:
            pv, ru, dm = self.m.root_of_spelling(self.qm.strip_delta(name))
            r = self._u[name] = (pv, dm, ru)
        return r

    def root_units(self, units):
        """{name: exp} -> surviving root units {root: exp} (what pint calls not `unitless`)."""
        ru = {}
        for s, e in units.items():
            ru = self.R.mmul(ru, self.info(s)[2], fexp(e))
        return ru

    def compact_reading(self, name):
        """(prefix, base) that to_compact works on for a unit name: all prefix+unit(+s)
        readings of the model, the unprefixed twin of a prefixed reading dropped (pint prefers
        'kilo'+'gram' over ''+'kilogram'); None when more than one reading is left (D12)."""
        c = self._cr.get(name, 0)
        if c == 0:
            rd = list(self.m.readings(name))
            for p, u in list(rd):
                if p and ("", p + u) in rd and p + u == name:
                    rd.remove(("", p + u))
            c = self._cr[name] = rd[0] if len(rd) == 1 else None
        return c

    def expand(self, units):
        """{name: exp} -> (Val, dims)."""
        R = self.R
        f, dm = Fac(), {}
        for s, e in units.items():
            e = fexp(e)
            pv, rd = self.info(s)[:2]
            f = f.times(pv, e)
            dm = R.mmul(dm, rd, e)
        return f, dm

    def mergeable(self, a, b):
        da, db = self.info(a)[1], self.info(b)[1]
        if not da and not db:
            return True
        if not da or not db or da.keys() != db.keys():
            return False
        it = iter(da)
        k0 = next(it)
        r = db[k0] / da[k0]
        return all(db[k] / da[k] == r for k in it)

    def mergeable_pairs(self, units):
        names = list(units)
        return [(a, b) for i, a in enumerate(names) for b in names[i + 1:] if self.mergeable(a, b)]

    def proj_key(self, name):
        """dimension up to a power: primitive integer direction of the dimension vector."""
        dm = self.info(name)[1]
        if not dm:
            return ()
        items = sorted(dm.items())
        den = 1
        for _, v in items:
            den = den * v.denominator // math.gcd(den, v.denominator)
        ints = [int(v * den) for _, v in items]
        g = 0
        for i in ints:
            g = math.gcd(g, abs(i))
        if ints[0] < 0:
            g = -g
        return tuple((k, i // g) for (k, _), i in zip(items, ints))


class Verdict:
    """Outcome of one value comparison."""
    OK, BAD_DIM, BAD_VALUE, UNDECIDED = "ok", "dimension", "value", "undecided"


def compare(before, after):
    """before/after = (magnitude Fraction, Val factor, dims, magnitude_is_exact).
    -> (verdict, mode, detail)"""
    xb, fb, db, eb = before
    xa, fa, da, ea = after
    if db != da:
        return Verdict.BAD_DIM, "dims", {"dims_before": str(db), "dims_after": str(da)}
    if fb.exact and fa.exact:
        a, b = xb * fb.frac * fb.sgn, xa * fa.frac * fa.sgn
        if eb and ea:
            return (Verdict.OK if a == b else Verdict.BAD_VALUE), "exact", \
                {"root_before": str(a)[:80], "root_after": str(b)[:80]}
        ok = abs(a - b) <= TOLF * max(abs(a), abs(b))
        return (Verdict.OK if ok else Verdict.BAD_VALUE), "tolerance", \
            {"root_before": repr(float_or_str(a)), "root_after": repr(float_or_str(b))}
    # log domain
    parts = []
    for x, f in ((xb, fb), (xa, fa)):
        lx, lf = log10abs(x), f.log10()
        if x == 0:
            parts.append((0, None))
            continue
        if lx is None or lf is None:
            return Verdict.UNDECIDED, "log", {}
        parts.append((sign(x) * f.sign(), lx + lf))
    (sb, lb), (sa, la) = parts
    if sb != sa:
        return Verdict.BAD_VALUE, "log", {"sign_before": sb, "sign_after": sa}
    if sb == 0:
        return Verdict.OK, "log", {}
    ok = abs(lb - la) <= TOL_LOG + 1e-13 * max(abs(lb), abs(la))
    return (Verdict.OK if ok else Verdict.BAD_VALUE), "log", {"log10_root_before": lb, "log10_root_after": la}


def float_or_str(v):
    try:
        return float(v)
    except OverflowError:
        return str(v)[:60]


def same_mag(a, b):
    if type(a) is not type(b):
        return False
    if hasattr(a, "nominal_value"):
        if not same_mag(a.nominal_value, b.nominal_value):
            return False
        try:
            return same_mag(a.std_dev, b.std_dev)
        except OverflowError:          # std_dev squares its terms
            return True
    if isnan(a) and isnan(b):
        return True
    return a == b


# ---------------------------------------------------------------------------
# generators
# ---------------------------------------------------------------------------
MAG_KINDS = {"fraction": ("fraction", "fraction", "int"),
             "float": ("float", "float", "int", "ufloat"),
             "decimal": ("decimal", "decimal", "int")}


def gen_mag(rng, kind):
    """-> (magnitude object, decade).  |value| = mant * 10**(dec-3), mant 1..9999."""
    sgn = -1 if rng.random() < 0.3 else 1
    dec = rng.randint(-30, 30)
    mant = rng.randint(1, 9999)
    v = F(sgn * mant) * F(10) ** (dec - 3)
    if kind == "fraction":
        if rng.random() < 0.3:
            v = v / rng.choice((3, 7, 64, 11))
        return v, dec
    if kind == "int":
        dec = rng.randint(0, 27)
        return sgn * mant * 10 ** dec, dec + 3
    if kind == "float":
        return float(v), dec
    if kind == "decimal":
        return D(sgn * mant).scaleb(dec - 3), dec
    if kind == "ufloat":
        from uncertainties import ufloat
        x = float(v)
        return ufloat(x, abs(x) * rng.choice((0.01, 0.1, 1e-6))), dec
    raise ValueError(kind)


class UnitGen:
    def __init__(self, rng, oracle, names):
        self.rng, self.o, self.names = rng, oracle, names
        self.classes = {}
        for n in names:
            self.classes.setdefault(oracle.proj_key(n), []).append(n)
        self.multi = [k for k, v in self.classes.items() if len(v) >= 2]

    def compound(self, same_dim_bias=0.4, nmax=4):
        rng = self.rng
        k = rng.randint(1, nmax)
        picked = rng.sample(self.names, k)
        if k >= 2 and rng.random() < same_dim_bias:
            cls = self.classes[self.o.proj_key(picked[0])]
            if len(cls) >= 2:
                other = rng.choice(cls)
                if other not in picked:
                    picked[1] = other
        return {n: rng.choice((-3, -2, -1, 1, 1, 1, 2, 3)) for n in picked}

    def partner(self, units, bias=0.6):
        """compound sharing dimension classes with `units` (for * and / workloads)."""
        rng = self.rng
        out = self.compound(0.2, 3)
        if rng.random() < bias:
            n = rng.choice(list(units))
            cls = self.classes[self.o.proj_key(n)]
            out[rng.choice(cls)] = rng.choice((-2, -1, 1, 2))
        return out


# ---------------------------------------------------------------------------
# the monitor
# ---------------------------------------------------------------------------
class Monitor:
    def __init__(self, rec, spec, oracle, pint, ureg, regname, system=None):
        self.rec, self.spec, self.o, self.pint = rec, spec, oracle, pint
        self.ureg, self.reg, self.system = ureg, regname, system
        self.Q = ureg.Quantity
        self.UC = ureg.UnitsContainer
        self.order_rng = random.Random((spec.get("seed", 0) if spec else 0) ^ 0xC15)

    # -- helpers ----------------------------------------------------------
    def mk(self, x, units):
        return self.Q(x, self.UC(dict(units)))

    def shape(self, units):
        n = len(units)
        tainted = any(not self.o.info(u)[0].exact for u in units)
        return f"n={n};samedim={bool(self.o.mergeable_pairs(units))};tainted={tainted}"

    def fields(self, helper, clause, x, units, **kw):
        """classifier of a violation: mechanism-level only.  The structural clauses are
        identified by helper / clause / registry (+ their own fields); the value-ish clauses
        also carry the magnitude type and the unit shape (count, same-dimension pair, taint)."""
        f = dict(helper=helper, clause=clause, registry=self.reg)
        if clause in ("value", "dimension", "raised", "ito-differs", "units-differ"):
            f["magnitude"] = type(x).__name__
            f["shape"] = self.shape(units)
        f.update(kw)
        return f

    def witness(self, x, units, **kw):
        w = {"magnitude": mag_desc(x), "units": units_desc(units), "registry": self.reg}
        if self.system:
            w["system"] = self.system
        w.update(kw)
        return w

    def floaty(self, x, *unit_dicts):
        """does pint compute this in floats (or Decimals)?  Only then can range effects occur."""
        if self.reg != "fraction" or not is_exact_mag(x):
            return True
        if self.system and self.o.sys_tainted.get(self.system):
            return True
        for d in unit_dicts:
            for u in d or ():
                try:
                    if not self.o.info(u)[0].exact:
                        return True
                except KeyError:
                    return True
        return False

    def stressed(self, helper, x, units, runits=None):
        """Could pint's float accumulator leave the normal float range on the way?

        pint multiplies scale**exponent leaf by leaf through the whole definition chain of the
        source AND the destination (h**8, m_e**-8, ...); the partial products wander by at most
        the sum of |exponent * log10(scale)| over all leaves.  Beyond ~1e+-290 they overflow,
        flush to zero or go denormal (observed: 1.2e-3 relative error with bohr**-8), which is
        a limit of float arithmetic and not judged here."""
        o = self.o
        try:
            s = o.stress(units)
            if runits is not None:
                s += o.stress(runits)
            elif helper.endswith("base_units") and self.system:
                s += o.system_stress(self.system, units)
            elif helper.endswith("root_units"):
                pass
            elif "reduced" in helper or helper == "auto":
                s += max(o.stress(units), o.reduced_stress_bound(units))
            else:
                s += o.stress(units)
        except KeyError:
            return True
        xn = nominal(x)
        if not (isnan(xn) or isinf(xn)) and xn != 0:
            s += abs(log10abs(tofrac(xn)))
        return s > 290

    def call(self, helper, fn, x, units, extra=None, dst_stress=0.0, dst_units=(), **kw):
        """run a helper; classify exceptions.  -> (ok, result)"""
        rec = self.rec
        try:
            return True, fn()
        except Exception as ex:  # noqa: BLE001
            name = type(ex).__name__
            rangeish = is_range_error(ex) or (name == "InvalidOperation" and self.reg == "decimal")
            if rangeish and self.floaty(x, units, *dst_units) and \
                    (dst_stress > 290 or self.stressed(helper, x, units)):
                rec.count("skipped_float_range")
                rec.observe("float_range_errors", f"{helper}:{name}")
                return False, None
            shape = kw.pop("shape", None) or self.raise_shape(helper, units, name)
            f = dict(self.fields(helper, "raised", x, units, error=name), shape=shape, **kw)
            if not shape.startswith("n="):
                f.pop("magnitude", None)          # a named mechanism: magnitude type is irrelevant
            rec.violation("helper-raised", self.witness(x, units, error=name, args=repr(ex.args)[:300],
                                                        **(extra or {})), **f)
            return False, None

    def raise_shape(self, helper, units, errname):
        if "reduced" in helper and errname == "DimensionalityError" and self.reg != "fraction":
            # exponents exp/power are floats (Decimals) there: 4/3 - 1 = 0.33333333333333326
            for a, b in self.o.mergeable_pairs(units):
                da, db = self.o.info(a)[1], self.o.info(b)[1]
                if da:
                    k = next(iter(da))
                    for r in (db[k] / da[k], da[k] / db[k]):
                        if r.denominator & (r.denominator - 1):
                            return "inexact-exponents:non-dyadic-dimension-ratio"
        if helper in ("to_compact",) and errname == "AssertionError":
            amb = [u for u in units if self.o.compact_reading(u) is None]
            if amb:
                return "unit-name-also-reads-as-prefix+unit-or-plural"
        return self.shape(units)

    def value(self, helper, x, units, r, **kw):
        """value + dimension clause for result quantity r.  -> True if decided ok"""
        rec, o = self.rec, self.o
        rm = r._magnitude
        rn = nominal(rm)
        xn = nominal(x)
        runits = dict(r._units.items())
        rec.observe("helpers", helper)
        try:
            fb, db = o.expand(units)
            fa, da = o.expand(runits)
        except KeyError as ex:
            rec.violation("result-unit-unknown-to-model", self.witness(x, units, result_units=units_desc(runits),
                                                                      name=repr(ex.args)),
                          **self.fields(helper, "units-differ", x, units, **kw))
            return False
        if isnan(rn) or isinf(rn):
            if isnan(xn) or isinf(xn):
                ok = (isnan(xn) and isnan(rn)) or (isinf(xn) and isinf(rn)
                                                   and (rn > 0) == ((xn > 0) == (fb.sign() * fa.sign() > 0)))
                if not ok:
                    rec.violation("nonfinite-not-preserved",
                                  self.witness(x, units, result=mag_desc(rm), result_units=units_desc(runits)),
                                  **self.fields(helper, "value", x, units, **kw))
                if da != db:
                    rec.violation("dimension-changed", self.witness(x, units, result_units=units_desc(runits)),
                                  **self.fields(helper, "dimension", x, units, **kw))
                rec.count("value_checks_nonfinite")
                return ok
            if self.floaty(x, units, runits) and self.stressed(helper, x, units, runits):
                rec.count("skipped_float_range")
                return False
            rec.violation("nonfinite-result", self.witness(x, units, result=mag_desc(rm),
                                                           result_units=units_desc(runits)),
                          **self.fields(helper, "value", x, units, **kw))
            return False
        if isnan(xn) or isinf(xn):
            rec.violation("nonfinite-not-preserved",
                          self.witness(x, units, result=mag_desc(rm), result_units=units_desc(runits)),
                          **self.fields(helper, "value", x, units, **kw))
            return False
        int_exps = all(fexp(e).denominator == 1 for e in runits.values())
        before = (tofrac(x), fb, db, is_exact_mag(x))
        after = (tofrac(rm), fa, da, is_exact_mag(rm) and int_exps and self.reg == "fraction")
        verdict, mode, detail = compare(before, after)
        if verdict == Verdict.UNDECIDED:
            rec.count("skipped_undecidable_value")
            return False
        if mode == "exact":
            rec.count("value_checks_exact")
        else:
            rec.count("value_checks_tolerance")
        if verdict == Verdict.BAD_VALUE:
            if mode != "exact" and self.floaty(x, units, runits) and self.stressed(helper, x, units, runits):
                rec.count("skipped_float_range")
                rec.observe("float_range_errors", f"{helper}:silently-wrong-or-zero")
                return False
        if verdict != Verdict.OK:
            mech = "dimension-changed" if verdict == Verdict.BAD_DIM else "value-changed"
            rec.violation(mech, self.witness(x, units, result=mag_desc(rm), result_units=units_desc(runits),
                                             compare=mode, **detail),
                          **self.fields(helper, verdict, x, units, **kw))
            return False
        # quantifier: "exact arithmetic for the value-preservation clause".  In the Fraction
        # registry an exact magnitude in units with integer exponents and exactly defined scales
        # must come back exact: a float here means float exponents or factors leaked in (and the
        # next Fraction ** float can leave the float range, as to_preferred's did)
        if self.reg == "fraction" and is_exact_mag(x):
            ints_in = all(fexp(e).denominator == 1 for e in units.values())
            clean = all(self.o.info(u)[0].exact for u in list(units) + list(runits))
            if ints_in and int_exps and clean:
                rec.count("exactness_checks")
                float_exps = sorted(n for n, e in runits.items() if isinstance(e, float))
                if float_exps or not is_exact_mag(rm):
                    rec.violation("exactness-lost-in-exact-registry",
                                  self.witness(x, units, result=mag_desc(rm), result_units=units_desc(runits),
                                               float_exponents=float_exps),
                                  **self.fields(helper, "value", x, units, **kw))
                    return False
        # uncertainty travels with the value
        if hasattr(rm, "nominal_value") and hasattr(x, "nominal_value") and xn != 0 and rn != 0:
            if not (1e-140 < abs(rn) < 1e140 and 1e-140 < abs(xn) < 1e140):
                rec.count("skipped_uncertainty_float_range")     # std_dev squares its terms
                return True
            try:
                a, b = x.std_dev / abs(xn), rm.std_dev / abs(rn)
            except OverflowError:
                rec.count("skipped_uncertainty_float_range")
                return True
            if abs(a - b) > 1e-9 * max(a, b):
                rec.violation("uncertainty-changed", self.witness(x, units, result=mag_desc(rm),
                                                                  result_units=units_desc(runits)),
                              **self.fields(helper, "value", x, units, **kw))
                return False
            rec.count("uncertainty_checks")
        return True

    def twin(self, helper, ihelper, x, units, r, args=(), dst_stress=0.0, dst_units=(), **kw):
        """ito_X on a fresh equal object must leave it equal to r = to_X()."""
        rec = self.rec
        q2 = self.mk(x, units)
        ok, _ = self.call(ihelper, lambda: getattr(q2, ihelper)(*args), x, units, dst_stress=dst_stress,
                          dst_units=dst_units, **kw)
        if not ok:
            return
        rec.count("ito_twin_checks")
        rec.observe("helpers", ihelper)
        diffs = []
        if not same_mag(q2._magnitude, r._magnitude):
            diffs.append("magnitude" if type(q2._magnitude) is type(r._magnitude) else "magnitude-type")
        if dict(q2._units.items()) != dict(r._units.items()) or q2._units != r._units:
            diffs.append("units")
        if type(q2) is not type(r):
            diffs.append("quantity-type")
        if diffs:
            rec.violation("ito-differs-from-to",
                          self.witness(x, units, to_result=mag_desc(r._magnitude),
                                       to_units=units_desc(dict(r._units.items())),
                                       ito_result=mag_desc(q2._magnitude),
                                       ito_units=units_desc(dict(q2._units.items()))),
                          **self.fields(ihelper, "ito-differs", x, units, differs="+".join(diffs), **kw))

    def structure_reduced(self, helper, x, units, runits, **kw):
        rec = self.rec
        rec.count("reduced_structure_checks" if helper != "auto_reduce" else "auto_reduce_structure_checks")
        try:
            left = self.o.mergeable_pairs(runits)
        except KeyError:
            return
        if left:
            rec.violation("mergeable-units-left",
                          self.witness(x, units, result_units=units_desc(runits), pairs=[list(p) for p in left[:3]]),
                          **self.fields(helper, "mergeable-left", x, units, **kw))

    # -- single-quantity battery -------------------------------------------
    def battery(self, x, units, dec, workload, compact=True, reduced=True, rootbase=True):
        rec = self.rec
        kinds = type(x).__name__
        rec.observe("magnitude_kinds", kinds)
        rec.observe("decades", dec)
        if self.system:
            rec.observe("systems", self.system)
        key_units = tuple(sorted(units.items()))

        def case(helper, changed):
            rec.case((workload, self.reg, self.system if helper.endswith("base_units") else None,
                      helper, key_units, kinds, dec), nontrivial=changed)

        def do_root():
            q = self.mk(x, units)
            ok, r = self.call("to_root_units", q.to_root_units, x, units)
            if ok:
                case("to_root_units", dict(r._units.items()) != units)
                self.value("to_root_units", x, units, r)
                self.twin("to_root_units", "ito_root_units", x, units, r)

        def do_base():
            q = self.mk(x, units)
            ok, r = self.call("to_base_units", q.to_base_units, x, units, system=self.system)
            if ok:
                runits = dict(r._units.items())
                case("to_base_units", runits != units)
                self.value("to_base_units", x, units, r, system=self.system)
                self.twin("to_base_units", "ito_base_units", x, units, r, system=self.system)
                bad = self.o.sys_forbidden.get(self.system, set()) & set(runits)
                rec.count("base_system_structure_checks")
                if bad:
                    rec.violation("system-base-unit-left",
                                  self.witness(x, units, result_units=units_desc(runits), left=sorted(bad)),
                                  **self.fields("to_base_units", "system-base-unit-left", x, units,
                                                system=self.system))

        def do_reduced():
            q = self.mk(x, units)
            ok, r = self.call("to_reduced_units", q.to_reduced_units, x, units)
            if ok:
                runits = dict(r._units.items())
                case("to_reduced_units", runits != units)
                if len(runits) < len(units):
                    rec.count("reduced_merges_observed")
                self.value("to_reduced_units", x, units, r)
                self.structure_reduced("to_reduced_units", x, units, runits)
                self.twin("to_reduced_units", "ito_reduced_units", x, units, r)

        def do_compact():
            self.compact(x, self.items_of(units), dec, workload)

        steps = ([do_root, do_base] if rootbase else []) + ([do_reduced] if reduced else []) + \
            ([do_compact] if compact else [])
        self.order_rng.shuffle(steps)         # the memo layers see the helpers in every order
        for st in steps:
            st()

    def items_of(self, units):
        """container -> [(name, prefix, base, exp)] as to_compact will read the names."""
        out = []
        for n, e in units.items():
            cr = self.o.compact_reading(n)
            out.append((n, cr[0], cr[1], e) if cr else (n, "", n, e))
        return out

    # -- to_compact ---------------------------------------------------------
    def compact(self, x, items, dec, workload):
        """items: [(name as given, prefix canonical or '', base canonical, exponent)] in
        container order."""
        rec, o = self.rec, self.o
        units = {n: e for n, _, _, e in items}
        for _, _, b, _ in items:
            rec.observe("units_seen_in_compact", b)
        q = self.mk(x, units)
        ok, r = self.call("to_compact", q.to_compact, x, units)
        if not ok:
            return
        rm, rn, xn = r._magnitude, nominal(r._magnitude), nominal(x)
        runits = dict(r._units.items())
        rec.case((workload, self.reg, "to_compact", tuple(units.items()), type(x).__name__, dec),
                 nontrivial=runits != units)
        try:
            rootless = not o.root_units(units)
        except KeyError:
            rootless = False
        special = rootless or isnan(xn) or isinf(xn) or xn == 0
        if special:
            why = ("no-units" if not units else "nan" if isnan(xn) else "inf" if isinf(xn) else
                   "zero" if xn == 0 else "units-cancel-to-no-root-unit")
            rec.observe("compact_special_kinds", why + ":" + type(x).__name__)
            if same_mag(rm, x) and runits == units and type(r) is type(q):
                rec.count("compact_special_unchanged")
            else:
                rec.violation("compact-special-input-changed",
                              self.witness(x, units, result=mag_desc(rm), result_units=units_desc(runits)),
                              **self.fields("to_compact", "special-changed", x, units, special=why))
            return
        if not self.value("to_compact", x, units, r):
            return
        # structure: unit by unit
        if len({b for _, _, b, _ in items}) < len(items):
            rec.count("skipped_compact_two_inputs_share_a_base")
            return
        rec.count("compact_structure_checks")
        left = dict(runits)
        changed = []
        problem = None
        for name, p, b, e in items:
            hit = None
            for p2 in o.dec_names:
                nm = p2 + b
                if nm in left and fexp(left[nm]) == fexp(e):
                    hit = (p2, nm)
                    break
            if hit is None:
                problem = "units-differ"
                break
            del left[hit[1]]
            if hit[0] != p:
                changed.append((name, p, hit[0], hit[1], e))
        if problem is None and left:
            problem = "units-differ"
        nonlead_prefixed = False
        lead = next((it for it in items if it[3] > 0), items[0])
        for it in items:
            if it is not lead and it[1]:
                nonlead_prefixed = True
        inshape = ("prefixed-nonleading-unit-in-input" if nonlead_prefixed else
                   "prefixed-leading-unit-only" if lead[1] else "no-prefix-in-input")
        if problem:
            # is it a non-decimal prefix or another unit altogether?
            clause = "units-differ"
            for nm in left:
                for name, p, b, e in items:
                    if nm.endswith(b) and nm != b and nm[: -len(b)] in o.m.prefixes:
                        clause = "not-a-decimal-prefix"
            rec.violation("compact-units-not-a-prefix-change",
                          self.witness(x, units, result=mag_desc(rm), result_units=units_desc(runits)),
                          **self.fields("to_compact", clause, x, units, input=inshape))
            return
        for name, p, p2, nm, e in changed:
            try:
                got = o.m.resolve(nm)
            except KeyError:
                got = None
            base = next(b for n_, _, b, _ in items if n_ == name)
            if got != (p2, base):
                # prefix+unit spells a unit that is also defined on its own (milliarcsecond,
                # kilometer_per_second): harmless as long as the value clause above held
                rec.count("compact_new_name_is_also_a_defined_unit")
                rec.observe("compact_new_names_also_defined", nm)
        if changed:
            rec.count("compact_prefix_changed")
            rec.observe("compact_prefixes_chosen", changed[0][2])
        if len(changed) > 1:
            rec.violation("compact-changed-more-than-one-unit",
                          self.witness(x, units, result=mag_desc(rm), result_units=units_desc(runits),
                                       changed=[[c[0], c[3]] for c in changed]),
                          **self.fields("to_compact", "more-than-one-unit", x, units, input=inshape))
        dims = o.expand(units)[1]
        if not dims:
            # radian / bit / count based: root units survive, pint rescales (1500 B -> 1.5 kB)
            rec.count("compact_dimensionless_base_unit_rescaled" if changed else
                      "compact_dimensionless_base_unit_kept")
        # range
        e_lead = fexp(lead[3])
        if nonlead_prefixed:
            rec.count("compact_range_skipped_multi_prefixed_input")
            return
        mbase = tofrac(x) * F(10) ** (o.k_of[lead[1]] * e_lead) if lead[1] else tofrac(x)
        d = floor_log10(mbase)
        if abs(e_lead) == 1:
            k = 3 * (d // 3)
            need = k if e_lead == 1 else -k
            if need not in o.dec_by_k:
                rec.count("compact_prefix_unavailable")
                return
            rec.count("compact_range_checks" if e_lead == 1 else "compact_range_inverse_checks")
            rec.observe("compact_needed_prefix", need)
            am = abs(tofrac(rm))
            if not (F(1) - TOLF <= am <= F(1000) * (1 + TOLF)):
                rec.violation("compact-magnitude-out-of-range",
                              self.witness(x, units, result=mag_desc(rm), result_units=units_desc(runits),
                                           needed_prefix_exponent=need),
                              **self.fields("to_compact", "range", x, units, input=inshape,
                                            lead_exponent=int(e_lead)))
        elif e_lead.denominator == 1:
            ae = abs(int(e_lead))
            am = abs(tofrac(rm))
            k = 3 * (d // (3 * ae))
            need = k if e_lead > 0 else -k
            if need in o.dec_by_k:
                inside = F(1) - TOLF <= am <= F(1000) ** ae * (1 + TOLF)
                rec.count("compact_higher_power_best_interval" if inside else
                          "compact_higher_power_outside_best_interval")


# ---------------------------------------------------------------------------
# shard bodies
# ---------------------------------------------------------------------------
NIT = {"fraction": F, "float": float, "decimal": D}
PREF_SI6 = ("meter", "kilogram", "second", "newton", "pascal", "watt")


def _setup(spec):
    from harness import pintload, refmodel as R, gen, qmodel
    import pint
    m = R.default_model(pintload.REPO)
    o = Oracle(m, R, qmodel)
    names = gen.canonical_units(m)
    return pintload, pint, m, o, names


def run_shard(spec, rec):
    kind = spec["kind"]
    rng = random.Random(spec["seed"])
    pintload, pint, m, o, names = _setup(spec)
    rec.observe("hashseed", str(spec.get("hashseed")))
    if kind == "helpers":
        run_helpers(spec, rec, rng, pintload, pint, o, names)
    elif kind == "compact":
        run_compact(spec, rec, rng, pintload, pint, o, names)
    elif kind == "auto":
        run_auto(spec, rec, rng, pintload, pint, o, names)
    elif kind == "preferred":
        run_preferred(spec, rec, rng, pintload, pint, o, names)
    else:
        raise ValueError(kind)


def run_helpers(spec, rec, rng, pintload, pint, o, names):
    system = spec["system"]
    for regname, n in spec["regs"].items():
        ureg = pintload.registry(non_int_type=NIT[regname], system=system)
        if ureg.default_system != system:
            rec.inconc(f"registry did not take system {system}")
            return
        mon = Monitor(rec, spec, o, pint, ureg, regname, system)
        ug = UnitGen(rng, o, names)
        for i in range(n):
            units = ug.compound()
            x, dec = gen_mag(rng, rng.choice(MAG_KINDS[regname]))
            mon.battery(x, units, dec, "helpers")
            if i % 97 == 0:
                rec.sample({"workload": "helpers", "registry": regname, "system": system,
                            "magnitude": mag_desc(x), "units": units_desc(units)})
        if regname != "decimal":
            run_nonmult(rec, rng, o, pint, ureg, regname, system)


def run_nonmult(rec, rng, o, pint, ureg, regname, system):
    """single offset / logarithmic units: refusal is fine, a returned value must be right."""
    m = o.m
    mon = Monitor(rec, {}, o, pint, ureg, regname, system)
    nm = [c for c in m.order if not m.is_multiplicative(c)]
    for c in nm:
        logu = "logbase" in m.units[c]["mods"]
        if logu and regname != "float":
            rec.count("skipped_logarithmic_needs_float")     # numpy log of a Fraction: C06's business
            continue
        for x in (F(25), F(-40), F(3, 2)):
            if regname == "float":
                x = float(x)
            for helper in ("to_root_units", "to_base_units", "to_reduced_units", "to_compact"):
                q = ureg.Quantity(x, ureg.UnitsContainer({c: 1}))
                try:
                    r = getattr(q, helper)()
                except (pint.OffsetUnitCalculusError, pint.errors.LogarithmicUnitCalculusError):
                    rec.count("nonmult_refused")
                    continue
                except Exception as ex:  # noqa: BLE001
                    rec.violation("helper-raised", {"unit": c, "magnitude": mag_desc(x), "error": repr(ex)[:200]},
                                  helper=helper, clause="raised", registry=regname, error=type(ex).__name__,
                                  shape="single-nonmultiplicative-unit", magnitude=type(x).__name__)
                    continue
                rec.case(("nonmult", regname, helper, c, str(x)), nontrivial=dict(r._units.items()) != {c: 1})
                if logu:
                    # the model has no logarithmic converter: only demand the identity when units are kept
                    if dict(r._units.items()) == {c: 1}:
                        rec.count("nonmult_checks")
                        if r._magnitude != x:
                            rec.violation("value-changed", {"unit": c, "magnitude": mag_desc(x),
                                                            "result": mag_desc(r._magnitude)},
                                          helper=helper, clause="value", registry=regname,
                                          shape="single-logarithmic-unit", magnitude=type(x).__name__)
                    else:
                        rec.count("skipped_logarithmic_no_model")
                    continue
                runits = {k: fexp(v) for k, v in r._units.items()}
                try:
                    vb = o.qm.root_value(m, F(x), {c: F(1)})
                    va = o.qm.root_value(m, tofrac(r._magnitude), runits)
                except Exception:  # noqa: BLE001
                    rec.count("skipped_nonmult_model")
                    continue
                rec.count("nonmult_checks")
                exact = regname == "fraction" and is_exact_mag(r._magnitude)
                vb = (vb[0], vb[1], vb[2] and exact)
                if not o.qm.same_physical(vb, va):
                    rec.violation("value-changed", {"unit": c, "magnitude": mag_desc(x),
                                                    "result": mag_desc(r._magnitude),
                                                    "result_units": units_desc(runits),
                                                    "root_before": str(vb[0])[:60], "root_after": str(va[0])[:60]},
                                  helper=helper, clause="value", registry=regname,
                                  shape="single-offset-unit", magnitude=type(x).__name__)


def run_compact(spec, rec, rng, pintload, pint, o, names):
    regname = spec["nit"]
    ureg = pintload.registry(non_int_type=NIT[regname])
    mon = Monitor(rec, spec, o, pint, ureg, regname)
    ug = UnitGen(rng, o, names)
    kinds = MAG_KINDS[regname]
    k3 = sorted(k for k in o.dec_by_k if k % 3 == 0 and k != 0)
    allk = sorted(k for k in o.dec_by_k if k != 0)

    def conv(v: F, kind):
        if kind == "fraction":
            return v
        if kind == "int":
            return int(v) if v.denominator == 1 else None
        if kind == "float":
            return float(v)
        if kind == "decimal":
            return D(v.numerator) / D(v.denominator)
        if kind == "ufloat":
            from uncertainties import ufloat
            return ufloat(float(v), abs(float(v)) * 0.05)

    # (a) sweep: every canonical unit alone, first power and inverse, several magnitudes
    for u in names:
        for j in range(spec["sweep"]):
            kind = kinds[j % len(kinds)]
            x, dec = gen_mag(rng, kind)
            e = 1 if j % 3 else -1
            mon.compact(x, mon.items_of({u: e}), dec, "compact-sweep")
    # (b) decade boundaries on a few plain units
    for u in ("meter", "second", "gram", "byte", "watt", "radian")[: 2 if spec["tier"] == "quick" else 6]:
        for d in range(-33, 34):
            for mult in (F(1), F(999999999999, 10 ** 12), F(1000000000001, 10 ** 12), F(9995, 10), F(5)):
                v = mult * F(10) ** d
                for kind in kinds:
                    x = conv(v, kind)
                    if x is None:
                        continue
                    for sgn in (1, -1):
                        for e in (1, -1):
                            mon.compact(sgn * x, [(u, "", u, e)], d, "compact-boundary")
    # (c) special magnitudes
    specials = {"fraction": [0, F(0)], "float": [0, 0.0, -0.0, math.nan, math.inf, -math.inf],
                "decimal": [0, D(0), D("NaN"), D("Infinity"), D("-Infinity")]}[regname]
    if regname == "float":
        from uncertainties import ufloat
        specials = specials + [ufloat(0.0, 0.1)]
    for i in range(60 if spec["tier"] == "quick" else 600):
        units = ug.compound(nmax=3)
        for s in specials:
            mon.compact(s, mon.items_of(units), 0, "compact-special")
        x, dec = gen_mag(rng, rng.choice(kinds))
        mon.compact(x, [], dec, "compact-special")
    # (d) random, including prefixed inputs
    for i in range(spec["n"]):
        units = ug.compound(same_dim_bias=0.1, nmax=rng.choice((1, 1, 2, 3, 4)))
        x, dec = gen_mag(rng, rng.choice(kinds))
        items = []
        mode = rng.random()
        for j, (n, e) in enumerate(units.items()):
            p = ""
            if (mode < 0.35 and j == 0) or (0.35 <= mode < 0.5 and rng.random() < 0.6):
                p = o.dec_by_k[rng.choice(allk if rng.random() < 0.2 else k3)]
            if p and (o.compact_reading(n) != ("", n) or o.compact_reading(p + n) != (p, n)
                      or (p + n) in o.m.spell):
                p = ""          # only prefixed spellings that have exactly that one reading
            items.append((p + n, p, n, e) if p else mon.items_of({n: e})[0])
        if rng.random() < 0.5:
            # make the first-power numerator clause frequent
            n0, p0, b0, _ = items[0]
            items[0] = (n0, p0, b0, 1)
        mon.compact(x, items, dec, "compact-random")
        if i % 499 == 0:
            rec.sample({"workload": "compact", "registry": regname, "magnitude": mag_desc(x),
                        "units": {n: e for n, _, _, e in items}})


def run_auto(spec, rec, rng, pintload, pint, o, names):
    regname = spec["nit"]
    nit = NIT[regname]
    ug = UnitGen(rng, o, names)
    # the integer programme behind to_preferred can take seconds when the dimension vector has
    # half-integer entries (Gaussian units): those only in the thorough tier, rarely
    intdim = [n for n in names if all(v.denominator == 1 for v in o.info(n)[1].values())]
    ug_int = UnitGen(rng, o, intdim)
    kinds = [k for k in MAG_KINDS[regname] if k != "ufloat"]
    R = o.R

    def pref_list(ureg):
        return [getattr(ureg, n) for n in PREF_SI6]

    configs = [("auto_reduce", dict(auto_reduce_dimensions=True), spec["n"]),
               ("auto_preferred", dict(autoconvert_to_preferred=True), spec["npref"]),
               ("auto_both", dict(auto_reduce_dimensions=True, autoconvert_to_preferred=True),
                spec["npref"] // 2)]
    for cname, kw, n in configs:
        ureg = pintload.registry(non_int_type=nit, **kw)
        if "autoconvert_to_preferred" in kw:
            ureg.default_preferred_units = pref_list(ureg)
        mon = Monitor(rec, spec, o, pint, ureg, regname)
        for i in range(n):
            simple = "preferred" in cname or cname == "auto_both"
            g = ug_int if simple else ug
            ua = g.compound(nmax=2 if simple else 3)
            ub = g.partner(ua)
            if simple:
                ub = dict(list(ub.items())[:2])
            x, dx = gen_mag(rng, rng.choice(kinds))
            y, dy = gen_mag(rng, rng.choice(kinds))
            ops = ["mul", "div", "imul", "idiv", "mulnum", "rmulnum", "divnum", "rdivnum"]
            op = ops[i % len(ops)]
            try:
                fa, da = o.expand(ua)
                fb, db = o.expand(ub)
            except KeyError:
                continue
            if simple:
                # the integer programme behind to_preferred (CBC, third party) does not return for some large
                # dimension vectors (seen: A**13 * s**27 / kg**8 / m**16 with no current unit among the
                # preferred ones): a hang is not a verdict, such cases are left out and counted
                big = max([abs(v) for v in R.mmul(da, db).values()] + [abs(v) for v in R.mmul(da, db, -1).values()] + [0])
                if big > 6:
                    rec.count("skipped_large_dimension_for_integer_programme")
                    continue
            a, b = mon.mk(x, ua), mon.mk(y, ub)
            if os.environ.get("VERIF_C15_TRACE"):
                print("C15TRACE", cname, i, op, repr(x), dict(ua), repr(y), dict(ub), file=sys.stderr, flush=True)
            X, Y = tofrac(x), tofrac(y)
            num = rng.choice((3, -2, 7)) if regname != "float" else rng.choice((3, -2.5, 7))
            N = tofrac(num)
            try:
                if op == "mul":
                    r = a * b
                    exp = (X * Y, fa.mul(fb), R.mmul(da, db))
                elif op == "div":
                    r = a / b
                    exp = (X / Y, fa.mul(fb, -1), R.mmul(da, db, -1))
                elif op == "imul":
                    r = a
                    r *= b
                    exp = (X * Y, fa.mul(fb), R.mmul(da, db))
                elif op == "idiv":
                    r = a
                    r /= b
                    exp = (X / Y, fa.mul(fb, -1), R.mmul(da, db, -1))
                elif op == "mulnum":
                    r = a * num
                    exp = (X * N, fa, da)
                elif op == "rmulnum":
                    r = num * a
                    exp = (X * N, fa, da)
                elif op == "divnum":
                    r = a / num
                    exp = (X / N, fa, da)
                else:
                    r = num / a
                    exp = (N / X, Fac().mul(fa, -1), R.mscale(da, -1))
            except Exception as ex:  # noqa: BLE001
                name = type(ex).__name__
                allu = dict(ua)
                allu.update(ub)
                floaty = regname != "fraction" or not (is_exact_mag(x) and is_exact_mag(y)) or \
                    any(not o.info(n)[0].exact for n in allu)
                if is_range_error(ex) and floaty and \
                        (mon.stressed("auto", x, allu) or mon.stressed("auto", y, allu)):
                    rec.count("skipped_float_range")
                    continue
                shape = mon.raise_shape("ito_reduced_units", allu, name)
                if name == "DimensionalityError" and kw.get("autoconvert_to_preferred"):
                    try:
                        dq = o.R.mmul(o.expand(ua)[1], o.expand(ub)[1], -1 if "div" in op else 1) \
                            if op in ("mul", "div", "imul", "idiv") else o.expand(ua)[1]
                        if op == "rdivnum":
                            dq = o.R.mscale(dq, -1)
                        for pn in PREF_SI6:
                            dp = o.info(pn)[1]
                            if dq and dp.keys() == dq.keys():
                                k0 = next(iter(dq))
                                if any(dp[k] * dq[k0] != dq[k] * dp[k0] for k in dq):
                                    shape = "preferred-unit-with-same-dimension-set-but-not-proportional"
                    except KeyError:
                        pass
                rec.violation("helper-raised",
                              {"a": mag_desc(x), "ua": units_desc(ua), "b": mag_desc(y), "ub": units_desc(ub),
                               "op": op, "error": name, "args": repr(ex.args)[:300]},
                              helper=cname, clause="raised", registry=regname, error=name, op=op, shape=shape)
                continue
            if not hasattr(r, "_units"):
                rec.violation("arithmetic-result-not-a-quantity", {"op": op, "type": type(r).__name__},
                              helper=cname, clause="value", registry=regname, op=op)
                continue
            runits = dict(r._units.items())
            rec.observe("auto_ops", cname + ":" + op)
            plain_units = dict(ua)
            rec.case(("auto", cname, regname, op, tuple(sorted(ua.items())), tuple(sorted(ub.items())), dx, dy),
                     nontrivial=True)
            rec.count("auto_reduce_checks" if cname == "auto_reduce" else "auto_preferred_checks")
            try:
                fr, dr = o.expand(runits)
            except KeyError as ex:
                rec.violation("result-unit-unknown-to-model", {"units": units_desc(runits), "name": repr(ex.args)},
                              helper=cname, clause="units-differ", registry=regname, op=op)
                continue
            rm = r._magnitude
            if isnan(rm) or isinf(rm):
                rec.count("skipped_float_range")
                continue
            int_exps = all(fexp(e).denominator == 1 for e in runits.values())
            exact_in = is_exact_mag(x) and (is_exact_mag(y) if op in ("mul", "div", "imul", "idiv")
                                            else is_exact_mag(num))
            before = (exp[0], exp[1], exp[2], exact_in)
            after = (tofrac(rm), fr, dr, is_exact_mag(rm) and int_exps and regname == "fraction")
            verdict, mode, detail = compare(before, after)
            if verdict == Verdict.UNDECIDED:
                rec.count("skipped_undecidable_value")
                continue
            rec.count("value_checks_exact" if mode == "exact" else "value_checks_tolerance")
            if verdict != Verdict.OK:
                allu = dict(ua)
                allu.update(ub)
                if mode != "exact" and mon.floaty(1.0, allu, runits) and \
                        (mon.stressed("auto", x, allu, runits) or mon.stressed("auto", y, allu, runits)):
                    rec.count("skipped_float_range")
                    continue
                rec.violation("dimension-changed" if verdict == Verdict.BAD_DIM else "value-changed",
                              dict({"a": mag_desc(x), "ua": units_desc(ua), "b": mag_desc(y),
                                    "ub": units_desc(ub), "num": repr(num), "op": op, "result": mag_desc(rm),
                                    "result_units": units_desc(runits), "compare": mode}, **detail),
                              helper=cname, clause=verdict, registry=regname, op=op)
                continue
            if "reduce" in cname or cname == "auto_both":
                both = dict(ua)
                if op in ("mul", "div", "imul", "idiv"):
                    both.update(ub)
                if len(runits) < len(both):
                    rec.count("auto_reduce_merges_observed")
                if op == "rdivnum":
                    # number / quantity goes through __rtruediv__, which is not wrapped by
                    # ireduce_dimensions: nothing was applied, nothing to judge structurally
                    rec.count("auto_reduce_not_applied_by_rtruediv")
                else:
                    mon.structure_reduced("auto_reduce", x, both, runits, op=op, config=cname)
            if i % 211 == 0:
                rec.sample({"workload": cname, "registry": regname, "op": op, "a": mag_desc(x),
                            "ua": units_desc(ua), "b": mag_desc(y), "ub": units_desc(ub),
                            "result_units": units_desc(runits)})
    # a registry asked to autoconvert but never told what is preferred must still compute
    ureg = pintload.registry(non_int_type=nit, autoconvert_to_preferred=True)
    mon = Monitor(rec, spec, o, pint, ureg, regname)
    for i in range(40):
        ua, ub = ug.compound(nmax=2), ug.compound(nmax=2)
        x, _ = gen_mag(rng, kinds[0])
        y, _ = gen_mag(rng, kinds[0])
        try:
            r = mon.mk(x, ua) * mon.mk(y, ub)
            fr, dr = o.expand(dict(r._units.items()))
            fa, da = o.expand(ua)
            fb, db = o.expand(ub)
        except Exception as ex:  # noqa: BLE001
            rec.violation("helper-raised", {"error": repr(ex)[:200]}, helper="auto_preferred", clause="raised",
                          registry=regname, error=type(ex).__name__, op="mul", shape="no-default-preferred-units")
            continue
        verdict, mode, detail = compare((tofrac(x) * tofrac(y), fa.mul(fb), o.R.mmul(da, db), False),
                                        (tofrac(r._magnitude), fr, dr, False))
        rec.count("auto_preferred_unset_checks")
        if verdict in (Verdict.BAD_DIM, Verdict.BAD_VALUE):
            rec.violation("value-changed", dict({"ua": units_desc(ua), "ub": units_desc(ub)}, **detail),
                          helper="auto_preferred", clause=verdict, registry=regname, op="mul",
                          shape="no-default-preferred-units")


def run_preferred(spec, rec, rng, pintload, pint, o, names):
    regname = spec["nit"]
    ureg = pintload.registry(non_int_type=NIT[regname])
    mon = Monitor(rec, spec, o, pint, ureg, regname)
    kinds = MAG_KINDS[regname]
    U = ureg.Unit
    UC = ureg.UnitsContainer
    si = [ureg.meter, ureg.kilogram, ureg.second, ureg.newton, ureg.pascal, ureg.watt]
    si2 = si + [ureg.ampere]
    imp = [ureg.foot, ureg.slug, ureg.second, ureg.degree_Rankine, ureg.force_pound, ureg.watt]
    # quantities built from units whose dimensions the lists can express
    common_all = [n for n in names if set(o.info(n)[1]) <= {"[length]", "[mass]", "[time]", "[current]",
                                                            "[temperature]"} and o.info(n)[1]]
    # half-integer dimension exponents (Gaussian units) can keep the integer programme busy for
    # seconds: kept out of the quick tier
    common = [n for n in common_all if all(v.denominator == 1 for v in o.info(n)[1].values())]
    if spec["tier"] != "quick":
        common = common + [n for n in common_all if n not in common][::6]
    ug = UnitGen(rng, o, common)
    pure = {}
    for n in common:
        d = o.info(n)[1]
        if len(d) == 1 and next(iter(d.values())) == 1:
            pure.setdefault(next(iter(d)), []).append(n)

    # 0. the documented no-argument form on a registry that was given no default list
    q = mon.mk(3, {"meter": 1})
    ok, r = mon.call("to_preferred", q.to_preferred, 3, {"meter": 1}, shape="default_preferred_units-never-set",
                     preferred="registry-default")
    if ok:
        mon.value("to_preferred", 3, {"meter": 1}, r, preferred="registry-default")

    for i in range(spec["n"]):
        mode = i % 4
        if mode == 3:
            # random preferred list: 1-4 units, single names or two-unit compounds
            plist_units = []
            for _ in range(rng.randint(1, 4)):
                if rng.random() < 0.5:
                    plist_units.append({rng.choice(common): rng.choice((1, 1, -1, 2, -2))})
                else:
                    a, b = rng.sample(common, 2)
                    plist_units.append({a: rng.choice((1, 2, -1, -2)), b: rng.choice((1, 2, -1, -2))})
            plist = [U(UC(d)) for d in plist_units]
            pname = "random"
            pdesc = [units_desc(d) for d in plist_units]
            # a quantity that shares the dimension set of one of them half of the time
            r0 = rng.random()
            if rng.random() < 0.5:
                # two single-dimension units in the list entry, the same two dimensions with
                # independent exponents in the quantity
                (ka, la), (kb, lb) = rng.sample(sorted(pure.items()), 2)
                plist_units[0] = {rng.choice(la): rng.choice((1, 2, -1, -2)), rng.choice(lb): rng.choice((1, 2, -1, -2))}
                plist = [U(UC(d)) for d in plist_units]
                pdesc = [units_desc(d) for d in plist_units]
                units = {rng.choice(la): rng.choice((1, 2, -1, -2)), rng.choice(lb): rng.choice((1, 2, -1, -2))}
            elif r0 < 0.35:
                # same unit names as one preferred unit, fresh exponents: same dimension SET,
                # usually not proportional
                d0 = rng.choice(plist_units)
                units = {n: rng.choice((-2, -1, 1, 2)) for n in d0}
            elif r0 < 0.7:
                d0 = rng.choice(plist_units)
                keys = set()
                for n in d0:
                    keys |= set(o.info(n)[1])
                cand = [n for n in common if set(o.info(n)[1]) <= keys]
                units = {n: rng.choice((-2, -1, 1, 2)) for n in rng.sample(cand, min(len(cand), rng.randint(1, 2)))}
            else:
                units = {n: rng.choice((-2, -1, 1, 2)) for n in rng.sample(common, rng.randint(1, 2))}
        else:
            plist, pname = ((si, "si6"), (si2, "si7"), (imp, "imperial6"))[mode]
            pdesc = pname
            fixed_units = [dict(u._units.items()) for u in plist]
            if rng.random() < 0.7:
                units = {n: rng.choice((-2, -1, 1, 1, 2)) for n in rng.sample(common, rng.randint(1, 3))}
            else:
                units = ug.compound(0.2, 3)
        x, dec = gen_mag(rng, rng.choice(kinds))
        if max([abs(v) for v in o.expand(units)[1].values()] + [0]) > 6:
            rec.count("skipped_large_dimension_for_integer_programme")
            continue
        q = mon.mk(x, units)
        shape = {}
        if pname != "random":
            # the same find_simple shortcut (T5) is reachable with the fixed lists: pascal has the
            # dimension set {length, mass, time} of many mechanical quantities
            dq = o.expand(units)[1]
            for d in fixed_units:
                dp = o.expand(d)[1]
                if dq and dp.keys() == dq.keys():
                    k0 = next(iter(dq))
                    if any(dp[k] * dq[k0] != dq[k] * dp[k0] for k in dq):
                        shape = {"shape": "preferred-unit-with-same-dimension-set-but-not-proportional"}
        if pname == "random":
            shape = {"shape": "random-preferred-list"}
            dq = o.expand(units)[1]
            for d in plist_units:
                dp = o.expand(d)[1]
                if dq and dp.keys() == dq.keys():
                    k0 = next(iter(dq))
                    if any(dp[k] * dq[k0] != dq[k] * dp[k0] for k in dq):
                        shape = {"shape": "preferred-unit-with-same-dimension-set-but-not-proportional"}
                    elif regname != "fraction" and shape["shape"] == "random-preferred-list":
                        r = dq[k0] / dp[k0]
                        if r.denominator & (r.denominator - 1):
                            # preferred_unit ** (1/5) in float exponents: -0.4*3 + 0.2 != -1
                            shape = {"shape": "inexact-exponents:non-dyadic-dimension-ratio"}
        # the destination is unknown when the call raises: any of the listed units, to a power
        dst = 6 * max(o.stress(d) for d in plist_units) if pname == "random" else 0.0
        dstu = plist_units if pname == "random" else ()
        ok, r = mon.call("to_preferred", lambda: q.to_preferred(plist), x, units, preferred=pname, dst_stress=dst,
                         dst_units=dstu,
                         extra={"preferred_units": pdesc}, **shape)
        if not ok:
            if pname == "random":
                rec.sample({"to_preferred_raised_with": pdesc, "units": units_desc(units)})
            continue
        runits = dict(r._units.items())
        rec.case(("preferred", regname, pname if pname != "random" else repr(pdesc),
                  tuple(sorted(units.items())), type(x).__name__, dec), nontrivial=runits != units)
        rec.count("preferred_checks")
        rec.observe("magnitude_kinds", type(x).__name__)
        if runits != units:
            rec.count("preferred_units_changed")
        mon.value("to_preferred", x, units, r, preferred=pname)
        mon.twin("to_preferred", "ito_preferred", x, units, r, args=(plist,), dst_stress=dst, dst_units=dstu,
                 preferred=pname)
        if i % 53 == 0:
            rec.sample({"workload": "preferred", "registry": regname, "list": pdesc, "magnitude": mag_desc(x),
                        "units": units_desc(units), "result_units": units_desc(runits)})
