"""C20 — the bundled registry carries the internationally standardised values.

Oracle: harness/stdtable.py (curated from the standards, independent of pint's data files).
Every row is converted by the real registry to an explicitly written SI unit expression and
compared: exactly (==) in the Fraction registry, to 1e-13 relative (observed ulp distance
reported) in the float registry, to 1e-24 in the Decimal registry.
"""
import math
import unicodedata
from decimal import Decimal
from fractions import Fraction as F

PID = "C20"
RULE = ("every row of the curated standards table x {Fraction, float, Decimal} registry; a "
        "case is (registry kind, row kind, unit name); distinct_nontrivial counts distinct "
        "(registry, unit, clause) triples whose expected factor != 1 or that check a symbol/"
        "dimension (identity rows such as joule->kg m2/s2 count once per registry)")
ASSUMPTIONS = [
    "stdtable.py rows are transcribed correctly from the cited standards (human-curated)",
    "pi-dependent rows are compared at 1e-45 relative (pint stores pi as a 50-digit decimal)",
    "derived CODATA values are compared at 2e-9 relative (CODATA's own uncertainty), "
    "literal CODATA values must match digit for digit",
]


def exhaustive(tier):
    return True


def shards(tier, seed):
    return [{"kind": k, "name": k} for k in ("fraction", "float", "decimal")]


def required(tier):
    return {"rows_checked": 3 * 250, "symbols_checked": 100, "prefix_checked": 3 * 32, "redefinitions_refused": 300, "rows_checked_after_refusals": 300}


def nf(s):
    return unicodedata.normalize("NFKC", s)


def run_shard(spec, rec):
    from harness import pintload, stdtable as T
    from harness.refmodel import evaluate, default_model
    import pint

    exact_spellings = set(default_model(pintload.REPO).spell)

    kind = spec["kind"]
    nit = {"fraction": F, "float": float, "decimal": Decimal}[kind]
    ureg = pintload.registry(non_int_type=nit)
    Q = ureg.Quantity

    def expected(expr):
        v, u = evaluate(expr)
        assert not u and v.exact
        return v.v

    def one():
        return {"fraction": F(1), "float": 1.0, "decimal": Decimal(1)}[kind]

    def compare(name, got, exp, rowkind, clause):
        """exp is a Fraction.  Returns None or a witness."""
        if kind == "fraction":
            if isinstance(got, float):
                if rowkind in ("exact", "codata"):
                    return f"float contamination {got!r}"
                got = F(got)
            got = F(got)
            if rowkind in ("exact", "codata"):
                ok = got == exp
            elif rowkind == "pi":
                ok = abs(got - exp) <= abs(exp) * F(1, 10 ** 45)
            else:
                ok = abs(got - exp) <= abs(exp) * F(2, 10 ** 9)
            return None if ok else f"got {got} ({float(got)!r}) expected {exp} ({float(exp)!r})"
        if kind == "float":
            e = float(exp)
            g = float(got)
            ulps = abs(g - e) / math.ulp(e) if e else abs(g)
            tol = 2e-9 if rowkind == "derived" else 1e-13
            if rowkind != "derived":
                rec.maximum("float_ulps_max", ulps)
            ok = abs(g - e) <= abs(e) * tol
            return None if ok else f"got {g!r} expected {e!r} ({ulps:.1f} ulp)"
        g = F(Decimal(got)) if not isinstance(got, float) else None
        if g is None:
            if rowkind in ("exact", "codata", "pi"):
                return f"float contamination {got!r}"
            g = F(got)
        tol = F(2, 10 ** 9) if rowkind == "derived" else F(1, 10 ** 24)
        ok = abs(g - exp) <= abs(exp) * tol
        return None if ok else f"got {got!r} expected {float(exp)!r}"

    # rows -------------------------------------------------------------------------
    for name, expr, si, sym, rowkind, src in T.ROWS:
        exp = expected(expr)
        key = (kind, name, "factor")
        try:
            got = Q(one(), name).to(si).magnitude
            w = compare(name, got, exp, rowkind, "factor")
        except Exception as e:  # noqa: BLE001
            w = f"raised {type(e).__name__}: {e}"
        rec.case(key, nontrivial=True)
        rec.count("rows_checked")
        rec.observe("row_kinds", rowkind)
        if w:
            rec.violation("factor", {"unit": name, "si": si, "source": src, "what": w,
                                     "registry": kind}, unit=name)
        else:
            rec.sample({"unit": name, "si": si, "expected": str(exp), "registry": kind,
                        "source": src})
        # "converts to SI" also through to_base_units() in the default (SI) system: same factor, and the
        # very same SI base units as the SI expression of the table - asked twice, the second answer
        # comes from the registry's memo
        SI_BASE = {"meter", "kilogram", "second", "ampere", "kelvin", "mole", "candela"}
        DIMLESS = {"radian", "bit", "count"}     # dimensionless roots may stay (becquerel = count / second)
        if not w:
            for rep in (1, 2):
                rec.count("base_unit_requests")
                try:
                    b = Q(one(), name).to_base_units()
                    sb = Q(one(), si).to_base_units()
                    ub = {k: v for k, v in b._units.items() if k not in DIMLESS}
                    us = {k: v for k, v in sb._units.items() if k not in DIMLESS}
                    if ub != us:
                        wb = f"base units {ub} differ from those of {si}: {us}"
                    elif set(ub) - SI_BASE:
                        wb = f"not SI base units: {sorted(set(ub) - SI_BASE)}"
                    else:
                        wb = compare(name, b.magnitude, exp * F(sb.magnitude), rowkind, "base")
                except Exception as e:  # noqa: BLE001
                    wb = f"raised {type(e).__name__}: {e}"
                if wb:
                    rec.violation("base-units", {"unit": name, "si": si, "request": rep, "what": wb,
                                                 "registry": kind}, unit=name)
        if sym is not None:
            rec.count("symbols_checked")
            rec.case((kind, name, "symbol"))
            try:
                got = ureg.get_symbol(name)
                short = format(ureg.Unit(name), "~")
            except Exception as e:  # noqa: BLE001
                got = short = f"raised {type(e).__name__}"
            if nf(got) != nf(sym) or nf(short) != nf(sym):
                rec.violation("symbol", {"unit": name, "expected": sym, "get_symbol": got,
                                         "format~": short, "registry": kind}, unit=name)
    # prefixes -----------------------------------------------------------------------
    for table, base in ((T.PREFIXES, 10), (T.BINARY_PREFIXES, 2)):
        for pname, psym, power in table:
            exp = F(base) ** power
            rec.count("prefix_checked")
            for spelled, target in ((pname + "meter", "meter"), (psym + "m", "m"),
                                    (pname + "gram", "gram"), (psym + "g", "g"),
                                    (pname + "byte", "byte"), (psym + "B", "B")):
                if spelled in exact_spellings:
                    # e.g. "dB" is the defined symbol of decibel, "Pg"... : an exact
                    # spelling denotes that unit, not prefix+unit (C08) - not a C20 row
                    rec.count("prefix_spelling_shadowed_by_exact_name")
                    continue
                rec.case((kind, spelled, "prefix"))
                try:
                    got = Q(one(), spelled).to(target).magnitude
                    w = compare(spelled, got, exp, "exact", "prefix")
                except Exception as e:  # noqa: BLE001
                    w = f"raised {type(e).__name__}: {e}"
                if w:
                    rec.violation("prefix", {"spelling": spelled, "what": w, "registry": kind},
                                  unit=pname)
            try:
                s = ureg.get_symbol(pname + "meter")
            except Exception as e:  # noqa: BLE001
                s = f"raised {type(e).__name__}"
            if nf(s) != nf(psym + "m"):
                rec.violation("symbol", {"unit": pname + "meter", "expected": psym + "m",
                                         "get_symbol": s, "registry": kind}, unit=pname)
    # every SI prefix on every exactly defined row (long names), then the standard symbols once more:
    # resolving prefixed units must not change what a standard symbol denotes (kt, Pa, min, hbar ...)
    for name, expr, si, sym, rowkind, src in T.ROWS:
        if rowkind != "exact" or not name.isidentifier():
            continue
        exp = expected(expr)
        for pname, psym, power in T.PREFIXES:
            spelled = pname + name
            if spelled in exact_spellings:
                continue
            rec.count("prefixed_rows_checked")
            try:
                got = Q(one(), spelled).to(si).magnitude
                w = compare(spelled, got, exp * F(10) ** power, "exact", "prefix")
            except Exception as e:  # noqa: BLE001
                if type(e).__name__ in ("OffsetUnitCalculusError", "UndefinedUnitError"):
                    rec.count("prefixed_rows_not_prefixable")      # offset units, non-prefixable names
                    break
                w = f"raised {type(e).__name__}: {e}"
            if w:
                rec.violation("prefix", {"spelling": spelled, "what": w, "registry": kind}, unit=name)
                break
    for name, expr, si, sym, rowkind, src in T.ROWS:
        if sym is None:
            continue
        rec.count("symbols_resolved_after_prefixed_lookups")
        try:
            a, b = ureg.get_name(nf(sym)) if nf(sym) == sym else ureg.get_name(sym), ureg.get_name(name)
        except Exception as e:  # noqa: BLE001
            a, b = f"raised {type(e).__name__}", name
        if a != b:
            rec.violation("symbol-denotes-another-unit", {"symbol": sym, "resolves_to": a, "unit": b,
                                                           "registry": kind}, unit=name)
    # base units -----------------------------------------------------------------------
    for name, sym, dim in T.BASE:
        rec.case((kind, name, "base"))
        rec.count("symbols_checked")
        s = ureg.get_symbol(name)
        if s != sym:
            rec.violation("symbol", {"unit": name, "expected": sym, "get_symbol": s,
                                     "registry": kind}, unit=name)
        d = dict(ureg.get_dimensionality(name))
        want = {dim: 1} if dim else {}
        if d != want:
            rec.violation("dimension", {"unit": name, "expected": want, "got": d,
                                        "registry": kind}, unit=name)
    # temperature scales ---------------------------------------------------------------
    def num(s):
        return {"fraction": F(s), "float": float(F(s)), "decimal": Decimal(s)}[kind]

    for v, unit, kel in T.TEMP_POINTS:
        rec.case((kind, unit, v, "temp"))
        rec.count("temp_points")
        try:
            got = Q(num(v), unit).to("kelvin").magnitude
            back = Q(num(kel), "kelvin").to(unit).magnitude
            bad = None
            if kind == "fraction":
                if got != F(kel) or back != F(v):
                    bad = f"{v} {unit} -> {got} K (want {kel}); {kel} K -> {back} (want {v})"
            else:
                if abs(float(got) - float(F(kel))) > 1e-10 or abs(float(back) - float(F(v))) > 1e-10:
                    bad = f"{v} {unit} -> {got} K (want {kel}); {kel} K -> {back} (want {v})"
        except Exception as e:  # noqa: BLE001
            bad = f"raised {type(e).__name__}: {e}"
        if bad:
            rec.violation("temperature", {"what": bad, "registry": kind}, unit=unit)
    for unit, sym in T.TEMP_SYMBOLS:
        rec.count("symbols_checked")
        rec.case((kind, unit, "symbol"))
        s = ureg.get_symbol(unit)
        if nf(s) != nf(sym):
            rec.violation("symbol", {"unit": unit, "expected": sym, "get_symbol": s,
                                     "registry": kind}, unit=unit)
    for unit, per in T.TEMP_DELTA:
        rec.case((kind, unit, "delta"))
        try:
            got = Q(one(), unit).to("kelvin").magnitude
            w = compare(unit, got, F(per), "exact", "delta")
        except Exception as e:  # noqa: BLE001
            w = f"raised {type(e).__name__}: {e}"
        if w:
            rec.violation("temperature", {"what": f"1 {unit} -> K: {w}", "registry": kind},
                          unit=unit)

    # a registry that REFUSES redefinitions (on_redefinition="raise"): after every refused attempt to give a
    # standard name, symbol or prefix another value, the registry still carries the standard values - asked
    # through spellings it has not answered before (compound and prefixed), so that no memo hides its state
    g = pintload.registry(non_int_type=nit, on_redefinition="raise")
    GQ = g.Quantity
    refused = 0
    for i, (name, expr, si, sym, rowkind, src) in enumerate(T.ROWS):
        if not name.isidentifier():
            continue
        attempts = [f"{name} = 0.5 * ({si})"]
        if sym and sym.isidentifier() and sym != name:
            attempts.append(f"c20alt{i} = 0.25 * ({si}) = {sym}")
        for line in attempts:
            rec.count("refused_redefinition_attempts")
            try:
                g.define(line)
            except (pint.RedefinitionError, pint.DefinitionSyntaxError):
                refused += 1
                rec.count("redefinitions_refused")
            except Exception as e:  # noqa: BLE001
                rec.violation("redefinition-attempt", {"line": line, "what": f"raised {type(e).__name__}: {e}"[:200],
                                                       "registry": kind}, unit=name)
            else:
                rec.violation("redefinition-attempt", {"line": line, "what": "accepted although on_redefinition='raise'",
                                                       "registry": kind}, unit=name)
    for pline, spelled, want in (("mega- = 1048576 = M-", "megayard", F(10) ** 6 * F(9144, 10000)),
                                 ("kilo- = 1024 = k-", "kiloinch", F(1000) * F(254, 10000)),
                                 ("milli- = 0.002 = m-", "millifoot", F(3048, 10000) / 1000)):
        rec.count("refused_redefinition_attempts")
        try:
            g.define(pline)
        except (pint.RedefinitionError, pint.DefinitionSyntaxError):
            rec.count("redefinitions_refused")
        except Exception as e:  # noqa: BLE001
            rec.violation("redefinition-attempt", {"line": pline, "what": f"raised {type(e).__name__}"[:200],
                                                   "registry": kind}, unit=spelled)
        rec.case((kind, spelled, "after-refusal"))
        try:
            w = compare(spelled, GQ(one(), spelled).to("meter").magnitude, want, "exact", "factor")
        except Exception as e:  # noqa: BLE001
            w = f"raised {type(e).__name__}: {e}"
        if w:
            rec.violation("factor-after-refused-redefinition", {"unit": spelled, "what": w, "registry": kind}, unit=spelled)
    for i, (name, expr, si, sym, rowkind, src) in enumerate(T.ROWS):
        if not name.isidentifier():
            continue
        exp = expected(expr)
        for spelled in ([f"{name} * hour"] + ([f"{sym} * hour"] if sym and sym.isidentifier() else [])):
            rec.case((kind, spelled, "after-refusal"), nontrivial=True)
            rec.count("rows_checked_after_refusals")
            try:
                got = GQ(one(), spelled).to(f"({si}) * hour").magnitude
                w = compare(name, got, exp, rowkind, "factor")
            except Exception as e:  # noqa: BLE001
                w = f"raised {type(e).__name__}: {e}"
            if w:
                rec.violation("factor-after-refused-redefinition", {"unit": spelled, "si": si, "what": w, "registry": kind},
                              unit=name)

