"""C06 — offset and logarithmic units convert by their defining maps and refuse ambiguity.

Oracle: harness/c06_rules.py — own model of every unit (kind in {OFF, ABS, DELTA, LOG}, a, b |
logbase, logfactor, reference) built from the independent reference model (bundled file) or from
ground truth by construction (generated files), and a RULE TABLE whose every rule cites the
sentence of docs/user/nonmult.rst / docs/user/log_units.rst or the row pattern of
test_quantity.py::TestOffsetUnitMath it generalises.  Cells no source covers are recorded as
"unspecified, observed X" (evidence key `unspecified`) and never alarmed on.

Monitors on every execution:
  * outcome vs rule table: (unit container, value) exact in the Fraction registry for affine maps,
    1e-9 for ndarray/float magnitudes, 1e-12 for logarithmic conversions and their inverses;
    a cell the table marks ambiguous must raise a pint error, a cell it gives a value for must not;
  * in-place twin (ndarray magnitudes: __iadd__/__isub__/__imul__/__itruediv__/__ipow__/ito) vs its
    functional twin: same outcome class, same units, same values;
  * every unit of a result is defined in the registry (a result must be usable);
  * line observer (sys.monitoring) on _add_sub/_iadd_sub/_mul_div/_imul_div/__pow__/__ipow__/
    _convert/_validate_and_extract and the converters: which branches the run reached.

Deviations from DESIGN.md §4/C06 (reality required):
  * the rule table lives in harness/c06_rules.py (not refmodel/nonmult.py); harness is flat here.
  * logarithmic units are exercised in the float registry only: in the Fraction registry every
    log conversion dies with TypeError (Fraction * float inside math.exp/log) - recorded as an
    observation, the statement only promises 1e-12 for log maps.
  * 'offset / number' with autoconvert: the docs say "all divisions" convert to base units, the
    test row divisions_with_scalar[2] says it raises; the more specific test row is followed.
  * error class: every 'raise' rule names the classes its source accepts - the literal tables for
    + - * / use pytest.raises(OffsetUnitCalculusError), the exponentiation table and conversions
    accept DimensionalityError (statement: "OffsetUnitCalculusError (or DimensionalityError on
    conversion)"); the other pint class is reported as 'refused-with-other-pint-error-class', a
    non-pint class as 'refused-with-foreign-error-class'.  (Silent on the unchanged tree; it is what
    detects `_ok_for_muldiv` accepting exponent 2, whose only visible effect is the class.)
  * F1/F2/F3 below are genuine findings of this check on the unchanged tree (see final report):
    numpy number on the LEFT of * and / bypasses the offset rules (numpy_left_operand=True);
    offset +- delta is refused when the delta's reference unit differs (same_reference=False);
    log - x returns the undefined unit delta_<log unit> (result-has-undefined-unit).
  * mutation of the RIGHT operand by the in-place product (other.ito_root_units()) is recorded as
    an observation (`side_effects`), it is outside the statement (result unit/value).
"""
import itertools
import math
import operator
import random
import sys
from fractions import Fraction as F

PID = "C06"
RULE = ("cells of the offset-calculus rule table: (operator in + - * / ** neg abs == < > and conversions "
        "to/convert/ito/m_as) x (operand kinds OFF/ABS/DELTA/LOG/number/dimensionless/compound-with-offset, both "
        "orders) x (mode in autoconvert_offset_to_baseunit x default_as_delta, fresh and flipped at run time) x "
        "(scalar Fraction | ndarray float, in-place twin). Operands: every ordered pair among kelvin, degC, degF, "
        "degRe, degR, delta_degC, delta_degF, delta_degRe (+ meter, dimensionless, numbers), generated registries "
        "with 2-4 offset units of rational scale/offset over several reference units, every ordered pair of the 7 "
        "log units and their linear partners, parse_units shapes x as_delta. distinct = (workload, mode, operator, "
        "left unit, right unit, magnitude kind); non-trivial = a non-multiplicative or delta unit is involved")
ASSUMPTIONS = [
    "unit models of the bundled file come from harness/refmodel.py (validated by C02/C20 runs); generated files "
    "carry ground truth by construction (harness/gendef.py)",
    "the rule table demands only what docs/user/nonmult.rst, docs/user/log_units.rst and the literal tables of "
    "test_quantity.py state, generalised by unit kind; everything else is observed, not judged",
    "exactness is claimed in the Fraction registry for affine maps only; ndarray/float runs use 1e-9 relative to "
    "the size of the intermediate terms, log maps 1e-12",
    "a refused cell may raise OffsetUnitCalculusError or DimensionalityError (statement wording)",
]
ALARM_ON_OPERAND_MUTATION = False

TEMPS = ["kelvin", "degree_Celsius", "degree_Fahrenheit", "degree_Reaumur", "degree_Rankine"]
SPELL = {"kelvin": ["kelvin", "K", "degK"], "degree_Celsius": ["degC", "°C", "celsius", "degree_Celsius"],
         "degree_Fahrenheit": ["degF", "°F", "fahrenheit"], "degree_Reaumur": ["degRe", "°Re", "reaumur"],
         "degree_Rankine": ["degR", "°R", "rankine"],
         "delta_degree_Celsius": ["delta_degC", "Δ°C", "delta_celsius", "Δcelsius"],
         "delta_degree_Fahrenheit": ["delta_degF", "Δ°F", "delta_fahrenheit"],
         "delta_degree_Reaumur": ["delta_degRe", "Δ°Re", "delta_reaumur"]}
LOGS = ["decibel", "decibelmilliwatt", "decibelwatt", "decibelmicrowatt", "neper", "octave", "decade"]
LOGSPELL = {"decibel": "dB", "decibelmilliwatt": "dBm", "decibelwatt": "dBW", "decibelmicrowatt": "dBu",
            "neper": "Np", "octave": "oct", "decade": "decade"}
MODES = [(False, True), (True, True), (False, False), (True, False)]     # (autoconvert, default_as_delta)


def exhaustive(tier):
    return False


def required(tier):
    return {"conv_value_checks": 5000, "conv_refused_checks": 4000, "roundtrip_checks": 4000,
            "arith_value_checks": 25000, "arith_refused_checks": 15000, "inplace_twins": 15000,
            "log_conv_checks": 1500, "log_pairs": 49, "parse_checks": 1500, "generated_offset_units": 200,
            "cell_mode_matrix": 2000, "rules_used": 40, "add_sub_branches": 9, "iadd_sub_branches": 9,
            "modes": 4, "result_unit_definedness_checks": 20000, "redefined_offset_probes": 60, "reused_object_operations": 500, "unit_object_operands": 500, "refused_inplace_conversions": 500}


def shards(tier, seed):
    q = tier == "quick"
    out = []
    for i, (a, d) in enumerate(MODES):
        out.append({"kind": "temp", "auto": a, "delta": d, "name": f"temp-a{int(a)}d{int(d)}",
                    "mags": 3 if q else 14})
    out.append({"kind": "temp", "auto": True, "delta": True, "flip": True, "name": "temp-flip-a1d1",
                "mags": 2 if q else 8})
    out.append({"kind": "temp", "auto": False, "delta": False, "flip": True, "name": "temp-flip-a0d0",
                "mags": 2 if q else 8})
    nparts = 1 if q else 3
    for i, (a, d) in enumerate(MODES):
        for p in range(nparts):
            out.append({"kind": "gen", "auto": a, "delta": d, "name": f"gen-a{int(a)}d{int(d)}-{p}",
                        "n": 22 if q else 280, "mags": 1 if q else 2})
    for a in (False, True):
        out.append({"kind": "log", "auto": a, "name": f"log-a{int(a)}", "mags": 3 if q else 12})
    out.append({"kind": "conv", "name": "conv", "mags": 6 if q else 40})
    out.append({"kind": "parse", "name": "parse", "n": 1 if q else 6})
    out.append({"kind": "redef", "name": "redef", "n": 12 if q else 120})
    out.append({"kind": "reuse", "name": "reuse", "n": 60 if q else 1500})
    return out


# ---------------------------------------------------------------------------
# line / branch observer on the anchored functions (no source hooks)
# ---------------------------------------------------------------------------
class Watch:
    TOOL = 4

    def __init__(self):
        self.seen = {}       # code name -> set(lines)
        self.codes = {}
        self.chains = {}     # code name -> {line: branch label}
        self.ok = False

    @staticmethod
    def _codes_of(obj, name, depth=0):
        out = []
        f = getattr(obj, "__func__", obj)
        code = getattr(f, "__code__", None)
        if code is not None and code.co_name == name:
            out.append(f)
        for cell in (getattr(f, "__closure__", None) or ()):
            try:
                c = cell.cell_contents
            except ValueError:
                continue
            if callable(c) and hasattr(c, "__code__") and depth < 4:
                out += Watch._codes_of(c, name, depth + 1)
        return out

    def add(self, owner, name, label=None):
        fs = self._codes_of(getattr(owner, name), name)
        for f in fs:
            self.codes[label or name] = f
            return f
        return None

    def start(self):
        try:
            mon = sys.monitoring
            mon.use_tool_id(self.TOOL, "c06")
            by_code = {f.__code__: k for k, f in self.codes.items()}

            def cb(code, line):
                k = by_code.get(code)
                if k is not None:
                    self.seen.setdefault(k, set()).add(line)
                return mon.DISABLE

            mon.register_callback(self.TOOL, mon.events.LINE, cb)
            for f in self.codes.values():
                mon.set_local_events(self.TOOL, f.__code__, mon.events.LINE)
            self.ok = True
        except Exception:  # noqa: BLE001
            self.ok = False

    def chain(self, label, first_test_name):
        """Map first body line of every arm of the if/elif chain whose first test mentions
        `first_test_name` -> 'b1'..'bN' / 'else' (AST of the live source: robust to line shifts)."""
        import ast
        import inspect
        import textwrap
        f = self.codes.get(label)
        if f is None:
            return
        try:
            src = textwrap.dedent(inspect.getsource(f))
            tree = ast.parse(src)
        except Exception:  # noqa: BLE001
            return
        fn = tree.body[0]
        delta = f.__code__.co_firstlineno - 1     # getsource starts at co_firstlineno (decorators included)
        if not isinstance(fn, (ast.FunctionDef, ast.AsyncFunctionDef)):
            return
        arms = {}
        for node in ast.walk(fn):
            if isinstance(node, ast.If) and first_test_name in ast.dump(node.test):
                i, cur = 1, node
                while True:
                    arms[cur.body[0].lineno + delta] = f"b{i}"
                    if i == 1:
                        # sub-branches of the first arm
                        for sub in cur.body:
                            if isinstance(sub, ast.If):
                                j, c2 = 1, sub
                                while True:
                                    arms[c2.body[0].lineno + delta] = f"b1.{j}"
                                    if len(c2.orelse) == 1 and isinstance(c2.orelse[0], ast.If):
                                        c2, j = c2.orelse[0], j + 1
                                    else:
                                        if c2.orelse:
                                            arms[c2.orelse[0].lineno + delta] = f"b1.{j + 1}"
                                        break
                    if len(cur.orelse) == 1 and isinstance(cur.orelse[0], ast.If):
                        cur, i = cur.orelse[0], i + 1
                    else:
                        if cur.orelse:
                            arms[cur.orelse[0].lineno + delta] = "else"
                        break
                break
        self.chains[label] = arms

    def report(self, rec):
        if not self.ok:
            rec.count("line_observer_unavailable")
            return
        for k, f in self.codes.items():
            lines = self.seen.get(k, set())
            try:
                total = {ln for _, _, ln in f.__code__.co_lines() if ln and ln > f.__code__.co_firstlineno}
            except Exception:  # noqa: BLE001
                total = set()
            for ln in lines:
                rec.observe("lines:" + k, ln - f.__code__.co_firstlineno)
            rec.maximum("lines_total:" + k, len(total))
            arms = self.chains.get(k)
            if arms:
                for ln, lab in arms.items():
                    if ln in lines:
                        rec.observe({"_add_sub": "add_sub_branches", "_iadd_sub": "iadd_sub_branches"}[k], lab)


def install_watch(pint):
    from pint.facets.plain.quantity import PlainQuantity
    from pint.facets.nonmultiplicative.registry import GenericNonMultiplicativeRegistry as NMR
    from pint.facets.nonmultiplicative.definitions import OffsetConverter, LogarithmicConverter
    from pint.facets.nonmultiplicative.objects import NonMultiplicativeQuantity as NMQ
    w = Watch()
    for n in ("_add_sub", "_iadd_sub", "_mul_div", "_imul_div", "__pow__", "__ipow__", "__rtruediv__"):
        w.add(PlainQuantity, n)
    for n in ("_convert", "_validate_and_extract", "_add_ref_of_log_or_offset_unit"):
        w.add(NMR, n)
    for n in ("_ok_for_muldiv", "_has_compatible_delta"):
        w.add(NMQ, n)
    w.add(OffsetConverter, "to_reference", "Offset.to_reference")
    w.add(OffsetConverter, "from_reference", "Offset.from_reference")
    w.add(LogarithmicConverter, "to_reference", "Log.to_reference")
    w.add(LogarithmicConverter, "from_reference", "Log.from_reference")
    w.chain("_add_sub", "is_self_multiplicative")
    w.chain("_iadd_sub", "is_self_multiplicative")
    w.start()
    return w


# ---------------------------------------------------------------------------
# environment: one registry + its unit models + the rule table
# ---------------------------------------------------------------------------
class Env:
    def __init__(self, rec, pint, ureg, um, auto, delta, exact, workload, flipped=False):
        from harness import c06_rules as R
        self.R = R
        self.rec, self.pint, self.ureg, self.um = rec, pint, ureg, um
        self.auto, self.delta, self.exact, self.workload = auto, delta, exact, workload
        self.table = R.Table(um)
        self.mode = f"auto={int(auto)},as_delta={int(delta)}" + (",flipped" if flipped else "")
        self.modekey = f"auto={int(auto)},as_delta={int(delta)}"
        self.magkind = "scalar-exact" if exact else "ndarray-float"
        rec.observe("modes", self.modekey)

    # -- construction ------------------------------------------------------
    def q(self, x, units):
        if hasattr(x, "copy") and hasattr(x, "shape"):
            x = x.copy()
        return self.ureg.Quantity(x, self.ureg.UnitsContainer(dict(units)))

    def mq(self, x, units):
        return self.R.MQ(x, units)

    def units_of(self, r):
        return {k: F(v) for k, v in _uc(r, self.rec).items() if v != 0}

    def outcome(self, f):
        pint = self.pint
        try:
            return "ok", f()
        except pint.OffsetUnitCalculusError:
            return "raise", "OffsetUnitCalculusError"
        except pint.DimensionalityError:
            return "raise", "DimensionalityError"
        except ZeroDivisionError:
            return "raise", "ZeroDivisionError"
        except Exception as e:  # noqa: BLE001
            return "raise", type(e).__name__

    # -- comparison --------------------------------------------------------
    def close(self, got, want, scale=None, rtol=1e-9, atol=0.0):
        R = self.R
        if R.is_array(got) or R.is_array(want):
            import numpy as np
            try:
                g = np.asarray(got, dtype=float)
                w = np.asarray(want, dtype=float)
            except Exception:  # noqa: BLE001
                return False
            if g.shape != w.shape:
                return False
            fin = np.isfinite(w)
            if not np.array_equal(fin, np.isfinite(g)):
                return False
            if not fin.all():
                # inf / nan positions must carry the same non-finite value
                if not np.array_equal(np.nan_to_num(g[~fin], nan=0.5), np.nan_to_num(w[~fin], nan=0.5)):
                    return False
                g, w = g[fin], w[fin]
            tol = rtol * np.maximum(np.abs(w), scale or 0.0) + 1e-300 + atol
            return bool((np.abs(g - w) <= tol).all())
        if isinstance(got, bool) or isinstance(want, bool):
            return bool(got) == bool(want)
        if isinstance(got, (F, int)) and isinstance(want, (F, int)):
            return got == want
        try:
            g, w = float(got), float(want)
        except Exception:  # noqa: BLE001
            return False
        if math.isnan(g) or math.isnan(w):
            return math.isnan(g) and math.isnan(w)
        if math.isinf(g) or math.isinf(w):
            return g == w
        if isinstance(got, float) and self.exact and isinstance(want, (F, int)):
            self.rec.count("float_result_in_fraction_registry")
        return abs(g - w) <= rtol * max(abs(w), scale or 0.0) + 1e-300 + atol

    def show(self, x):
        if self.R.is_array(x):
            return [float(v) for v in x.tolist()] if x.ndim else float(x)
        return str(x)

    def cell(self, op, L, R_):
        t = self.table
        return f"{op}|{t.shape(L)}|{t.shape(R_)}" if R_ is not None else f"{op}|{t.shape(L)}"

    def names(self, *qs):
        out = []
        for q in qs:
            if isinstance(q, self.R.MQ):
                out.append("*".join(f"{k}^{v}" if v != 1 else k for k, v in sorted(q.units.items())) or "dimensionless")
            elif q is None:
                continue
            else:
                out.append("number")
        return out

    # -- verdict -------------------------------------------------------------
    def judge(self, exp, oc, op, L, R_, w, physical=False, counter="arith", extra=None, rtol=1e-9, atol=0.0):
        """Compare one observed outcome with the table's expectation."""
        rec = self.rec
        t = self.table
        cell = self.cell(op, L, R_)
        fields = dict(operator=op, kinds=cell.split("|", 1)[1], mode=self.modekey, magnitude=self.magkind,
                      workload=self.workload)
        for o in (L, R_):
            if o is not None and not isinstance(o, self.R.MQ):
                fields["number_kind"] = type(o).__name__
        if not isinstance(L, self.R.MQ) and type(L).__module__ == "numpy" and isinstance(R_, self.R.MQ):
            # numpy number on the left: Python dispatches to ndarray.__op__ -> Quantity.__array_ufunc__,
            # not to Quantity.__rop__
            fields["numpy_left_operand"] = True
        if extra:
            fields.update(extra)
        status, val = oc
        rec.observe("cell_mode_matrix", f"{cell}|{self.modekey}|{self.magkind}")
        names = self.names(L, R_)
        rec.case((self.workload, self.mode, op, tuple(names), self.magkind),
                 nontrivial=any(s in cell for s in ("OFF", "DELTA", "LOG")))
        if status == "ok" and hasattr(val, "_units"):
            self.defined_units(val, fields, w)
        if exp.kind == "unspecified":
            desc = "raise:" + val if status == "raise" else "value:" + self.describe(val)
            rec.observe("unspecified", f"{cell} [{self.modekey}] unspecified ({exp.rule}), observed {desc}")
            rec.count("unspecified_cells_observed")
            return None
        rule = exp.rule.split(":", 1)[0]
        fields["rule"] = rule
        rec.observe("rules_used", exp.rule)
        if exp.kind == "raise":
            rec.count(counter + "_refused_checks")
            if status == "ok":
                rec.violation("ambiguous-combination-returned-a-value",
                              dict(w, got=self.describe(val, True), rule=exp.rule), **fields)
                return False
            rec.observe("refusal_classes", f"{cell}|{val}")
            if val not in ("OffsetUnitCalculusError", "DimensionalityError"):
                rec.violation("refused-with-foreign-error-class", dict(w, got=val, rule=exp.rule),
                              error=val, **fields)
                return False
            if val not in exp.classes:
                # the literal tables are strict (pytest.raises(OffsetUnitCalculusError)); the rule says
                # which classes its source accepts
                rec.violation("refused-with-other-pint-error-class",
                              dict(w, got=val, accepted=list(exp.classes), rule=exp.rule), error=val, **fields)
                return False
            return True
        if status == "raise":
            if val == "ZeroDivisionError":
                rec.count("skipped_zero_division")
                return None
            rec.count(counter + "_value_checks")
            rec.violation("documented-result-refused", dict(w, got=val, rule=exp.rule), error=val, **fields)
            return False
        rec.count(counter + "_value_checks")
        if exp.kind == "bool":
            if exp.x is None:
                return None
            g = val
            if self.R.is_array(g) or self.R.is_array(exp.x):
                import numpy as np
                good = bool(np.array_equal(np.asarray(g, dtype=bool), np.asarray(exp.x, dtype=bool)))
            else:
                good = isinstance(g, (bool,)) or type(g).__name__ == "bool_"
                good = good and bool(g) == bool(exp.x)
            if not good:
                rec.violation("comparison-disagrees-with-defining-maps",
                              dict(w, got=repr(val), want=repr(exp.x), rule=exp.rule), **fields)
            return good
        # value
        if exp.units is None:                       # a plain number is expected
            g = val.magnitude if hasattr(val, "_units") and not val._units else val
            if hasattr(g, "_units") or not self.close(g, exp.x):
                rec.violation("wrong-value", dict(w, got=self.describe(val, True), want=self.show(exp.x),
                                                  rule=exp.rule), **fields)
                return False
            return True
        if not hasattr(val, "_units"):
            rec.violation("result-not-a-quantity", dict(w, got=repr(val), rule=exp.rule), **fields)
            return False
        gu = self.units_of(val)
        if physical and all(n in self.um and self.um[n].kind not in ("OFF", "LOG") for n in exp.units):
            # log units: _mul_div uses root units, __ipow__ base units -> compare physically
            try:
                gr = val.to_root_units()
                wr = self.R.const(t.factor(exp.units), exp.x) * exp.x
                same_dim = t.dims(self.R.MQ(0, exp.units)) == self.dims_of_pint(val)
                good = same_dim and self.close(gr.magnitude, wr, rtol=1e-9)
            except Exception as e:  # noqa: BLE001
                good = False
                w = dict(w, err=type(e).__name__)
            if not good:
                rec.violation("wrong-value", dict(w, got=self.describe(val, True), want=self.show(exp.x),
                                                  want_units=str(exp.units), rule=exp.rule), **fields)
            return good
        if gu != exp.units:
            rec.violation("wrong-unit", dict(w, got=self.describe(val, True), want_units=_ud(exp.units),
                                             want=self.show(exp.x), rule=exp.rule), **fields)
            return False
        if not self.close(val.magnitude, exp.x, exp.scale, rtol=rtol, atol=atol):
            rec.violation("wrong-value", dict(w, got=self.describe(val, True), want=self.show(exp.x),
                                              want_units=_ud(exp.units), rule=exp.rule), **fields)
            return False
        return True

    def dims_of_pint(self, q):
        return {k: F(v) for k, v in q.dimensionality.items() if v != 0}

    def describe(self, val, full=False):
        if hasattr(val, "_units"):
            u = _ud(self.units_of(val))
            if full:
                return f"{self.show(val.magnitude)} {u}"
            kinds = []
            for n in _uc(val):
                kinds.append(self.um[n].kind if n in self.um else ("UNDEFINED" if not self.is_defined(n) else "other"))
            return "quantity[" + ",".join(sorted(kinds)) + "]"
        if full:
            return repr(val)
        return type(val).__name__

    def is_defined(self, n):
        try:
            return n in self.ureg._units or bool(self.ureg.get_name(n))
        except Exception:  # noqa: BLE001
            return False

    def defined_units(self, val, fields, w):
        bad = [n for n in _uc(val) if not self.is_defined(n)]
        self.rec.count("result_unit_definedness_checks")
        if bad:
            self.rec.violation("result-has-undefined-unit", dict(w, got=self.describe(val, True), undefined=bad),
                               **fields)


def _uc(q, rec=None):
    """dict of a quantity's unit container; tolerates a Unit object stored in q._units (seen after
    ito_base_units() in a registry without default system: _get_base_units returns get_root_units())."""
    u = q._units
    if not hasattr(u, "_d"):
        if rec is not None:
            rec.observe("oddities", "quantity._units holds a " + type(u).__name__ + " object instead of a UnitsContainer")
        u = u._units
    return u._d


def _ud(units):
    return " * ".join(f"{k}**{v}" if v != 1 else k for k, v in sorted(units.items())) or "dimensionless"


# ---------------------------------------------------------------------------
# unit models
# ---------------------------------------------------------------------------
def bundled_um(m, R, with_log=False):
    um = {}
    for n in TEMPS:
        u = m.units[n]
        f, root, dims = m.root(n)
        if u["is_base"]:
            a, b, ref = F(1), F(0), n
        else:
            a = f.v
            b = u["mods"]["offset"].v * (f.v / u["scale"].v)
            ref = next(iter(u["ref"]))
        kind = R.OFF if b != 0 else R.ABS
        um[n] = R.UM(n, kind, a, b, root, dims, ref)
        if kind == R.OFF:
            um["delta_" + n] = R.UM("delta_" + n, R.DELTA, a, F(0), root, dims, ref)
    f, root, dims = m.root_of_spelling("millikelvin")
    um["millikelvin"] = R.UM("millikelvin", R.ABS, f.v, F(0), root, dims, "kelvin")
    extra = ["meter", "second", "hertz", "minute"]
    if with_log:
        extra += ["watt", "milliwatt", "microwatt", "kilowatt", "centimeter", "kilohertz"]
    for n in extra:
        f, root, dims = m.root_of_spelling(n)
        um[n] = R.UM(n, R.MULT, f.v, F(0), root, dims, n)
    if with_log:
        for n in LOGS:
            u = m.units[n]
            f, root, dims = m.root(n)
            um[n] = R.UM(n, R.LOG, f.v, F(0), root, dims, next(iter(u["ref"]), None),
                         logbase=u["mods"]["logbase"].v, logfactor=u["mods"]["logfactor"].v)
    for u in list(um.values()):
        for r in u.root:
            if r not in um:
                f, root, dims = m.root_of_spelling(r)
                um[r] = R.UM(r, R.MULT, f.v, F(0), root, dims, r)
    return um


def generated_um(g, R):
    um = {}
    for n, t in g.units.items():
        if t["kind"] == "offset" and t["offset"] != 0:
            b = t["offset"] * g.units[t["ref"]]["factor"]
            um[n] = R.UM(n, R.OFF, t["factor"], b, t["root"], t["dims"], t["ref"])
            um["delta_" + n] = R.UM("delta_" + n, R.DELTA, t["factor"], F(0), t["root"], t["dims"], t["ref"])
        else:
            um[n] = R.UM(n, R.ABS, t["factor"], F(0), t["root"], t["dims"], t.get("ref", n))
    return um


# ---------------------------------------------------------------------------
# magnitudes
# ---------------------------------------------------------------------------
def scalar_pairs(rng, k):
    base = [(F(100), F(10)), (F(0), F(0)), (F(-40), F(7, 3)), (F(10), F(0)), (F(0), F(25))]
    out = base[:min(k, 2)]
    while len(out) < k:
        out.append((F(rng.randint(-2000, 2000), rng.choice((1, 1, 2, 3, 7, 10))),
                    F(rng.randint(-2000, 2000), rng.choice((1, 1, 4, 9, 100)))))
    return out


def array_pairs(rng, k):
    import numpy as np
    out = [(np.array([100.0, 100.0]), np.array([10.0, 10.0]))]
    while len(out) < k:
        n = rng.choice((1, 2, 3))
        out.append((np.array([rng.randint(-20000, 20000) / 8 or 1.0 for _ in range(n)]),
                    np.array([rng.randint(-20000, 20000) / 16 or 3.0 for _ in range(n)])))
    return out[:k]


# ---------------------------------------------------------------------------
# arithmetic driver
# ---------------------------------------------------------------------------
BIN = {"+": (operator.add, operator.iadd), "-": (operator.sub, operator.isub),
       "*": (operator.mul, operator.imul), "/": (operator.truediv, operator.itruediv),
       "**": (operator.pow, operator.ipow)}


def snapshot(q):
    if hasattr(q, "_units"):
        m = q._magnitude
        return (repr(m.tolist()) if hasattr(m, "tolist") else repr(m), tuple(sorted((k, str(v)) for k, v in _uc(q).items())))
    if hasattr(q, "tolist"):
        return repr(q.tolist())
    return repr(q)


def binary(env, op, L, R_, physical=False):
    """L, R_: MQ or bare numbers.  Evaluates functional form (+ in-place twin for arrays)."""
    rec, t, RM = env.rec, env.table, env.R
    mk = lambda o: env.q(o.x, o.units) if isinstance(o, RM.MQ) else (o.copy() if hasattr(o, "copy") and hasattr(o, "shape") else o)  # noqa: E731
    try:
        if op in "+-":
            exp = t.addsub(op, L, R_)
        elif op in "*/":
            exp = t.muldiv(op, L, R_, env.auto)
        else:
            exp = t.power(L, R_, env.auto)
    except ZeroDivisionError:
        rec.count("skipped_zero_division")
        return
    except (OverflowError, ValueError):
        rec.count("skipped_model_domain")
        return
    w = {"expr": f"{_show_opnd(env, L)} {op} {_show_opnd(env, R_)}", "mode": env.mode}
    a, b = mk(L), mk(R_)
    sa, sb = snapshot(a), snapshot(b)
    fn, ifn = BIN[op]
    oc = env.outcome(lambda: fn(a, b))
    if oc[0] == "ok" and oc[1] is NotImplemented:
        oc = ("raise", "TypeError")
    if snapshot(a) != sa or snapshot(b) != sb:
        rec.violation("functional-form-mutated-an-operand", dict(w), operator=op, kinds=env.cell(op, L, R_).split("|", 1)[1],
                      mode=env.modekey, magnitude=env.magkind, workload=env.workload)
    env.judge(exp, oc, op, L, R_, w, physical=physical)
    # in-place twin: only ndarray magnitudes take the in-place paths
    if not env.exact and isinstance(L, RM.MQ) and RM.is_array(L.x):
        a2, b2 = mk(L), mk(R_)
        sb2 = snapshot(b2)
        oc2 = env.outcome(lambda: ifn(a2, b2))
        rec.count("inplace_twins")
        cell = env.cell(op, L, R_)
        fields = dict(operator="i" + op, kinds=cell.split("|", 1)[1], mode=env.modekey, magnitude=env.magkind,
                      workload=env.workload)
        rec.observe("cell_mode_matrix", f"i{cell}|{env.modekey}|{env.magkind}")
        diff = None
        if oc[0] != oc2[0]:
            diff = "outcome-class"
        elif oc[0] == "raise":
            if oc[1] != oc2[1]:
                fam = {"OffsetUnitCalculusError", "DimensionalityError"}
                diff = None if {oc[1], oc2[1]} <= fam else "error-class"
                rec.observe("inplace_error_class_variation", f"{cell}: {oc[1]} vs in-place {oc2[1]}")
        else:
            r1, r2 = oc[1], oc2[1]
            if hasattr(r1, "_units") != hasattr(r2, "_units"):
                diff = "type"
            elif hasattr(r1, "_units"):
                if env.units_of(r1) != env.units_of(r2):
                    if physical:
                        try:
                            if not env.close(r2.to_root_units().magnitude, r1.to_root_units().magnitude, rtol=1e-9):
                                diff = "value"
                        except Exception:  # noqa: BLE001
                            diff = "unit"
                    else:
                        diff = "unit"
                elif not env.close(r2.magnitude, r1.magnitude, exp.scale, rtol=1e-12):
                    diff = "value"
                if diff is None and r2 is not a2 and not (op == "**"):
                    rec.observe("inplace_returned_new_object", cell)
            elif not env.close(r2, r1):
                diff = "value"
        if diff:
            rec.violation("inplace-differs-from-functional-twin",
                          dict(w, functional=_oc(env, oc), inplace=_oc(env, oc2)), differs=diff, **fields)
        if snapshot(b2) != sb2:
            rec.observe("side_effects", f"i{op} mutated its right operand: {cell} [{env.modekey}]")
            rec.count("right_operand_mutated_by_inplace")
            if ALARM_ON_OPERAND_MUTATION:
                rec.violation("inplace-mutated-right-operand", dict(w, before=sb2, after=snapshot(b2)), **fields)
        # the in-place result is judged against the table as well
        if oc2[0] == "ok" and exp.kind == "value" and diff is None:
            rec.count("inplace_results_judged")


def _oc(env, oc):
    return oc[1] if oc[0] == "raise" else env.describe(oc[1], True)


def _show_opnd(env, o):
    if isinstance(o, env.R.MQ):
        return f"Q({env.show(o.x)}, '{_ud(o.units)}')"
    return env.show(o) if env.R.is_array(o) else repr(o)


def unary_and_compare(env, L, R_):
    rec, t, RM = env.rec, env.table, env.R
    mk = lambda o: env.q(o.x, o.units) if isinstance(o, RM.MQ) else o  # noqa: E731
    for name, fn in (("neg", operator.neg), ("abs", operator.abs)):
        exp = t.unary(name, L)
        a = mk(L)
        oc = env.outcome(lambda: fn(a))
        env.judge(exp, oc, name, L, None, {"expr": f"{name}({_show_opnd(env, L)})", "mode": env.mode})
    for op, fn in (("==", operator.eq), ("<", operator.lt), (">", operator.gt)):
        for other in (R_, 0, env.mq(0 * L.x, {})):
            exp = t.compare(op, L, other, env.auto)
            a, b = mk(L), mk(other)
            oc = env.outcome(lambda: fn(a, b))
            env.judge(exp, oc, op, L, other, {"expr": f"{_show_opnd(env, L)} {op} {_show_opnd(env, other)}",
                                              "mode": env.mode})


def number_forms(env, L, n):
    """quantity with a bare number, both orders, every binary operator."""
    for op in ("*", "/", "+", "-"):
        binary(env, op, L, n)
        binary(env, op, n, L)


def power_forms(env, L, exps, qexps):
    for e in exps:
        binary(env, "**", L, e)
    for x, units in qexps:
        binary(env, "**", L, env.mq(x, units))
    if env.table.dims(L):
        binary(env, "**", 2, L)          # must be refused: a dimensional exponent
    else:
        # dimensionless (generated) unit: pint computes 2 ** root value; keep the exponent small
        t = env.table
        if t.shape(L) in ("OFF", "ABS", "DELTA"):
            u = t.single(L)
            x3 = (F(3) - u.b) / u.a                       # root value exactly 3
            small = env.mq(L.x * 0 + (x3 if env.exact else float(x3)), L.units)
            binary(env, "**", 2, small)


# ---------------------------------------------------------------------------
# workloads
# ---------------------------------------------------------------------------
def make_registry(pintload, spec, auto, delta, nit, text=None):
    import pint
    kw = dict(non_int_type=nit)
    if spec.get("flip"):
        kw.update(autoconvert_offset_to_baseunit=not auto, default_as_delta=not delta)
    else:
        kw.update(autoconvert_offset_to_baseunit=auto, default_as_delta=delta)
    if text is None:
        u = pintload.registry(**kw)
    else:
        u = pint.UnitRegistry(text.splitlines(), cache_folder=None, **kw)
    if spec.get("flip"):
        u.autoconvert_offset_to_baseunit = auto
        u.default_as_delta = delta
    return u


def run_temp(spec, rec, rng, pintload, pint, m):
    from harness import c06_rules as R
    import numpy as np
    um = bundled_um(m, R)
    auto, delta = spec["auto"], spec["delta"]
    singles = TEMPS + ["delta_" + n for n in TEMPS if um[n].kind == R.OFF]
    for exact in (True, False):
        ureg = make_registry(pintload, spec, auto, delta, F if exact else float)
        env = Env(rec, pint, ureg, um, auto, delta, exact, "temperature", flipped=bool(spec.get("flip")))
        pairs = scalar_pairs(rng, spec["mags"]) if exact else array_pairs(rng, max(2, spec["mags"] // 2))
        one = (lambda v: v) if exact else (lambda v: np.array([float(v)] * 2))
        for ln, rn in itertools.product(singles, repeat=2):
            for x, y in pairs:
                L, R_ = env.mq(x, {ln: 1}), env.mq(y, {rn: 1})
                for op in ("+", "-", "*", "/"):
                    binary(env, op, L, R_)
            x, y = pairs[rng.randrange(len(pairs))]
            unary_and_compare(env, env.mq(x, {ln: 1}), env.mq(y, {rn: 1}))
        # other operands: numbers, dimensionless, other dimension, compounds with a true offset unit
        for ln in singles:
            for x, y in pairs:
                L = env.mq(x, {ln: 1})
                for n in ((2, F(5, 2), 0) if exact else (2, 2.5, 0, x * 0 + 4.0, np.float64(4.0))):
                    number_forms(env, L, n)
                other = [env.mq(one(F(3)) if exact else y * 0 + 3.0, {"meter": 1}),
                         env.mq(one(F(2)) if exact else y * 0 + 2.0, {}),
                         env.mq(y, {"delta_degree_Celsius": 1, "minute": -1})]
                for o in other:
                    for op in ("*", "/", "+", "-"):
                        binary(env, op, L, o)
                        binary(env, op, o, L)
                exps = (1, 0, 2, -1, -2, F(1) if exact else 1.0) + (() if exact else (0.5,))
                qexps = [(2, {}), (F(2000) if exact else 2000.0, {"millikelvin": 1, "kelvin": -1}),
                         (F(1000) if exact else 1000.0, {"millikelvin": 1, "kelvin": -1})]
                power_forms(env, L, exps, qexps + [(F(10) if exact else 10.0, {"kelvin": 1})])
        # compounds containing a true offset unit (what parse_units(..., as_delta=False) produces)
        comp_shapes = [lambda u: {u: 2}, lambda u: {u: -1}, lambda u: {u: -2}, lambda u: {u: 1, "meter": -1},
                       lambda u: {u: 1, "meter": 1}, lambda u: {u: 1, "degree_Fahrenheit": 1}]
        if not exact:
            comp_shapes.append(lambda u: {u: F(1, 2)})
        for ln in [n for n in singles if um[n].kind == R.OFF]:
            for sh in comp_shapes:
                units = sh(ln)
                x, y = pairs[rng.randrange(len(pairs))]
                if exact and x == 0:
                    x = F(10)
                L = env.mq(x, units)
                n = 2 if exact else 2.0
                for op in ("*", "/"):
                    binary(env, op, L, n)
                    binary(env, op, n, L)
                    binary(env, op, L, env.mq(y, {"meter": 1}))
                    binary(env, op, env.mq(y, {"kelvin": 1}), L)
                for op in ("+", "-"):
                    binary(env, op, L, env.mq(y, units))
                binary(env, "**", L, 2)
        # number * Unit (the documented way of building quantities)
        for ln in singles:
            L1 = env.mq(F(1) if exact else np.array([1.0, 1.0]), {ln: 1})
            n = F(127, 5) if exact else 25.4
            exp = env.table.muldiv("*", n, env.mq(F(1) if exact else 1.0, {ln: 1}), auto)
            unit = ureg.Unit(ureg.UnitsContainer({ln: 1}))
            oc = env.outcome(lambda: n * unit)
            env.judge(exp, oc, "*", n, env.mq(F(1), {ln: 1}), {"expr": f"{n!r} * ureg.Unit('{ln}')", "mode": env.mode},
                      extra={"form": "number*Unit"})
            oc = env.outcome(lambda: unit * n)
            env.judge(env.table.muldiv("*", env.mq(F(1), {ln: 1}), n, auto), oc, "*", env.mq(F(1), {ln: 1}), n,
                      {"expr": f"ureg.Unit('{ln}') * {n!r}", "mode": env.mode}, extra={"form": "Unit*number"})
        # Quantity (*, /) Unit OBJECT and the reverse: a bare unit stands for one of that unit, so every rule
        # for products and quotients of non-multiplicative units applies unchanged
        for ln in singles:
            unit = ureg.Unit(ureg.UnitsContainer({ln: 1}))
            one = env.mq(F(1) if exact else 1.0, {ln: 1})
            for other in ({"meter": 1}, {"kelvin": 1}, {singles[rng.randrange(len(singles))]: 1}):
                x, y = pairs[rng.randrange(len(pairs))]
                Lm = env.mq(y, other)
                for op in ("*", "/"):
                    for form, lo, ro in (("Quantity.Unit", Lm, one), ("Unit.Quantity", one, Lm)):
                        try:
                            exp = env.table.muldiv(op, lo, ro, auto)
                        except (ZeroDivisionError, OverflowError, ValueError):
                            rec.count("skipped_model_domain")
                            continue
                        qq = env.q(Lm.x, Lm.units)
                        fn = BIN[op][0]
                        oc = env.outcome((lambda: fn(qq, unit)) if form == "Quantity.Unit" else (lambda: fn(unit, qq)))
                        rec.count("unit_object_operands")
                        env.judge(exp, oc, op, lo, ro,
                                  {"expr": (f"{_show_opnd(env, Lm)} {op} ureg.Unit('{ln}')" if form == "Quantity.Unit"
                                            else f"ureg.Unit('{ln}') {op} {_show_opnd(env, Lm)}"), "mode": env.mode},
                                  extra={"form": form})
        rec.sample({"workload": "temperature", "mode": env.mode, "magnitudes": env.magkind,
                    "pair_sample": [str(v) if exact else v.tolist() for v in pairs[-1]]})


def run_gen(spec, rec, rng, pintload, pint):
    from harness import c06_rules as R
    from harness.gendef import Gen
    import numpy as np
    auto, delta = spec["auto"], spec["delta"]
    for i in range(spec["n"]):
        g = Gen(rng, n_dims=rng.choice((1, 2, 2)), n_units=rng.randint(3, 8), n_prefixes=0,
                offsets=rng.randint(2, 4))
        um = generated_um(g, R)
        offs = [n for n, u in um.items() if u.kind == R.OFF]
        if not offs:
            rec.count("skipped_no_offset_unit")
            continue
        txt = g.text(rng, shuffle=True, layout=rng.randrange(4))
        rec.count("generated_offset_units", len(offs))
        rec.count("generated_registries")
        refs = {um[n].ref for n in offs}
        rec.observe("gen_reference_units_per_registry", len(refs))
        for exact in (True, False):
            try:
                ureg = make_registry(pintload, spec, auto, delta, F if exact else float, text=txt)
            except Exception as e:  # noqa: BLE001
                rec.violation("generated-file-refused", {"text": txt, "err": type(e).__name__},
                              operator="load", kinds="", mode="", magnitude="", workload="generated")
                break
            env = Env(rec, pint, ureg, um, auto, delta, exact, "generated")
            # the operand units: offset units, their deltas, reference units, base units, 2 more
            names = list(offs) + ["delta_" + n for n in offs] + sorted(refs)
            dimsets = [um[n].dims for n in offs]
            more = [n for n, u in um.items() if u.kind == R.ABS and n not in names]
            rng.shuffle(more)
            same = [n for n in more if um[n].dims in dimsets][:2]
            diff = [n for n in more if um[n].dims not in dimsets and um[n].dims][:1]
            names += same + diff
            pairs = list(itertools.product(names, repeat=2))
            if not exact:
                pairs = rng.sample(pairs, min(len(pairs), 40))
            mags = scalar_pairs(rng, spec["mags"] + 1)[1:] if exact else array_pairs(rng, 2)[1:]
            if exact and rng.random() < 0.5:
                mags = [(F(100), F(10))] + mags[1:]
            for ln, rn in pairs:
                samedim = um[ln].dims == um[rn].dims
                cross = samedim and um[ln].ref != um[rn].ref
                for x, y in mags:
                    L, R_ = env.mq(x, {ln: 1}), env.mq(y, {rn: 1})
                    for op in ("+", "-", "*", "/"):
                        binary_gen(env, op, L, R_, cross)
                    # conversion
                    convert_cell(env, L, {rn: 1}, extra={"same_reference": not cross})
                if exact and rng.random() < 0.3:
                    x, y = mags[0]
                    unary_and_compare(env, env.mq(x, {ln: 1}), env.mq(y, {rn: 1}))
            for ln in offs + ["delta_" + offs[0]]:
                x, y = mags[0]
                L = env.mq(x, {ln: 1})
                root_cell(env, L)
                number_forms(env, L, 3 if exact else 3.0)
                power_forms(env, L, (1, 0, 2, -1) if exact else (1, 0, 2.0, 0.5, -1), [(2, {})])
                for sh in ({ln: 2}, {ln: 1, names[-1]: -1}):
                    if um[ln].kind != R.OFF:
                        continue
                    C = env.mq(x if x != 0 else F(3), sh) if exact else env.mq(x, sh)
                    binary(env, "*", C, 2 if exact else 2.0)
                    binary(env, "/", 2 if exact else 2.0, C)
                    convert_cell(env, C, {(um[ln].ref if k == ln else k): v for k, v in sh.items()})
        if i % 25 == 0:
            rec.sample({"workload": "generated", "mode": f"auto={auto},as_delta={delta}", "text": txt,
                        "offset_units": {n: {"a": str(um[n].a), "b": str(um[n].b), "ref": um[n].ref} for n in offs}})


def binary_gen(env, op, L, R_, cross):
    """binary() with the classifier field same_reference attached to violations."""
    rec = env.rec
    orig = rec.violation
    if cross:
        def patched(mech, witness, **fields):
            fields["same_reference"] = False
            orig(mech, witness, **fields)
        rec.violation = patched
    try:
        binary(env, op, L, R_)
    finally:
        if cross:
            rec.violation = orig


def convert_cell(env, L, dst, counter="conv", extra=None, rtol=1e-9, forms=("to",)):
    """Quantity.to / convert / m_as / ito (+ round trip) against the table."""
    rec, t, RM = env.rec, env.table, env.R
    exp = t.convert(L, dst, env.auto)
    dstc = env.ureg.UnitsContainer(dict(dst))
    w = {"expr": f"{_show_opnd(env, L)}.to('{_ud({k: F(v) for k, v in dst.items()})}')", "mode": env.mode}
    a = env.q(L.x, L.units)
    sa = snapshot(a)
    oc = env.outcome(lambda: a.to(dstc))
    if snapshot(a) != sa:
        rec.violation("functional-form-mutated-an-operand", dict(w), operator="to", kinds=env.cell("to", L, RM.MQ(0, dst)).split("|", 1)[1],
                      mode=env.modekey, magnitude=env.magkind, workload=env.workload)
    ok = env.judge(exp, oc, "to", L, RM.MQ(0, dst), w, counter=counter, extra=extra, rtol=rtol,
                   atol=1e-12 if rtol <= 1e-12 else 0.0)
    # the other entry points must agree with Quantity.to
    alt = []
    alt.append(("convert", env.outcome(lambda: env.ureg.convert(L.x.copy() if RM.is_array(L.x) else L.x,
                                                                env.ureg.UnitsContainer(dict(L.units)), dstc))))
    alt.append(("m_as", env.outcome(lambda: env.q(L.x, L.units).m_as(dstc))))
    b = env.q(L.x, L.units)

    def _ito():
        b.ito(dstc)
        return b
    sb = snapshot(b)
    alt.append(("ito", env.outcome(_ito)))
    if alt[-1][1][0] == "raise":
        # a REFUSED in-place conversion leaves its target as it was (magnitude bytes and units), and so does
        # the registry-level form with inplace=True
        rec.count("refused_inplace_conversions")
        if snapshot(b) != sb:
            rec.violation("refused-inplace-conversion-changed-its-target",
                          dict(w, before=str(sb)[:200], after=str(snapshot(b))[:200], entry="ito"),
                          operator="ito", kinds=env.cell("to", L, RM.MQ(0, dst)).split("|", 1)[1], mode=env.modekey,
                          magnitude=env.magkind, workload=env.workload)
        if RM.is_array(L.x):
            arr = L.x.copy()
            keep = arr.copy()
            o3 = env.outcome(lambda: env.ureg.convert(arr, env.ureg.UnitsContainer(dict(L.units)), dstc, inplace=True))
            if o3[0] == "raise" and not (arr == keep).all() and not (RM.is_array(arr) and (arr != arr).any()):
                rec.violation("refused-inplace-conversion-changed-its-target",
                              dict(w, before=str(keep.tolist())[:200], after=str(arr.tolist())[:200], entry="convert(inplace=True)"),
                              operator="convert-inplace", kinds=env.cell("to", L, RM.MQ(0, dst)).split("|", 1)[1],
                              mode=env.modekey, magnitude=env.magkind, workload=env.workload)
    for name, o2 in alt:
        rec.count("conversion_entry_point_twins")
        if name == "ito" and RM.is_array(L.x):
            rec.count("inplace_twins")
            rec.observe("cell_mode_matrix", f"ito|{env.cell('to', L, RM.MQ(0, dst)).split('|', 1)[1]}|{env.modekey}|{env.magkind}")
        same = o2[0] == oc[0]
        if same and oc[0] == "raise":
            same = o2[1] == oc[1]
        elif same:
            g1 = oc[1].magnitude
            g2 = o2[1].magnitude if hasattr(o2[1], "_units") else o2[1]
            same = env.close(g2, g1, exp.scale, rtol=1e-12)
            if same and name == "ito":
                same = env.units_of(o2[1]) == env.units_of(oc[1])
        if not same:
            rec.violation("inplace-differs-from-functional-twin" if name == "ito" else "conversion-entry-points-disagree",
                          dict(w, to=_oc(env, oc), other=name, other_result=_oc(env, o2)),
                          operator=name, kinds=env.cell("to", L, RM.MQ(0, dst)).split("|", 1)[1], mode=env.modekey,
                          magnitude=env.magkind, workload=env.workload, differs="value-or-class")
    # mutually inverse
    if oc[0] == "ok" and exp.kind == "value":
        back = env.outcome(lambda: oc[1].to(env.ureg.UnitsContainer(dict(L.units))))
        rec.count("roundtrip_checks")
        good = back[0] == "ok" and env.close(back[1].magnitude, L.x, (exp.back_scale or 0) + RM._mag(L.x),
                                             rtol=rtol if not env.exact else 1e-12, atol=1e-12 if rtol <= 1e-12 else 0.0)
        if env.exact and back[0] == "ok" and isinstance(back[1].magnitude, (F, int)) and isinstance(L.x, (F, int)):
            good = back[1].magnitude == L.x
        if not good:
            rec.violation("conversion-not-mutually-inverse", dict(w, back=_oc(env, back), start=env.show(L.x)),
                          operator="to-roundtrip", kinds=env.cell("to", L, RM.MQ(0, dst)).split("|", 1)[1],
                          mode=env.modekey, magnitude=env.magkind, workload=env.workload)
    return ok


def root_cell(env, L, counter="conv", rtol=1e-9):
    """to_root_units / to_base_units of a single-unit quantity: the defining map itself."""
    rec, t, RM = env.rec, env.table, env.R
    s = t.shape(L)
    if s not in ("OFF", "ABS", "DELTA", "LOG", "MULT"):
        return
    u = t.single(L)
    try:
        want = t.root_value(L)
    except (OverflowError, ValueError):
        rec.count("skipped_model_domain")
        return
    rule = ("ROOT: to_root_units()/to_base_units() apply the defining map a*x+b (offset), a*x (absolute, delta), "
            "scale*logbase**(x/logfactor) (log) [NM 'home.to(kelvin)'; TO '0 degC -> 273.15 kelvin', '0 delta_degC -> 0 "
            "kelvin'; LU \"ureg('20 dB').to_base_units() -> 100 dimensionless\"; DEF]")
    for form in ("to_root_units", "to_base_units"):
        a = env.q(L.x, L.units)
        oc = env.outcome(lambda: getattr(a, form)())
        if form == "to_base_units" and oc[0] == "ok":
            # base units may differ from root units by the default system (kilogram vs gram): compare physically
            oc = env.outcome(lambda: oc[1].to_root_units())
        exp = RM.value(rule, want, u.root, scale=RM._mag(L.x) * abs(float(u.a)) + abs(float(u.b)))
        env.table.used[rule] = env.table.used.get(rule, 0) + 1
        env.judge(exp, oc, form, L, None, {"expr": f"{_show_opnd(env, L)}.{form}()", "mode": env.mode},
                  counter=counter, rtol=rtol, atol=1e-12 if rtol <= 1e-12 else 0.0)


def run_conv(spec, rec, rng, pintload, pint, m):
    """Conversions among the bundled temperature units and their compounds, all four modes."""
    from harness import c06_rules as R
    import numpy as np
    um = bundled_um(m, R)
    singles = TEMPS + ["delta_" + n for n in TEMPS if um[n].kind == R.OFF]
    for auto, delta in MODES:
        for exact in (True, False):
            ureg = make_registry(pintload, {}, auto, delta, F if exact else float)
            env = Env(rec, pint, ureg, um, auto, delta, exact, "conversion")
            if exact:
                xs = [F(100), F(0), F(-40), F("25.4"), F("12.3")] + [F(rng.randint(-5000, 5000), rng.choice((1, 3, 8, 10)))
                                                                      for _ in range(spec["mags"])]
            else:
                xs = [np.array([25.4, 0.0, -40.0])] + [np.array([rng.randint(-40000, 40000) / 16 for _ in range(rng.choice((1, 2, 4)))])
                                                       for _ in range(max(1, spec["mags"] // 4))]
            for s, d in itertools.product(singles, repeat=2):
                for x in xs:
                    convert_cell(env, env.mq(x, {s: 1}), {d: 1})
            for s in singles:
                for x in xs:
                    root_cell(env, env.mq(x, {s: 1}))
            # spellings: the same conversion through strings
            for s, d in itertools.product(singles, repeat=2):
                x = xs[rng.randrange(len(xs))]
                ss, ds = rng.choice(SPELL[s]), rng.choice(SPELL[d])
                exp = env.table.convert(env.mq(x, {s: 1}), {d: 1}, auto)
                oc = env.outcome(lambda: ureg.Quantity(x.copy() if R.is_array(x) else x, ss).to(ds))
                env.judge(exp, oc, "to", env.mq(x, {s: 1}), env.mq(0, {d: 1}),
                          {"expr": f"Q({env.show(x)}, '{ss}').to('{ds}')", "mode": env.mode}, counter="conv",
                          extra={"form": "string-spelling"})
            # compounds: delta / absolute units in products convert by scale; true offset units refuse
            comp = [({"delta_degree_Celsius": 1, "minute": -1}, {"kelvin": 1, "second": -1}),
                    ({"kelvin": 1, "minute": -1}, {"delta_degree_Fahrenheit": 1, "minute": -1}),
                    ({"delta_degree_Fahrenheit": 1, "meter": -1}, {"delta_degree_Reaumur": 1, "meter": -1}),
                    ({"delta_degree_Celsius": 2}, {"degree_Rankine": 2}),
                    ({"degree_Celsius": 1, "meter": -1}, {"kelvin": 1, "meter": -1}),
                    ({"kelvin": 1, "meter": -1}, {"degree_Celsius": 1, "meter": -1}),
                    ({"degree_Celsius": 1, "meter": 1}, {"degree_Fahrenheit": 1, "meter": 1}),
                    ({"degree_Celsius": 2}, {"kelvin": 2}),
                    ({"degree_Fahrenheit": -1}, {"kelvin": -1}),
                    # offset unit to ANOTHER offset unit at the same negative / fractional / higher power
                    ({"degree_Celsius": -1}, {"degree_Fahrenheit": -1}),
                    ({"degree_Fahrenheit": -1}, {"degree_Celsius": -1}),
                    ({"degree_Celsius": -2}, {"degree_Reaumur": -2}),
                    ({"degree_Celsius": 2}, {"degree_Fahrenheit": 2}),
                    ({"degree_Celsius": F(1, 2)}, {"degree_Fahrenheit": F(1, 2)}),
                    ({"degree_Celsius": 1, "degree_Fahrenheit": 1}, {"kelvin": 2}),
                    ({"degree_Celsius": 1}, {"meter": 1}),
                    ({"degree_Celsius": 1}, {}),
                    ({"delta_degree_Celsius": 1}, {"second": 1})]
            for s, d in comp:
                for x in xs[:4]:
                    convert_cell(env, env.mq(x, s), d)
            rec.sample({"workload": "conversion", "mode": env.mode, "magnitudes": env.magkind,
                        "x": env.show(xs[-1])})


def run_log(spec, rec, rng, pintload, pint, m):
    from harness import c06_rules as R
    import numpy as np
    um = bundled_um(m, R, with_log=True)
    auto = spec["auto"]
    lin_partner = {"decibel": {}, "decibelmilliwatt": {"milliwatt": 1}, "decibelwatt": {"watt": 1},
                   "decibelmicrowatt": {"microwatt": 1}, "neper": {}, "octave": {}, "decade": {}}
    for delta in (True, False):
        # 1. Fraction registry: observe only (TypeError today)
        ureg = make_registry(pintload, spec, auto, delta, F)
        env = Env(rec, pint, ureg, um, auto, delta, True, "log")
        oc = env.outcome(lambda: ureg.Quantity(F(20), "dBm").to("mW"))
        rec.observe("log_in_fraction_registry", "raise:" + oc[1] if oc[0] == "raise" else "value")
        # 2. float registry, scalars and arrays
        ureg = make_registry(pintload, spec, auto, delta, float)
        for arrays in (False, True):
            env = Env(rec, pint, ureg, um, auto, delta, False, "log")
            env.magkind = "ndarray-float" if arrays else "scalar-float"
            xs = [20.0, 0.0, -161.0, 3.0] + [rng.randint(-1500, 1500) / 10 for _ in range(spec["mags"])]
            if arrays:
                xs = [np.array([20.0, 0.0, -161.0])] + [np.array([rng.randint(-1500, 1500) / 10 for _ in range(3)])
                                                        for _ in range(max(1, spec["mags"] // 3))]
            # conversions: every ordered pair of log units, and each with its linear partner and others
            for s, d in itertools.product(LOGS, repeat=2):
                rec.observe("log_pairs", f"{s}->{d}")
                for x in xs:
                    if um[s].name in ("octave", "decade"):
                        x = x / 16
                    rec.count("log_conv_checks")
                    convert_cell(env, env.mq(x, {s: 1}), {d: 1}, rtol=1e-12)
            for s in LOGS:
                for x in xs:
                    root_cell(env, env.mq(x / 16 if s in ("octave", "decade") else x, {s: 1}), rtol=1e-12)
                for lin in (lin_partner[s], {"watt": 1}, {}, {"kilowatt": 1}, {"meter": 1}):
                    for x in xs:
                        if s in ("octave", "decade"):
                            x = x / 16
                        rec.count("log_conv_checks")
                        convert_cell(env, env.mq(x, {s: 1}), lin, rtol=1e-12)
                        y = abs(x) + 0.5
                        convert_cell(env, env.mq(y, lin), {s: 1}, rtol=1e-12)
            # arithmetic
            for s, d in itertools.product(LOGS, repeat=2):
                x, y = xs[0], xs[1] if len(xs) > 1 else xs[0]
                if s in ("octave", "decade"):
                    x = x / 16
                if d in ("octave", "decade"):
                    y = y / 16
                L, R_ = env.mq(x, {s: 1}), env.mq(y + 1.0, {d: 1})
                for op in ("+", "-", "*", "/"):
                    binary(env, op, L, R_, physical=True)
            for s in LOGS:
                for x in xs[:3]:
                    if s in ("octave", "decade"):
                        x = x / 16
                    L = env.mq(x, {s: 1})
                    for n in (2.0, 0):
                        number_forms_phys(env, L, n)
                    for other in (env.mq(x * 0 + 10.0, {"hertz": 1}), env.mq(x * 0 + 1.0, {"centimeter": 1}),
                                  env.mq(x * 0 + 2.0, {}), env.mq(x * 0 + 5.0, lin_partner[s])):
                        for op in ("*", "/", "+", "-"):
                            binary(env, op, L, other, physical=True)
                            binary(env, op, other, L, physical=True)
                    for e in (1, 0, 2, -1):
                        binary(env, "**", L, e, physical=True)
                    unary_and_compare(env, L, env.mq(x, {s: 1}))
                    # number * Unit, the documented construction
                    unit = ureg.Unit(ureg.UnitsContainer({s: 1}))
                    n = 20.0
                    exp = env.table.muldiv("*", n, env.mq(1.0, {s: 1}), auto)
                    env.judge(exp, env.outcome(lambda: n * unit), "*", n, env.mq(1.0, {s: 1}),
                              {"expr": f"20.0 * ureg.{LOGSPELL[s]}", "mode": env.mode}, extra={"form": "number*Unit"})
            # the documented compound example (autoconvert only): noise density * bandwidth -> dBm
            if auto and not arrays:
                nd = env.outcome(lambda: (-161.0 * ureg.dBm / ureg.Hz) * (10.0 * ureg.kHz))
                rec.count("log_conv_checks")
                good = nd[0] == "ok"
                if good:
                    back = env.outcome(lambda: nd[1].to("dBm"))
                    good = back[0] == "ok" and abs(back[1].magnitude - (-121.0)) < 1e-9
                if not good:
                    rec.violation("wrong-value", {"expr": "(-161.0*dBm/Hz * 10 kHz).to('dBm')", "got": _oc(env, nd),
                                                  "rule": "LU noise_density example -> -121 dBm"},
                                  operator="*", kinds="LOG|MULT", mode=env.modekey, magnitude="scalar-float",
                                  workload="log", rule="LU-example")
            # parsing of compound log units: documented as not working -> observed only
            for s in ("dBm/Hz", "dB/cm", "dBW*s"):
                oc = env.outcome(lambda: ureg.Quantity(1.0, s))
                rec.observe("unspecified", f"parse compound log unit '{s}' [{env.modekey}] documented as problematic "
                                           f"(LU 'issues with parsing compound units'), observed "
                                           f"{'raise:' + oc[1] if oc[0] == 'raise' else 'units ' + _ud(env.units_of(oc[1]))}")
        rec.sample({"workload": "log", "mode": env.mode, "x": env.show(xs[-1])})


def number_forms_phys(env, L, n):
    for op in ("*", "/", "+", "-"):
        binary(env, op, L, n, physical=True)
        binary(env, op, n, L, physical=True)


def run_parse(spec, rec, rng, pintload, pint, m):
    from harness import c06_rules as R
    from harness.gendef import Gen
    um = bundled_um(m, R)
    kinds = {n: u.kind for n, u in um.items()}
    units = ["degree_Celsius", "degree_Fahrenheit", "degree_Reaumur", "kelvin", "degree_Rankine"]

    def shapes(u, sp, other="meter", u2=None, sp2=None):
        out = [({u: 1}, sp), ({u: 1, other: -1}, f"{sp}/{other}"), ({u: 1, other: 1}, f"{sp}*{other}"),
               ({u: 1, other: 1}, f"{other} {sp}"), ({u: 2}, f"{sp}**2"), ({u: -1}, f"1/{sp}"), ({u: -1}, f"{sp}**-1"),
               ({u: -1, other: 1}, f"{other}/{sp}"), ({u: 3, other: -2}, f"{sp}**3/{other}**2")]
        if u2 and u2 != u:
            out.append(({u: 1, u2: 1}, f"{sp}*{sp2}"))
            out.append(({u: 1, u2: -1}, f"{sp}/{sp2}"))
        return out

    def one_registry(ureg, kinds, cases, dflt, label):
        order = list(cases)
        rng.shuffle(order)
        for written, text in order:
            seq = [None, True, False]
            rng.shuffle(seq)
            for ad in seq + [None, True]:
                eff = dflt if ad is None else ad
                want, rule = R.parse_rule(kinds, written, eff)
                want = {k: F(v) for k, v in want.items()}
                rec.count("parse_checks")
                rec.observe("rules_used", rule)
                key = ("parse", label, text, str(ad), dflt)
                rec.case(key, nontrivial=any(kinds[k] == R.OFF for k in written))
                fields = dict(operator="parse_units", kinds="+".join(sorted(kinds[k] + ("^1" if v == 1 else "^k") for k, v in written.items())),
                              mode=f"as_delta={ad},default_as_delta={int(dflt)}", magnitude="", workload="parse:" + label,
                              rule="PARSE")
                rec.observe("cell_mode_matrix", "parse|" + fields["kinds"] + "|" + fields["mode"])
                kw = {} if ad is None else {"as_delta": ad}
                for form, call in (("parse_units", lambda: dict(ureg.parse_units(text, **kw)._units._d)),
                                   ("parse_units_as_container", lambda: dict(ureg.parse_units_as_container(text, **kw)._d))):
                    try:
                        got = {k: F(v) for k, v in call().items()}
                    except Exception as e:  # noqa: BLE001
                        rec.violation("parse-raised", {"text": text, "as_delta": str(ad), "err": type(e).__name__,
                                                       "form": form}, **fields)
                        continue
                    if got != want:
                        rec.violation("parse-wrong-delta-interpretation",
                                      {"text": text, "as_delta": str(ad), "default_as_delta": dflt, "got": _ud(got),
                                       "want": _ud(want), "form": form, "rule": rule}, **fields)
                if ad is None:
                    # Quantity(x, 'string') uses the registry default; the magnitude is left unchanged
                    try:
                        q = ureg.Quantity(F(10), text)
                        got = {k: F(v) for k, v in q._units._d.items()}
                        if got != want or q.magnitude != 10:
                            rec.violation("parse-wrong-delta-interpretation",
                                          {"text": text, "form": "Quantity(10, text)", "got": f"{q.magnitude} {_ud(got)}",
                                           "want": "10 " + _ud(want), "rule": rule}, **fields)
                    except Exception as e:  # noqa: BLE001
                        rec.violation("parse-raised", {"text": text, "form": "Quantity(10, text)",
                                                       "err": type(e).__name__}, **fields)

    for rep in range(spec["n"]):
        for auto, dflt in MODES:
            ureg = make_registry(pintload, {"flip": rep % 2 == 1}, auto, dflt, F)
            cases = []
            for u in units:
                for sp in (SPELL[u] if rep else SPELL[u][:2]):
                    u2 = rng.choice(units)
                    cases += shapes(u, sp, rng.choice(("meter", "second")), u2, rng.choice(SPELL[u2]))
            one_registry(ureg, kinds, cases, dflt, "bundled")
    # generated registries
    for rep in range(6 * spec["n"]):
        g = Gen(rng, n_dims=2, n_units=rng.randint(3, 6), n_prefixes=0, offsets=rng.randint(1, 3))
        gum = generated_um(g, R)
        gk = {n: u.kind for n, u in gum.items()}
        offs = [n for n in gum if gum[n].kind == R.OFF]
        if not offs:
            continue
        auto, dflt = MODES[rep % 4]
        try:
            ureg = pint.UnitRegistry(g.text(rng).splitlines(), cache_folder=None, non_int_type=F,
                                     autoconvert_offset_to_baseunit=auto, default_as_delta=dflt)
        except Exception:  # noqa: BLE001
            rec.count("skipped_generated_refused")
            continue
        others = [n for n in gum if gum[n].kind == R.ABS]
        cases = []
        for u in offs + others[:2]:
            t = g.units[u]
            sps = [u] + ([t["symbol"]] if t["symbol"] else []) + t["aliases"]
            u2 = rng.choice(offs)
            cases += shapes(u, rng.choice(sps), rng.choice([o for o in others if o != u] or ["dimensionless"]), u2, u2)
        one_registry(ureg, gk, cases, dflt, "generated")
    rec.sample({"workload": "parse", "example": "degC/meter", "rule": "delta iff as_delta and (many or exponent != 1)"})


# ---------------------------------------------------------------------------
def run_redef(spec, rec, rng, pint):
    """An offset unit that is defined AGAIN - by a later line of the same text, by a second define(), or by a
    context that redefines it: the unit and its delta companion both follow the definition in force
    (x degX = scale * x + offset kelvin; 1 delta_degX = scale kelvin), and the first one again afterwards."""
    from fractions import Fraction as F
    base = ["K = [temperature] = kelvin", "m = [length]"]
    for i in range(spec["n"]):
        a1, a2 = F(rng.randint(2, 9), rng.choice((1, 2, 4))), F(rng.randint(10, 19), rng.choice((1, 2, 4)))
        o1, o2 = F(rng.choice([v for v in range(-50, 51) if v])), F(rng.randint(60, 300))   # offset 0 = no offset unit, no delta companion
        line = lambda a, o: f"degX = {a.numerator} / {a.denominator} * K; offset: {o.numerator} = dX"  # noqa: E731
        path = ("later-line", "define-again", "context")[i % 3]
        if path == "later-line":
            ureg = pint.UnitRegistry(base + [line(a1, o1), line(a2, o2)], non_int_type=F, cache_folder=None,
                                     on_redefinition="ignore")
            stages = [("after", a2, o2, None)]
        elif path == "define-again":
            ureg = pint.UnitRegistry(base + [line(a1, o1)], non_int_type=F, cache_folder=None, on_redefinition="ignore")
            stages = [("before", a1, o1, None), ("after", a2, o2, lambda: ureg.define(line(a2, o2)))]
        else:
            ureg = pint.UnitRegistry(base + [line(a1, o1)], non_int_type=F, cache_folder=None)
            ctx = pint.Context("cx")
            ctx.redefine(f"degX = {float(a2)!r} * K; offset: {float(o2)!r}")
            ureg.add_context(ctx)
            stages = [("before", a1, o1, None), ("inside", a2, o2, lambda: ureg.enable_contexts("cx")),
                      ("left", a1, o1, lambda: ureg.disable_contexts())]
        Q = ureg.Quantity
        for stage, a, o, act in stages:
            if act:
                try:
                    act()
                except Exception as e:  # noqa: BLE001
                    rec.violation("redefinition-raised", {"path": path, "stage": stage, "err": repr(e)[:200]},
                                  workload="redef", path=path)
                    break
            x = F(rng.randint(-20, 40))
            probes = {
                "offset-unit-to-kelvin": (lambda: Q(x, "degX").to("K").magnitude, a * x + o),
                "delta-unit-to-kelvin": (lambda: Q(F(1), "delta_degX").to("K").magnitude, a),
                "difference-in-kelvin": (lambda: (Q(F(5), "degX") - Q(F(1), "degX")).to("K").magnitude, 4 * a),
                "kelvin-to-delta": (lambda: Q(a * 3, "K").to("delta_degX").magnitude, F(3)),
            }
            for pname, (fn, want) in probes.items():
                rec.count("redefined_offset_probes")
                rec.case(("redef", path, stage, pname, str(a), str(o)), nontrivial=stage != "before")
                try:
                    got = fn()
                except Exception as e:  # noqa: BLE001
                    rec.violation("redefined-offset-unit-raised", {"path": path, "stage": stage, "probe": pname,
                                                                   "err": repr(e)[:200]}, workload="redef", path=path, probe=pname)
                    continue
                ok = (F(got) == want) if path != "context" else abs(float(got) - float(want)) <= 1e-9 * max(1.0, abs(float(want)))
                if not ok:
                    rec.violation("redefined-offset-unit-wrong", {"path": path, "stage": stage, "probe": pname,
                                                                  "first": f"{a1} K, offset {o1}", "second": f"{a2} K, offset {o2}",
                                                                  "got": str(got), "want": str(want)},
                                  workload="redef", path=path, probe=pname, stage=stage)


def run_reuse(spec, rec, rng, pint):
    """The same Quantity OBJECT is used in arithmetic, converted in place to a unit of another kind (offset,
    absolute, delta), and used again: it must behave exactly like a fresh quantity with its current
    magnitude and units (no per-object memory of what kind of units it used to carry)."""
    import numpy as np
    units = ["degC", "degF", "kelvin", "degR", "delta_degC", "delta_degF"]
    others = ["degC", "kelvin", "delta_degC", "degF", "delta_degF", "degR"]
    for auto in (False, True):
        ureg = pint.UnitRegistry(autoconvert_offset_to_baseunit=auto, cache_folder=None)
        Q = ureg.Quantity

        def out(fn):
            try:
                r = fn()
                return ("ok", str(r.units), np.round(np.asarray(r.magnitude, dtype=float), 9).tolist())
            except Exception as e:  # noqa: BLE001
                return ("raised", type(e).__name__)
        for i in range(spec["n"]):
            a, b = rng.sample(units, 2)
            if a.startswith("delta_") != b.startswith("delta_"):
                b = rng.choice([u for u in units if u.startswith("delta_") == a.startswith("delta_") and u != a])
            arr = rng.random() < 0.4
            x = np.array([rng.uniform(-50, 400), rng.uniform(-50, 400)]) if arr else rng.uniform(-50, 400)
            q = Q(x.copy() if arr else x, a)
            warm = rng.choice(others)
            out(lambda: q + Q(1.0, warm))          # first use: whatever it answers, it may memoise
            out(lambda: q - Q(1.0, warm))
            try:
                q.ito(b)
            except Exception:  # noqa: BLE001
                continue
            for other in rng.sample(others, 3):
                for opname, op in (("+", lambda u, v: u + v), ("-", lambda u, v: u - v), ("r-", lambda u, v: v - u)):
                    fresh = Q(np.array(q.magnitude, copy=True) if arr else q.magnitude, str(q.units))
                    r_old = out(lambda: op(q, Q(2.0, other)))
                    r_new = out(lambda: op(fresh, Q(2.0, other)))
                    rec.count("reused_object_operations")
                    rec.case(("reuse", auto, a, b, other, opname, arr), nontrivial=True)
                    if r_old != r_new:
                        rec.violation("reused-object-differs-from-fresh-quantity",
                                      {"first_units": a, "converted_in_place_to": b, "operand": f"2 {other}", "op": opname,
                                       "reused": str(r_old)[:200], "fresh": str(r_new)[:200], "auto": auto},
                                      workload="reuse", operator=opname, mode=f"auto={int(auto)}",
                                      magnitude="ndarray" if arr else "scalar")


def run_shard(spec, rec):
    from harness import pintload, refmodel
    import pint

    rng = random.Random(spec["seed"])
    watch = install_watch(pint)
    m = refmodel.default_model(pintload.REPO)
    kind = spec["kind"]
    if kind == "temp":
        run_temp(spec, rec, rng, pintload, pint, m)
    elif kind == "gen":
        run_gen(spec, rec, rng, pintload, pint)
    elif kind == "log":
        run_log(spec, rec, rng, pintload, pint, m)
    elif kind == "conv":
        run_conv(spec, rec, rng, pintload, pint, m)
    elif kind == "parse":
        run_parse(spec, rec, rng, pintload, pint, m)
    elif kind == "redef":
        run_redef(spec, rec, rng, pint)
    elif kind == "reuse":
        run_reuse(spec, rec, rng, pint)
    else:
        rec.inconc(f"unknown shard kind {kind}")
    watch.report(rec)
