"""C09 — every textual format denotes the unit exactly; plain-text formats round-trip.

Oracle.  For every rendering `format(obj, spec)` the check (a) reads the string back with
an independent per-format reader (harness/c09_readers.py: D/C/raw arithmetic reader, P
unicode superscripts, H <sup>/blank products, L \\frac/\\mathrm/^{}, Lx siunitx macro
sequence) into [(display name, signed effective exponent)] and compares that multiset with
the object's own container, display names coming from the independent reference model
(name, or symbol for `~`; prefix symbol + unit symbol for prefixed units; 'Δ'+symbol for
delta units); (b) compares the magnitude text with Python's own format(m, mspec) (and the
documented x10^n rewrites of P/H/L); (c) for plain-text formats parses the string back
with the registry and demands equality whenever all exponents are rendered exactly;
(d) fingerprints the object before/after; (e) treats every exception as a violation.

Deviations from DESIGN.md §4 C09 (reality required them):
* Readers are *semantic* (ordinary arithmetic reading), not layout-pinning: blanks and the
  exact separators are not demanded, only what the string denotes.
* Compounds containing a non-multiplicative unit are parsed back with as_delta=False and
  `str(q)` is not parsed back for them (pint documents that a multiplicative context turns
  offset units into delta units / refuses them: docs/user/nonmult.rst).  Counted as skipped.
* Quantity round trip uses magnitudes native to the registry (int and non_int_type); other
  magnitude types are only checked for their text.  ndarray magnitudes are never parsed back.
* With a partial spec and a default_format the layout family chosen by pint is accepted if it
  is the spec's or the default's family (the statement does not fix the layout), the names
  (long / symbol) must follow the documented split rule.
* siunitx (Lx): a term `\\prefix\\rest` is accepted only if `rest` is a spelling of the
  reference model and prefix*rest really is the unit (D6 family otherwise).  Exponents are
  rendered with 3 decimals there, so they are compared with 5e-4 absolute tolerance; in the
  `{:n}` formats with 6 significant digits.
* babel / locale formatting is out of scope (no locales in the sandbox).
* `#` : the expectation is the structure of `q.to_compact()` computed separately (the
  documented meaning of the modifier); that this is physically equal to q is also checked.
  When to_compact itself raises, format(q, '#...') raising too is still reported (the
  statement says formatting never fails) but classified via="to_compact", fmt="any".
* Added beyond the plan: complex magnitudes (the x10^n rewrite must use each number's own
  exponent), compounds holding two canonical units with the same symbol (fm), Measurement
  (unit suffix only; the magnitude text belongs to `uncertainties`/C19), repr() forms, bare
  UnitsContainer formatting, prefixed units (symbol = prefix symbol + unit symbol), exponents of
  a numeric type foreign to the registry (`unit ** Fraction(1, 2)` in a float registry).
* Quantity round trip is demanded of str(q) only (whatever default_format is configured) and only
  when the effective magnitude spec is empty (a '.3f' default rounds by request).

Classifier fields (what known findings can match on): mechanism in {raised, structure,
siunitx-prefix-split, magnitude-text, roundtrip-unit, roundtrip-quantity, mutated,
compact-changes-value}; fmt (layout family, 'plain' / 'any' where the family is irrelevant),
names (long | ~ | -), nit (float | decimal | fraction), clause (never-raises | structure |
magnitude | roundtrip | unchanged), plus err/exp_type/via (raised), reason/exp_type (structure),
mag_kind (magnitude-text), cause/exp_type/mag_form (roundtrip-*).
"""
import math
import random
from decimal import Decimal
from fractions import Fraction as F

PID = "C09"
RULE = ("float/Decimal/Fraction registries. exhaustive: every canonical unit name of the registry "
        "(415) x exponent form {1,-1,2,-2} x spec {'',D,C,P,H,L,Lx,raw} x {long,~}, as Unit and as "
        "Quantity. random: compound units of 1-5 terms over all canonical + prefixed names, "
        "integer / fractional / foreign-typed exponents, three construction channels; quantities "
        "with int/float/Decimal/Fraction/ndarray magnitudes x magnitude specs x '#'; UnitsContainer "
        "and repr forms; Measurement; default_format x sort function x separate_format_defaults "
        "configurations. distinct = (registry, workload, spec, container items[, magnitude kind, "
        "mspec]); non-trivial = more than one term or an exponent != 1 or display != name or a "
        "magnitude rewrite")
ASSUMPTIONS = [
    "reference model (harness/refmodel.py) gives the canonical name / symbol / prefix tables",
    "Python's own format(m, mspec) and numpy.array2string define the magnitude text",
    "ordinary arithmetic reading (left-assoc * and /, ** tighter, parentheses) defines what a "
    "plain-text / HTML rendering denotes",
    "round trip demanded only for exactly rendered exponents (integers; <= 6 significant digits "
    "in D/C/raw), exponents of the registry's own numeric type, multiplicative units for str(q)",
    "pint's parse_units / parse_expression, to_compact and conversion are the subject of other "
    "properties (C07/C08/C15/C02); here they are only used as the inverse direction",
]
SHARD_TIMEOUT = {"quick": 600, "thorough": 3000}


def exhaustive(tier):
    return True


def required(tier):
    # about half of what an unchanged tree yields (exhaustive part is constant, the random
    # parts scale with the tier)
    k = 1 if tier == "quick" else 7
    return {"exhaustive_unit_spec": 415 * 4 * 16 * 3,
            "unit_renderings_read": 100000 + 50000 * k,
            "roundtrip_unit_ok": 50000 + 8000 * k,
            "quantity_renderings_read": 30000 + 20000 * k,
            "magnitude_text_checked": 30000 + 20000 * k,
            "roundtrip_quantity_ok": 1500 + 1200 * k,
            "fingerprints_compared": 150000 + 50000 * k,
            "config_renderings_read": 8000 * k,
            "container_renderings_read": 20000 * k,
            "measurement_renderings_read": 1500 * k,
            "compact_requests": 3000 * k,
            "twin_symbol_compounds": 100 * k,
            "families_read": 7, "mag_kinds": 8, "sort_funcs": 4, "rt_families": 8,
            "default_formats": 12, "channels": 3}


NITS = ("float", "decimal", "fraction")
NIT = {"fraction": F, "decimal": Decimal, "float": float}
FAMS = ("D", "C", "P", "H", "L", "Lx", "raw")
PLAIN = ("D", "C", "P", "raw")


def shards(tier, seed):
    out = []
    q = tier == "quick"
    for nit in NITS:
        for part in range(2):
            out.append({"kind": "exh", "nit": nit, "part": part, "parts": 2,
                        "name": f"exh-{nit}-{part}"})
    for i, nit in enumerate(("float", "float", "decimal", "fraction") if q else
                            ("float", "float", "decimal", "decimal", "fraction", "fraction")):
        out.append({"kind": "comp", "nit": nit, "name": f"comp-{nit}-{i}", "n": 2000 if q else 22000})
    for i, nit in enumerate(("float", "float", "decimal", "fraction") if q else
                            ("float", "float", "decimal", "decimal", "fraction", "fraction")):
        out.append({"kind": "qty", "nit": nit, "name": f"qty-{nit}-{i}", "n": 1200 if q else 14000})
    for i in range(2 if q else 4):
        out.append({"kind": "cfg", "nit": "float", "name": f"cfg-{i}", "n": 40 if q else 450})
    return out


# ---------------------------------------------------------------------------
# spec algebra (re-implemented from the documentation, not from pint)
# ---------------------------------------------------------------------------
def family(spec):
    """layout family selected by a spec string ('' -> D)."""
    for k in ("raw", "D", "H", "P", "Lx", "L", "C"):
        if k in spec:
            return k
    return "D"


def has_family(spec):
    return any(k in spec for k in ("raw", "D", "H", "P", "Lx", "L", "C"))


def unit_flags(spec):
    out = ""
    s = spec
    for k in ("raw", "Lx"):
        if k in s:
            out += k
            s = s.replace(k, "")
    for ch in s:
        if ch in "DHPLC~":
            out += ch
    return out


def mag_spec(spec):
    s = spec
    for k in ("raw", "Lx", "D", "H", "P", "L", "C", "~", "#"):
        s = s.replace(k, "")
    return s


# ---------------------------------------------------------------------------
# names
# ---------------------------------------------------------------------------
class Names:
    def __init__(self, m):
        self.m = m
        self.pref = {}                       # prefixed canonical name -> (prefix, unit)
        self.prefix_names = set(m.prefixes)

    def learn_prefixed(self, name):
        if name in self.m.units or name in self.pref:
            return True
        r = [x for x in self.m.readings(name) if x[0]]
        r = [x for x in r if x[0] + x[1] == name]
        if len(r) == 1:
            self.pref[name] = r[0]
            return True
        return False

    def short(self, name):
        m = self.m
        if name in m.units:
            return m.units[name]["symbol"] or name
        if name.startswith("delta_") and name[6:] in m.units:
            return "Δ" + self.short(name[6:])
        if name not in self.pref and not self.learn_prefixed(name):
            raise KeyError(name)
        pc, c = self.pref[name]
        return (m.prefixes[pc]["symbol"] or pc) + self.short(c)

    def known(self, name):
        return (name in self.m.units or name in self.pref
                or (name.startswith("delta_") and name[6:] in self.m.units))

    def multiplicative(self, name):
        m = self.m
        if name in m.units:
            return not m.units[name]["mods"]
        return True        # delta_ and prefixed units are multiplicative

    def prefix_split_ok(self, name, prefix, rest):
        """Does `prefix` applied to the unit spelled `rest` denote the unit `name`?"""
        m = self.m
        if prefix not in m.prefixes or rest not in m.spell:
            return False
        try:
            if not self.multiplicative(name) or m.units[m.spell[rest]]["mods"]:
                return False
            fa, ra, _ = m.expand({name: 1})
            fb, rb, _ = m.expand({rest: 1})
        except Exception:  # noqa: BLE001
            return False
        if ra != rb:
            return False
        want = float(m.prefixes[prefix]["value"]) * fb.f()
        if fa.exact and fb.exact:
            return fa.v == m.prefixes[prefix]["value"] * fb.v
        return abs(fa.f() - want) <= 1e-9 * abs(want)


# ---------------------------------------------------------------------------
# exponent helpers
# ---------------------------------------------------------------------------
def tofrac(e):
    if isinstance(e, (int, F, Decimal)):
        return F(e)
    return F(float(e))


def integral(e):
    try:
        return e == int(e)
    except Exception:  # noqa: BLE001
        return False


def exactly_rendered(e):
    """integers always; otherwise <= 6 significant digits"""
    if integral(e):
        return True
    try:
        if isinstance(e, F):
            return F(format(float(e), ".6g")) == e
        if isinstance(e, Decimal):
            return Decimal(format(e, ".6g")) == e
        return float(format(float(e), ".6g")) == float(e)
    except Exception:  # noqa: BLE001
        return False


def exp_type(items):
    """type class of the exponents the formatter has to render (|e| != 1)"""
    kinds = {type(e).__name__ for _, e in items if abs(e) != 1}
    for k in ("Fraction", "Decimal", "float", "float64", "int"):
        if k in kinds:
            return k
    return "unit" if not kinds else sorted(kinds)[0]


def exp_close(read: F, e, fam):
    ex = tofrac(e)
    if read == ex:
        return True
    if fam == "raw":
        # str(exponent): the shortest repr of a float denotes that float
        return isinstance(e, float) and float(read) == e
    if fam == "Lx":
        return abs(read - ex) <= F(50001, 10 ** 8)
    return abs(read - ex) <= abs(ex) * F(50001, 10 ** 10)


def raised_fields(fam, et, e, via, nit):
    """classifier of an exception escaping a formatting call.  Failures of to_compact and of
    the dimensional sort key do not depend on the layout family nor on the exponent types."""
    name = type(e).__name__
    if via == "to_compact" or (via == "sort_by_dimensionality" and name == "KeyError"):
        return dict(fmt="any", nit=nit, err=name, exp_type="-", clause="never-raises", via=via)
    return dict(fmt=fam, nit=nit, err=name, exp_type=et, clause="never-raises",
                via="format" if via == "sort_by_dimensionality" else via)


def items_of(container):
    return sorted(container._d.items())


def fp_container(c):
    return tuple((k, repr(v), type(v).__name__) for k, v in sorted(c._d.items()))


def fp_mag(m):
    try:
        import numpy as np
        if isinstance(m, np.ndarray):
            return ("nd", m.dtype.str, m.shape, m.tobytes())
    except ImportError:
        pass
    return (type(m).__name__, repr(m))


# ---------------------------------------------------------------------------
# the monitor
# ---------------------------------------------------------------------------
class Monitor:
    def __init__(self, rec, ureg, nitname, names, R):
        self.rec, self.ureg, self.nit, self.N, self.R = rec, ureg, nitname, names, R
        self.native = (int, NIT[nitname])
        self.via = "format"

    # -- reading a unit text ------------------------------------------------
    def read(self, fam, text):
        R = self.R
        if fam in ("D", "C", "raw"):
            return R.read_plain(text)
        if fam == "P":
            return R.read_pretty(text)
        if fam == "H":
            return R.read_html(text)
        if fam == "L":
            return R.read_latex(text)
        raise ValueError(fam)

    def expected(self, items, short, fam):
        if not items:
            return [] if (short or fam == "Lx") else [("dimensionless", 1)]
        if short and fam != "Lx":
            return [(self.N.short(n), e) for n, e in items]
        return [(n, e) for n, e in items]

    def check_unit_text(self, text, fam, short, items, ctx, obj):
        """structure oracle.  -> True iff the text denotes exactly `items`."""
        rec = self.rec
        et = exp_type(items)
        base = dict(fmt=fam, names="~" if short else "long", nit=self.nit, clause="structure")
        wit = dict(ctx, text=text, container=repr(items), obj=obj)
        if fam == "Lx":
            return self.check_siunitx(text, short, items, wit, base, et)
        try:
            got = self.read(fam, text)
        except self.R.ReadError as e:
            rec.violation("structure", dict(wit, read_error=str(e)), reason="unreadable:" + e.cls,
                          exp_type=et, **dict(base, names="-"))
            return False
        try:
            want = self.expected(items, short, fam)
        except KeyError:
            rec.count("skipped_name_ambiguous_in_model")
            return None
        rec.observe("families_read", fam)
        g = sorted(got, key=lambda t: (t[0], float(t[1])))
        w = sorted(want, key=lambda t: (t[0], float(t[1])))
        ok = len(g) == len(w) and all(a[0] == b[0] and exp_close(a[1], b[1], fam)
                                      for a, b in zip(g, w))
        if not ok:
            names_ok = sorted(a[0] for a in g) == sorted(b[0] for b in w)
            rec.violation("structure", dict(wit, read=[(n, str(e)) for n, e in g],
                                            want=[(n, str(e)) for n, e in w]),
                          reason="exponent-or-position" if names_ok else "names",
                          exp_type=et, **(base if not names_ok else dict(base, names="-")))
        return ok

    def check_siunitx(self, text, short, items, wit, base, et):
        rec, N = self.rec, self.N
        body = text
        try:
            got = self.R.read_siunitx(body, N.prefix_names)
        except self.R.ReadError as e:
            rec.violation("structure", dict(wit, read_error=str(e)), reason="unreadable:" + e.cls,
                          exp_type=et, **base)
            return False
        rec.observe("families_read", "Lx")
        want = sorted(items, key=lambda t: (t[0], float(t[1])))
        pool = list(got)
        ok = len(pool) == len(want)
        split_bad = []
        for n, e in want:
            hit = None
            for t in pool:
                p, u, x = t
                nm = "percent" if (u == "%" and short) else u
                if p + nm == n and exp_close(x, e, "Lx"):
                    hit = t
                    break
            if hit is None:
                ok = False
                continue
            pool.remove(hit)
            if hit[0] and not N.prefix_split_ok(n, hit[0], hit[1]):
                split_bad.append((n, hit[0], hit[1]))
        if not ok:
            # names that could not be matched: is the prefix stripping responsible?
            left = [n for n, e in want
                    if not any(p + ("percent" if (u == "%" and short) else u) == n for p, u, _ in got)]
            if left and all(any(n.startswith(p) for p in N.prefix_names) for n in left):
                rec.violation("siunitx-prefix-split",
                              dict(wit, read=[(p, u, str(x)) for p, u, x in got], unmatched=left),
                              fmt="Lx", nit=self.nit, clause="structure")
                return False
            rec.violation("structure", dict(wit, read=[(p, u, str(x)) for p, u, x in got],
                                            want=[(n, str(e)) for n, e in want]),
                          reason="terms-differ", exp_type=et, **base)
            return False
        if split_bad:
            rec.violation("siunitx-prefix-split",
                          dict(wit, split=split_bad), fmt="Lx", nit=self.nit, clause="structure")
            return False
        return True

    # -- one Unit x one spec --------------------------------------------------
    def unit_case(self, u, spec, ctx, roundtrip=True, workload="unit"):
        rec, ureg = self.rec, self.ureg
        fam, short = family(spec), "~" in spec
        items = items_of(u._units)
        et = exp_type(items)
        before = (fp_container(u._units), id(u._units))
        try:
            text = format(u, spec)
        except Exception as e:  # noqa: BLE001
            rec.violation("raised", dict(ctx, spec=spec, container=repr(items), err=repr(e)[:300],
                                         obj="Unit"),
                          **raised_fields(fam, et, e, self.via, self.nit))
            return None
        rec.count("fingerprints_compared")
        if (fp_container(u._units), id(u._units)) != before:
            rec.violation("mutated", dict(ctx, spec=spec, before=repr(before[0]),
                                          after=repr(fp_container(u._units))),
                          fmt=fam, nit=self.nit, clause="unchanged", obj="Unit")
        if not isinstance(text, str):
            rec.violation("structure", dict(ctx, spec=spec, text=repr(text)), reason="not-a-string",
                          fmt=fam, names="~" if short else "long", nit=self.nit, clause="structure",
                          exp_type=et)
            return None
        body = text
        if fam == "Lx":
            if not (text.startswith("\\si[]{") and text.endswith("}")):
                rec.violation("structure", dict(ctx, spec=spec, text=text), reason="unreadable:si-wrapper",
                              fmt=fam, names="~" if short else "long", nit=self.nit,
                              clause="structure", exp_type=et)
                return text
            body = text[len("\\si[]{"):-1]
        rec.count("unit_renderings_read")
        ok = self.check_unit_text(body, fam, short, items, dict(ctx, spec=spec), "Unit")
        if ok and roundtrip and fam in PLAIN:
            self.unit_roundtrip(u, text, fam, short, items, dict(ctx, spec=spec))
        return text

    def rt_demanded(self, items):
        if not all(isinstance(e, self.native) for _, e in items):
            self.rec.count("skipped_rt_foreign_exponent_type")
            return False
        return True

    def unit_roundtrip(self, u, text, fam, short, items, ctx):
        rec, ureg, N = self.rec, self.ureg, self.N
        if not self.rt_demanded(items):
            return
        if fam == "raw":
            exact = True       # str(exponent) is exact for int/float/Decimal; Fraction is read as a/b
        elif fam == "P":
            exact = all(integral(e) for _, e in items)
        else:
            exact = all(exactly_rendered(e) for _, e in items)
        if not exact:
            rec.count("skipped_rt_inexact_exponent")
            return
        nonmult = [n for n, _ in items if not N.multiplicative(n)]
        kw = {}
        if nonmult and (len(items) > 1 or items[0][1] != 1):
            kw["as_delta"] = False
            rec.count("rt_as_delta_false")
        base = dict(fmt=fam, names="~" if short else "long", nit=self.nit, clause="roundtrip")
        try:
            back = ureg.parse_units(text, **kw)
            same = bool(back == u)
        except Exception as e:  # noqa: BLE001
            rec.violation("roundtrip-unit", dict(ctx, text=text, container=repr(items),
                                                 err=repr(e)[:300]),
                          **self.rt_fields(base, items, short, "parse-error:" + type(e).__name__))
            return
        if same:
            rec.count("roundtrip_unit_ok")
            rec.observe("rt_families", fam + ("~" if short else ""))
            return
        rec.violation("roundtrip-unit", dict(ctx, text=text, container=repr(items),
                                             back=repr(items_of(back._units))),
                      **self.rt_fields(base, items, short, "different-unit"))

    def rt_fields(self, base, items, short, default):
        """classifier of a failed round trip: the cause decides which fields are mechanism"""
        cause = self.diagnose(items, short, default)
        f = dict(base, cause=cause)
        try:
            disp = [self.N.short(n) if short else n for n, _ in items]
            ident = all(d.isidentifier() for d in disp)
        except KeyError:
            ident = True
        if cause.startswith("symbol-"):
            # independent of the layout family, of the exponents and of the magnitude
            f.update(fmt="plain", exp_type="-")
            f.pop("mag_form", None)
            f.pop("mag_kind", None)
        elif default.startswith("parse-error") and f.get("mag_form") == "x10^n":
            f.update(cause="x10^n-magnitude-not-parseable", names="-", exp_type="-")
            f.pop("mag_kind", None)
        elif not ident:
            # '%', permille, degree signs ...: handled by textual preprocessors of the parser
            f.update(cause="non-identifier-symbol", fmt="plain", exp_type="-")
            f.pop("mag_form", None)
            f.pop("mag_kind", None)
        else:
            f.setdefault("exp_type", exp_type(items))
        return f

    def same_physical(self, a, b):
        m = self.m_model()
        try:
            fa, ra, _ = m.expand({a: 1})
            fb, rb, _ = m.expand({b: 1})
            return ra == rb and abs(fa.f() - fb.f()) <= 1e-12 * abs(fb.f())
        except Exception:  # noqa: BLE001
            return False

    def diagnose(self, items, short, default):
        """Explain a failed round trip with the reference model: does a rendered symbol
        spell another unit?"""
        if not short:
            return default
        m, N = self.m_model(), self.N
        for n, _ in items:
            try:
                s = N.short(n)
            except KeyError:
                continue
            if s in m.spell:
                if m.spell[s] != n:
                    return ("symbol-spells-other-unit:"
                            + ("physically-equal" if self.same_physical(n, m.spell[s]) else "different-value"))
                continue
            rd = m.readings(s)
            if n in N.pref and rd and rd[0] != N.pref[n]:
                return "symbol-ambiguous-prefix-reading"
            if n in N.pref and not rd:
                return "symbol-unreadable"
        return default

    def m_model(self):
        return self.N.m

    # -- magnitudes -----------------------------------------------------------
    def mag_kind(self, m):
        import numpy as np
        if isinstance(m, bool):
            return "bool"
        if isinstance(m, np.ndarray):
            return "ndarray" if m.ndim else "ndarray0d"
        if isinstance(m, np.generic):
            return "np." + type(m).__name__
        return type(m).__name__

    def _stress1(self, name, memo):
        r = memo.get(name)
        if r is None:
            memo[name] = 0.0
            try:
                d = self.ureg._units[name]
                r = 0.0
                if not d.is_base:
                    sc = abs(float(getattr(d.converter, "scale", 1) or 1))
                    r = abs(math.log10(sc)) if sc > 0 and math.isfinite(sc) else 400.0
                    for ref, e in d.reference.items():
                        r += abs(float(e)) * self._stress1(ref, memo)
            except Exception:  # noqa: BLE001
                r = 400.0
            memo[name] = r
        return r

    def range_stress(self, q, target):
        """bound on how far pint's running product of scale ** exponent can wander from 1 while
        converting between q's and target's units (sum of |exponent * log10(scale)| over every
        leaf of both definition chains, plus the magnitude)."""
        import numpy as np
        memo = self.__dict__.setdefault("_stress_memo", {})
        s = 0.0
        for obj in (q, target):
            for n, e in obj._units.items():
                try:
                    s += abs(float(e)) * self._stress1(n, memo)
                except Exception:  # noqa: BLE001
                    return 1e9
        try:
            m = abs(complex(np.max(np.abs(np.asarray(q.magnitude, dtype=complex)))))
            if m > 0 and math.isfinite(m):
                s += abs(math.log10(m))
        except Exception:  # noqa: BLE001
            pass
        return s

    def mag_candidates(self, m, mspec, fam):
        """-> (set of acceptable texts, was a rewrite possible)"""
        import numpy as np
        if fam == "raw":
            return {str(m)}, False
        if isinstance(m, np.ndarray) and (m.ndim > 0 or fam in ("L", "Lx")):
            if fam in ("L", "Lx"):
                arr = m.reshape(1) if m.ndim == 0 else m
                cells = []
                for x in arr:
                    t = format(x, mspec)
                    cells.append(self.R.sci_rewrites(t).get("L", t) if fam == "L" else t)
                alt = [format(x, mspec) for x in arr]
                return {"\\begin{pmatrix}" + " & ".join(cells) + "\\end{pmatrix}",
                        "\\begin{pmatrix}" + " & ".join(alt) + "\\end{pmatrix}"}, False
            txt = np.array2string(m, formatter={"float_kind": lambda x: format(x, mspec)})
            txt = txt.replace("\n", "")
            if fam == "H":
                return {"<pre>" + txt + "</pre>"}, False
            return {txt}, False
        base = format(m, mspec)
        out = {base}
        rw = self.R.sci_rewrites(base)
        if fam in rw:
            out.add(rw[fam])
        return out, fam in rw

    # -- one Quantity x one spec ----------------------------------------------
    def quantity_case(self, q, spec, ctx, eff=None, roundtrip=False):
        """eff = (mspec, family candidates, short) overrides what `spec` alone implies."""
        rec, ureg = self.rec, self.ureg
        import numpy as np
        compact = "#" in spec
        if eff is None:
            mspec, fams, short = mag_spec(spec), (family(spec),), "~" in spec
        else:
            mspec, fams, short = eff
        fam = fams[0]
        items0 = items_of(q._units)
        et = exp_type(items0)
        mk = self.mag_kind(q.magnitude)
        try:
            self.mag_candidates(q.magnitude, mspec, fam)
        except Exception:  # noqa: BLE001
            # Python itself refuses this (magnitude type, mspec) pair: not a valid request
            rec.count("skipped_python_refuses_mspec")
            return None
        before = (fp_mag(q._magnitude), fp_container(q._units), id(q._units))
        target, via = q, self.via
        if compact:
            try:
                target = q.to_compact()
            except Exception:  # noqa: BLE001
                target, via = None, "to_compact"
        if target is not None and target is not q:
            try:
                self.mag_candidates(target.magnitude, mspec, fam)
            except Exception:  # noqa: BLE001
                rec.count("skipped_python_refuses_mspec")     # e.g. to_compact produced a complex number
                return None
        try:
            text = format(q, spec)
        except Exception as e:  # noqa: BLE001
            # a failure of to_compact itself does not depend on the layout family
            rec.violation("raised", dict(ctx, spec=spec, container=repr(items0), magnitude=repr(q.magnitude)[:80],
                                         err=repr(e)[:300], obj="Quantity", mag_kind=mk),
                          **raised_fields(fam, et, e, via, self.nit))
            return None
        rec.count("fingerprints_compared")
        if (fp_mag(q._magnitude), fp_container(q._units), id(q._units)) != before:
            rec.violation("mutated", dict(ctx, spec=spec, before=repr(before[:2])[:300]),
                          fmt=fam, nit=self.nit, clause="unchanged", obj="Quantity")
        if target is None:
            rec.count("skipped_compact_unavailable")
            return None
        if compact and self.range_stress(q, target) > 290:
            # pint multiplies scale ** exponent leaf by leaf through both definition chains; with
            # partial products beyond ~1e+-290 the float accumulator goes denormal (observed:
            # rontobohr_magneton ** 4 -> bohr_magneton ** 4 off by 1.8e-6): a limit of floats
            rec.count("compact_value_not_comparable_float_range")
        elif compact:
            try:
                a = target.to(q.units).magnitude
                b = q.magnitude
                fa, fb = np.asarray(a, dtype=float), np.asarray(b, dtype=float)
                if np.any((fa == 0) != (fb == 0)) or not np.all(np.isfinite(fa) == np.isfinite(fb)):
                    raise OverflowError("float range")      # under/overflow of the conversion factor
                if not np.allclose(np.asarray(a, dtype=float), np.asarray(b, dtype=float),
                                   rtol=1e-9, atol=0, equal_nan=True):
                    rec.violation("compact-changes-value", dict(ctx, spec=spec, q=repr(q), compact=repr(target)),
                                  nit=self.nit, clause="structure", fmt=fam)
            except Exception:  # noqa: BLE001
                rec.count("compact_value_not_comparable")
        items = items_of(target._units)
        m = target.magnitude
        mk = self.mag_kind(m)           # to_compact may change the type (int -> float, real -> complex)
        status, payload = self._read_quantity(text, fam, mspec, short, m, items, mk, dict(ctx, spec=spec))
        if status == "bad":
            mech, wit, fields = payload
            rec.violation(mech, wit, **fields)
            return text
        if status != "ok":
            return text
        rec.count("quantity_renderings_read")
        rec.observe("mag_kinds", mk)
        rec.observe("mspecs", mspec)
        if roundtrip and fam in PLAIN and not compact and mspec == "":
            self.quantity_roundtrip(q, text, fam, short, items, payload, dict(ctx, spec=spec))
        return text

    def _read_quantity(self, text, fam, mspec, short, m, items, mk, ctx):
        R = self.R
        et = exp_type(items)
        nm = "~" if short else "long"
        import numpy as np
        try:
            cands, rewritable = self.mag_candidates(m, mspec, fam)
        except Exception:  # noqa: BLE001
            self.rec.count("skipped_python_refuses_mspec")
            return "skip", None
        utext = None
        used = None
        if fam == "Lx":
            ok = False
            for c in cands:
                head = "\\SI[]{" + c + "}"
                if text.startswith(head):
                    rest = text[len(head):]
                    if rest == "":
                        utext, ok, used = "", True, c
                    elif rest.startswith("{") and rest.endswith("}"):
                        utext, ok, used = rest[1:-1], True, c
                    break
            if not ok:
                return "bad", ("magnitude-text", dict(ctx, text=text[:300], want=sorted(cands)[:3], mspec=mspec),
                               dict(fmt=fam, nit=self.nit, clause="magnitude", mag_kind=mk.replace("ndarray0d", "ndarray")))
        elif fam == "H" and isinstance(m, np.ndarray) and m.ndim > 0:
            import re
            mm = re.match(r"^<table><tbody><tr><th>Magnitude</th><td style='text-align:left;'>(.*?)</td></tr>"
                          r"<tr><th>Units</th><td style='text-align:left;'>(.*?)</td></tr></tbody></table>$",
                          text, re.S)
            if mm and mm.group(1) in cands:
                utext, used = mm.group(2), mm.group(1)
            elif text in cands:          # no unit text at all (dimensionless with ~): no table
                utext, used = "", text
            else:
                return "bad", ("magnitude-text", dict(ctx, text=text[:300], want=sorted(cands)[:3], mspec=mspec),
                               dict(fmt=fam, nit=self.nit, clause="magnitude", mag_kind=mk.replace("ndarray0d", "ndarray")))
        else:
            joiners = ("\\ ",) if fam == "L" else (" ",)
            sp = R.split_magnitude(text, cands, joiners)
            if sp is None:
                return "bad", ("magnitude-text", dict(ctx, text=text[:300], want=sorted(cands)[:3], mspec=mspec),
                               dict(fmt=fam, nit=self.nit, clause="magnitude", mag_kind=mk.replace("ndarray0d", "ndarray")))
            used, _, utext = sp
            if utext.startswith("/"):
                utext = "1 " + utext          # documented: "3 1 / m" is written "3 / m"
        self.rec.count("magnitude_text_checked")
        if rewritable:
            base = format(m, mspec)      # (rewritable is never set for raw)
            self.rec.observe("sci_rewrite", f"{fam}:{'rewritten' if used != base else 'plain'}:"
                                            f"{'neg' if base.startswith('-') else 'pos'}")
        # unit part
        ok = self.check_unit_text(utext, fam, short, items, ctx, "Quantity")
        if not ok:
            return "bad-recorded", None      # check_unit_text has recorded it
        return "ok", bool(rewritable and used != format(m, mspec))

    def quantity_roundtrip(self, q, text, fam, short, items, rewritten, ctx):
        rec, ureg, N = self.rec, self.ureg, self.N
        import numpy as np
        m = q.magnitude
        if isinstance(m, (np.ndarray, np.generic)) or isinstance(m, bool) or not isinstance(m, self.native):
            rec.count("skipped_rt_foreign_magnitude")
            return
        if isinstance(m, float) and m != m:
            rec.count("skipped_rt_nan")
            return
        if not self.rt_demanded(items):
            return
        exact = (all(integral(e) for _, e in items) if fam == "P"
                 else True if fam == "raw" else all(exactly_rendered(e) for _, e in items))
        if not exact:
            rec.count("skipped_rt_inexact_exponent")
            return
        if any(not N.multiplicative(n) for n, _ in items):
            rec.count("skipped_rt_offset_quantity")
            return
        base = dict(fmt=fam, names="~" if short else "long", nit=self.nit, clause="roundtrip",
                    mag_kind=self.mag_kind(m), mag_form="x10^n" if rewritten else "python")
        try:
            back = ureg.parse_expression(text)
            same = bool(back == q)
        except Exception as e:  # noqa: BLE001
            rec.violation("roundtrip-quantity", dict(ctx, text=text, q=repr(q), err=repr(e)[:300]),
                          **self.rt_fields(base, items, short, "parse-error:" + type(e).__name__))
            return
        if same:
            rec.count("roundtrip_quantity_ok")
            rec.observe("rt_quantity_families", fam + ("~" if short else ""))
            return
        default = "different-quantity"
        try:
            bm = back.magnitude if hasattr(back, "magnitude") else back
            if (type(bm) is not type(m) and hasattr(back, "units") and back.units == q.units
                    and math.isclose(float(bm), float(m), rel_tol=1e-12, abs_tol=0.0)):
                # same units, same value to rounding, but the magnitude left the registry's type
                default = f"magnitude-type-changed:{type(m).__name__}->{type(bm).__name__}"
        except Exception:  # noqa: BLE001
            pass
        rec.violation("roundtrip-quantity", dict(ctx, text=text, q=repr(q), back=repr(back)),
                      **self.rt_fields(base, items, short, default))


# _read_quantity may have recorded a structure violation for a family that is only the first
# of several acceptable ones; quantity_case handles that by trying the others first.
def _patch_multi_family(mon_cls):
    orig = mon_cls.quantity_case

    def quantity_case(self, q, spec, ctx, eff=None, roundtrip=False):
        if eff is not None and len(eff[1]) > 1:
            # try silently: run every family on a scratch recorder, then commit one
            import copy
            rec = self.rec
            best = None
            for fam in eff[1]:
                scratch = _Scratch(rec)
                self.rec = scratch
                try:
                    orig(self, q, spec, ctx, eff=(eff[0], (fam,), eff[2]), roundtrip=roundtrip)
                finally:
                    self.rec = rec
                if not scratch.violations:
                    scratch.commit()
                    rec.observe("partial_spec_layout", f"spec-or-default:{fam}")
                    return
                best = best or scratch
            best.commit()
            return
        return orig(self, q, spec, ctx, eff=eff, roundtrip=roundtrip)

    mon_cls.quantity_case = quantity_case


class _Scratch:
    """Buffering stand-in for Rec (same recording API), committed or dropped."""

    def __init__(self, rec):
        self.rec, self.ops, self.violations = rec, [], 0

    def _op(self, name, *a, **k):
        self.ops.append((name, a, k))

    def case(self, *a, **k):
        self._op("case", *a, **k)

    def count(self, *a, **k):
        self._op("count", *a, **k)

    def observe(self, *a, **k):
        self._op("observe", *a, **k)

    def maximum(self, *a, **k):
        self._op("maximum", *a, **k)

    def sample(self, *a, **k):
        self._op("sample", *a, **k)

    def inconc(self, *a, **k):
        self._op("inconc", *a, **k)

    def violation(self, *a, **k):
        self.violations += 1
        self._op("violation", *a, **k)

    def commit(self):
        for name, a, k in self.ops:
            getattr(self.rec, name)(*a, **k)


_patch_multi_family(Monitor)


# ---------------------------------------------------------------------------
# generators
# ---------------------------------------------------------------------------
INT_EXPS = (1, 1, 1, -1, -1, 2, -2, 2, 3, -3, 4, -4)
FRAC_TEXT = ("0.5", "1.5", "2.5", "0.25", "0.75", "0.125", "1.75", "0.1", "0.2", "0.3", "2.4",
             "0.333333", "1.66667", "0.0625", "3.5", "2.0", "3.0", "0.7", "1.2")
INEXACT = (F(1, 3), F(2, 3), F(1, 7), F(5, 3), F(1, 6))


def draw_exp(rng, nit, allow_frac=True):
    """-> (exponent value of the registry's own type or int, tag)"""
    T = NIT[nit]
    r = rng.random()
    if not allow_frac or r < 0.6:
        return rng.choice(INT_EXPS), "int"
    sign = rng.choice((1, 1, -1))
    if r < 0.9:
        t = rng.choice(FRAC_TEXT)
        v = T(t)
        return (v if sign > 0 else -v), "frac6"
    fr = rng.choice(INEXACT) * sign
    if T is float:
        return float(fr), "inexact"
    if T is Decimal:
        return Decimal(fr.numerator) / Decimal(fr.denominator), "inexact"
    return fr, "inexact"


def foreign_exp(rng, nit):
    opts = {"float": (F(1, 2), F(3, 2), F(-2, 3), F(2), Decimal("0.5"), Decimal("-1.5")),
            "decimal": (F(1, 2), F(-3, 2), 0.5, 2.5, -0.25),
            "fraction": (0.5, -1.5, Decimal("0.5"), 2.0)}[nit]
    return rng.choice(opts)


class UnitGen:
    def __init__(self, rng, ureg, nit, names: Names, all_names, mult_names):
        self.rng, self.ureg, self.nit, self.N = rng, ureg, nit, names
        self.all, self.mult = all_names, mult_names
        self.prefixes = [p for p in names.m.prefixes]

    def pick_name(self, mult_only=False, prefixed_rate=0.15):
        rng, N, m = self.rng, self.N, self.N.m
        if rng.random() < prefixed_rate:
            for _ in range(20):
                pc = rng.choice(self.prefixes)
                c = rng.choice(self.mult)
                if c not in m.units:
                    continue
                s = pc + c
                if s in m.spell:
                    continue
                rd = m.readings(s)
                if len(rd) != 1 or rd[0] != (pc, c):
                    continue
                try:
                    got = self.ureg.get_name(s)
                except Exception:  # noqa: BLE001
                    continue
                if got != s:
                    continue
                N.pref[s] = (pc, c)
                return s
        return rng.choice(self.mult if mult_only else self.all)

    def compound(self, nmax=5, mult_only=False, allow_frac=True, foreign_rate=0.0, prefixed_rate=0.15):
        """-> (Unit, channel) built through one of three channels"""
        rng, ureg = self.rng, self.ureg
        k = rng.choice((1, 1, 2, 2, 2, 3, 3, 4, 5)[:max(1, nmax * 2 - 1)])
        k = min(k, nmax)
        d = {}
        while len(d) < k:
            n = self.pick_name(mult_only, prefixed_rate)
            if n in d:
                continue
            d[n] = draw_exp(rng, self.nit, allow_frac)[0]
        foreign = rng.random() < foreign_rate
        if foreign:
            n = rng.choice(sorted(d))
            d[n] = foreign_exp(rng, self.nit)
        ch = "algebra" if foreign else rng.choice(("container", "parsed", "algebra"))
        if ch == "container":
            return ureg.Unit(ureg.UnitsContainer(d)), ch
        if ch == "algebra":
            u = None
            for n, e in d.items():
                t = ureg.Unit(ureg.UnitsContainer({n: 1})) ** e
                u = t if u is None else u * t
            return u, ch
        parts = []
        for n, e in d.items():
            if isinstance(e, F) and e.denominator != 1:
                parts.append(f"{n}**({e.numerator}/{e.denominator})")
            elif isinstance(e, int):
                parts.append(f"{n}**({e})")
            else:
                parts.append(f"{n}**({e!s})")
        try:
            return ureg.parse_units(" * ".join(parts), as_delta=False), ch
        except Exception:  # noqa: BLE001
            return ureg.Unit(ureg.UnitsContainer(d)), "container"


def shape_key(items):
    return tuple((n, str(e), type(e).__name__) for n, e in items)


def nontrivial(items, names, short):
    if len(items) != 1:
        return True
    n, e = items[0]
    if e != 1:
        return True
    try:
        return short and names.short(n) != n
    except KeyError:
        return True


def spec_variants(rng=None):
    out = []
    for fam in ("", "D", "C", "P", "H", "L", "Lx", "raw"):
        out.append(fam)
        out.append("~" + fam)
    return out


# ---------------------------------------------------------------------------
# shard bodies
# ---------------------------------------------------------------------------
def run_shard(spec, rec):
    from harness import pintload, refmodel as RM
    from harness import c09_readers as R
    import pint  # noqa: F401

    rng = random.Random(spec["seed"])
    nit = spec["nit"]
    # 'raw' is not among the formats the C09 statement lists (default, compact, pretty, HTML, LaTeX,
    # siunitx): its structural clause is observed and counted, not alarmed on (main-agent review).
    _viol = rec.violation

    def _violation(mech, wit, **f):
        if f.get("fmt") == "raw" and mech in ("structure", "roundtrip-unit", "roundtrip-quantity"):
            rec.count("raw_format_not_exact_observed")
            rec.observe("raw_format_observations", f.get("reason") or f.get("cause") or mech)
            return
        _viol(mech, wit, **f)
    rec.violation = _violation
    m = RM.default_model(pintload.REPO)
    ureg = pintload.registry(non_int_type=NIT[nit])
    names = Names(m)
    canon = sorted({d.name for d in ureg._units.values()})
    unknown = [n for n in canon if not (names.known(n) or names.learn_prefixed(n))]
    if unknown:
        rec.inconc(f"registry names unknown to the reference model: {unknown[:8]}")
        canon = [n for n in canon if n not in unknown]
    mult = [n for n in canon if names.multiplicative(n)]
    mon = Monitor(rec, ureg, nit, names, R)
    state0 = (ureg.formatter.default_format, ureg.formatter.default_sort_func, ureg.formatter.locale)
    kind = spec["kind"]
    if kind == "exh":
        run_exhaustive(spec, rec, rng, ureg, mon, names, canon)
    elif kind == "comp":
        run_compounds(spec, rec, rng, ureg, mon, names, canon, mult)
    elif kind == "qty":
        run_quantities(spec, rec, rng, ureg, mon, names, canon, mult)
    elif kind == "cfg":
        run_configs(spec, rec, rng, ureg, mon, names, canon, mult)
        return
    if (ureg.formatter.default_format, ureg.formatter.default_sort_func, ureg.formatter.locale) != state0:
        rec.violation("mutated", {"what": "registry formatter settings changed by formatting"},
                      fmt="any", nit=nit, clause="unchanged", obj="registry")


def native_mag(rng, nit):
    T = NIT[nit]
    if rng.random() < 0.3:
        return rng.choice((0, 1, -1, 3, -7, 42, 1000, 123456789, -250))
    fr = F(rng.choice((1, 1, -1)) * rng.randint(1, 9999), 1000) * F(10) ** rng.randint(-6, 6)
    if T is float:
        # (three-digit exponents too: the exponent rewriting of P / H / L must take all the digits)
        return rng.choice((float(fr), float(fr), 1.5e20, -1.5e20, 2.5e-7, 1e22, 0.1, 1 / 3, 1e100, 2.5e120, -3.5e-105))
    if T is Decimal:
        return Decimal(fr.numerator) / Decimal(fr.denominator)
    return rng.choice((fr, F(1, 3), F(-22, 7), F(5, 2)))


def run_exhaustive(spec, rec, rng, ureg, mon, names, canon):
    nit = spec["nit"]
    T = NIT[nit]
    specs = spec_variants()
    mine = [n for i, n in enumerate(canon) if i % spec["parts"] == spec["part"]]
    mag = {"float": 2.5, "decimal": Decimal("2.5"), "fraction": F(5, 2)}[nit]
    for n in mine:
        for e in (1, -1, 2, -2):
            u = ureg.Unit(ureg.UnitsContainer({n: e}))
            items = items_of(u._units)
            for sp in specs:
                rec.count("exhaustive_unit_spec")
                rec.case(("exh", nit, n, e, sp), nontrivial=nontrivial(items, names, "~" in sp))
                mon.unit_case(u, sp, {"workload": "exhaustive", "unit": n, "exp": e})
            # the same unit carried by a quantity (default format + each family once)
            if e in (1, -2):
                q = ureg.Quantity(mag, u)
                for sp in specs:
                    rec.case(("exhq", nit, n, e, sp))
                    mon.quantity_case(q, sp, {"workload": "exhaustive-quantity", "unit": n, "exp": e},
                                      roundtrip=(sp == ""))
    rec.sample({"exhaustive_units": mine[:3], "specs": specs})
    # exponents of the registry's native non-int type on every unit (parsed channel)
    for n in mine[:: 4]:
        try:
            u = ureg.parse_units(f"{n}**2", as_delta=False)
        except Exception:  # noqa: BLE001
            rec.count("skipped_unparseable_name_power")
            continue
        for sp in specs:
            rec.case(("exh-parsed", nit, n, sp))
            mon.unit_case(u, sp, {"workload": "exhaustive-parsed-square", "unit": n})


def run_compounds(spec, rec, rng, ureg, mon, names, canon, mult):
    nit = spec["nit"]
    g = UnitGen(rng, ureg, nit, names, canon, mult)
    specs = spec_variants()
    # canonical units that share their symbol: both must survive side by side under '~'
    bysym = {}
    for n in canon:
        bysym.setdefault(names.short(n), []).append(n)
    twins = [v for v in bysym.values() if len(v) > 1]
    rec.observe("symbol_twins", repr(sorted(map(tuple, twins))))
    for i in range(spec["n"]):
        if twins and i % 40 == 7:
            tw = rng.choice(twins)
            d = {tw[0]: rng.choice((1, 2, -1)), tw[1]: rng.choice((3, -2, -3))}
            d[rng.choice(mult)] = rng.choice((1, -1, 2))
            u, ch = ureg.Unit(ureg.UnitsContainer(d)), "container"
            rec.count("twin_symbol_compounds")
        else:
            u, ch = g.compound(foreign_rate=0.06)
        items = items_of(u._units)
        rec.observe("channels", ch)
        rec.observe("exp_types", exp_type(items))
        rec.observe("term_counts", len(items))
        rec.observe("sign_patterns", "".join(sorted({"+" if e > 0 else "-" for _, e in items})))
        ndn = sum(1 for _, e in items if e < 0)
        rec.observe("denominator_sizes", ndn)
        for sp in specs:
            # both placements of the modifier are documented as equivalent
            s = sp if rng.random() < 0.7 or not sp.startswith("~") else sp[1:] + "~"
            rec.case(("comp", nit, s, shape_key(items)), nontrivial=nontrivial(items, names, "~" in s))
            mon.unit_case(u, s, {"workload": "compound", "channel": ch})
        # str / repr / UnitsContainer forms
        other_forms(rec, mon, ureg, u, items, nit)
        if i % 200 == 0:
            rec.sample({"compound": repr(items), "D": safe(lambda: format(u, "D")),
                        "~P": safe(lambda: format(u, "~P"))})


def safe(f):
    try:
        return f()
    except Exception as e:  # noqa: BLE001
        return "ERR " + repr(e)[:120]


def other_forms(rec, mon, ureg, u, items, nit):
    R = mon.R
    et = exp_type(items)
    # str(u)
    try:
        s = str(u)
        rec.count("unit_renderings_read")
        mon.check_unit_text(s, "D", False, items, {"workload": "str(Unit)"}, "Unit")
    except Exception as e:  # noqa: BLE001
        rec.violation("raised", {"what": "str(Unit)", "container": repr(items), "err": repr(e)[:300]},
                      **raised_fields("D", et, e, mon.via, nit))
    # repr(u) = <Unit('...')>
    try:
        r = repr(u)
        if r.startswith("<Unit('") and r.endswith("')>"):
            rec.count("unit_renderings_read")
            mon.check_unit_text(r[len("<Unit('"):-3], "D", False, items, {"workload": "repr(Unit)"}, "Unit")
        else:
            rec.violation("structure", {"text": r}, reason="unreadable:repr", fmt="D", names="long",
                          nit=nit, clause="structure", exp_type=et)
    except Exception as e:  # noqa: BLE001
        rec.violation("raised", {"what": "repr(Unit)", "container": repr(items), "err": repr(e)[:300]},
                      **raised_fields("D", et, e, mon.via, nit))
    # the bare container
    c = u._units
    for sp in ("", "D", "C", "P", "H", "L", "raw"):
        before = fp_container(c)
        try:
            s = format(c, sp) if sp else str(c)
        except Exception as e:  # noqa: BLE001
            rec.violation("raised", {"what": "format(UnitsContainer)", "spec": sp, "container": repr(items),
                                     "err": repr(e)[:300]},
                          **raised_fields(family(sp), et, e, mon.via, nit))
            continue
        rec.count("fingerprints_compared")
        if fp_container(c) != before:
            rec.violation("mutated", {"spec": sp, "before": repr(before)}, fmt=family(sp), nit=nit,
                          clause="unchanged", obj="UnitsContainer")
        rec.count("unit_renderings_read")
        rec.count("container_renderings_read")
        mon.check_unit_text(s, family(sp), False, items, {"workload": "UnitsContainer", "spec": sp},
                            "UnitsContainer")


MSPECS = ("", "", ".3f", ".2e", "g", ".0f", ".5g", "+.1e", "e", ".10g", "08.2f", ".1%")


def foreign_mag(rng, nit):
    import numpy as np
    k = rng.random()
    if k < 0.35:
        n = rng.randint(1, 4)
        return np.array([rng.choice((1.5, -2.25, 2.5e10, 3e-7, 0.0, 100.0, 1 / 3)) for _ in range(n)])
    if k < 0.45:
        return np.array([1, 2, 3])
    if k < 0.55:
        return np.array(rng.choice((2.5, 1.5e20, -3.0)))
    if k < 0.65:
        return np.float64(rng.choice((2.5, 1.5e20, -3.25e-9)))
    if k < 0.7:
        return np.int64(rng.choice((3, -12, 100000)))
    if k < 0.78:
        return rng.choice((float("inf"), float("-inf"), float("nan")))
    if k < 0.86:
        return rng.choice((complex(150, 3e-5), complex(1.5e20, -2.5e-7), complex(0, 1), complex(-2.5, 4)))
    pool = {"float": (Decimal("2.50"), F(22, 7), Decimal("1.5E+20")),
            "decimal": (2.5, F(22, 7), 1.5e20),
            "fraction": (2.5, Decimal("2.50"), 1.5e-20)}[nit]
    return rng.choice(pool)


def run_quantities(spec, rec, rng, ureg, mon, names, canon, mult):
    nit = spec["nit"]
    g = UnitGen(rng, ureg, nit, names, canon, mult)
    fams = ("", "D", "C", "P", "H", "L", "Lx", "raw")
    for i in range(spec["n"]):
        foreign = rng.random() < 0.35
        u, ch = g.compound(nmax=4, foreign_rate=0.03)
        if rng.random() < 0.06:
            u = ureg.Unit(ureg.UnitsContainer({}))
        mag = foreign_mag(rng, nit) if foreign else native_mag(rng, nit)
        try:
            q = ureg.Quantity(mag, u)
        except Exception:  # noqa: BLE001
            rec.count("skipped_quantity_not_constructible")
            continue
        items = items_of(q._units)
        mk = mon.mag_kind(q.magnitude)
        # str(q): the default format, always with the round trip
        rec.case(("qty", nit, "str", mk, shape_key(items)))
        mon.quantity_case(q, "", {"workload": "str(q)", "channel": ch}, roundtrip=True)
        for fam in fams:
            ms = rng.choice(MSPECS)
            tilde = rng.random() < 0.5
            parts = [ms, "~" if tilde else "", fam]
            if rng.random() < 0.3:
                parts = [ms, fam, "~" if tilde else ""]
            s = "".join(parts)
            rec.case(("qty", nit, s, mk, shape_key(items)))
            mon.quantity_case(q, s, {"workload": "quantity", "channel": ch})
        # '#': compact first (multiplicative units, scalar finite magnitudes)
        native_exps = all(isinstance(e, mon.native) for _, e in items)
        if (all(names.multiplicative(n) for n, _ in items) and native_exps
                and (not foreign or mk == "ndarray")):
            for _ in range(2):
                ms = rng.choice(MSPECS)
                s = rng.choice(("#{m}~{f}", "{m}#{f}", "~#{m}{f}", "{m}{f}#~")).format(
                    m=ms, f=rng.choice(fams))
                rec.case(("qty#", nit, s, mk, shape_key(items)))
                rec.count("compact_requests")
                mon.quantity_case(q, s, {"workload": "compact", "channel": ch})
        # repr(q)
        try:
            r = repr(q)
            tail = r.rsplit(", '", 1)
            if r.startswith("<Quantity(") and r.endswith("')>") and len(tail) == 2:
                rec.count("unit_renderings_read")
                mon.check_unit_text(tail[1][:-3], "D", False, items, {"workload": "repr(Quantity)"}, "Quantity")
        except Exception as e:  # noqa: BLE001
            rec.violation("raised", {"what": "repr(Quantity)", "container": repr(items), "err": repr(e)[:300]},
                          **raised_fields("D", exp_type(items), e, mon.via, nit))
        if i % 150 == 0:
            rec.sample({"quantity": safe(lambda: repr(q)), "~P": safe(lambda: format(q, "~P")),
                        "L": safe(lambda: format(q, ".2eL"))})
    if nit == "float":
        run_measurements(spec, rec, rng, ureg, mon, names, g)


def run_measurements(spec, rec, rng, ureg, mon, names, g):
    """Measurement: the magnitude text belongs to `uncertainties` (C19); here: never raises,
    unchanged, and the rendered unit (a suffix of the string) denotes the units."""
    nit = spec["nit"]
    R = mon.R
    n = max(20, spec["n"] // 10)
    for i in range(n):
        u, ch = g.compound(nmax=3, mult_only=True, allow_frac=False, prefixed_rate=0.0)
        items = items_of(u._units)
        try:
            ms = ureg.Measurement(rng.choice((2.0, 1234.5, 2.5e-7, 3.0e8)), rng.choice((0.1, 0.25, 3.0e-9)), u)
        except Exception:  # noqa: BLE001
            rec.count("skipped_measurement_not_constructible")
            continue
        for sp in ("", "D", "C", "P", "H", "L", "Lx", "~P", "~C", "~L", ".2f", ".1e", "~H"):
            fam, short = family(sp), "~" in sp
            rec.case(("meas", sp, shape_key(items)))
            before = (repr(ms.magnitude), fp_container(ms._units))
            try:
                text = format(ms, sp)
            except Exception as e:  # noqa: BLE001
                rec.violation("raised", {"what": "format(Measurement)", "spec": sp, "container": repr(items),
                                         "err": repr(e)[:300]},
                              **raised_fields(fam, exp_type(items), e, mon.via, nit))
                continue
            rec.count("fingerprints_compared")
            if (repr(ms.magnitude), fp_container(ms._units)) != before:
                rec.violation("mutated", {"spec": sp}, fmt=fam, nit=nit, clause="unchanged", obj="Measurement")
            # find a suffix that reads as exactly the units
            found = False
            if fam == "Lx":
                k = text.rfind("}{")
                cand = [text[k + 2:-1]] if k >= 0 and text.endswith("}") else []
            else:
                sep = "\\ " if fam == "L" else " "
                idx = [j for j in range(len(text)) if text.startswith(sep, j)]
                cand = [text[j + len(sep):] for j in idx]
            if fam == "Lx" and len(cand) == 1:
                # one candidate only: let the structure oracle report by itself
                if mon.check_unit_text(cand[0], fam, short, items, {"workload": "measurement", "text": text},
                                       "Measurement") is not False:
                    rec.count("measurement_renderings_read")
                continue
            for c in cand:
                scratch = _Scratch(rec)
                mon.rec = scratch
                try:
                    ok = mon.check_unit_text(c, fam, short, items, {}, "Measurement")
                finally:
                    mon.rec = rec
                if ok:
                    found = True
                    break
            if found:
                rec.count("measurement_renderings_read")
            else:
                rec.violation("structure", {"text": text, "container": repr(items), "spec": sp},
                              reason="no-unit-suffix", fmt=fam, names="~" if short else "long", nit=nit,
                              clause="structure", exp_type=exp_type(items), obj="Measurement")


def run_configs(spec, rec, rng, ureg0, mon0, names, canon, mult):
    """default_format x default_sort_func x separate_format_defaults."""
    from harness import pintload
    from harness import c09_readers as R
    from pint.delegates.formatter import _compound_unit_helpers as H

    sorts = {"unit_name": H.sort_by_unit_name, "display_name": H.sort_by_display_name,
             "dimensionality": H.sort_by_dimensionality, "none": None}
    defaults = ("", "P", "~P", "~", "C", "~C", "D", "~D", "H", "~H", "L", "~L", "Lx", "raw", "~raw",
                ".3f~P", ".2eC", ".3f", "g~")
    partial = ("", ".3f", ".2e", "~", "P", "~C", ".2fL", "H", "Lx", "g", "~.1fP")
    nit = "float"
    regs = {}
    for sfd in (None, True, False):
        regs[sfd] = pintload.registry()
        regs[sfd].separate_format_defaults = sfd     # (the constructor keyword is not accepted)
    for rnd in range(spec["n"]):
        sfd = rng.choice((None, True, True, False))
        ureg = regs[sfd]
        mon = Monitor(rec, ureg, nit, names, R)
        g = UnitGen(rng, ureg, nit, names, canon, mult)
        dflt = rng.choice(defaults)
        sname = rng.choice(sorted(sorts))
        mon.via = "sort_by_dimensionality" if sname == "dimensionality" else "format"
        ureg.formatter.default_format = dflt
        ureg.formatter.default_sort_func = sorts[sname]
        rec.observe("sort_funcs", sname)
        rec.observe("default_formats", dflt)
        rec.observe("sfd", repr(sfd))
        cfg = {"default_format": dflt, "sort": sname, "separate_format_defaults": repr(sfd)}
        dfam, dshort, dms = family(dflt), "~" in dflt, mag_spec(dflt)
        for _ in range(12):
            u, ch = g.compound(nmax=4, mult_only=(sname == "dimensionality" and rng.random() < 0.5))
            items = items_of(u._units)
            et = exp_type(items)
            # ---- units: spec omitted -> default applies
            for how in ("str", "format"):
                rec.case(("cfg-u", dflt, sname, how, shape_key(items)))
                try:
                    text = str(u) if how == "str" else format(u, "")
                except Exception as e:  # noqa: BLE001
                    rec.violation("raised", dict(cfg, what=how + "(Unit)", container=repr(items), err=repr(e)[:300]),
                                  **raised_fields(dfam, et, e, mon.via, nit))
                    continue
                body = text
                if dfam == "Lx":
                    if not (text.startswith("\\si[]{") and text.endswith("}")):
                        rec.violation("structure", dict(cfg, text=text), reason="unreadable:si-wrapper", fmt="Lx",
                                      names="long", nit=nit, clause="structure", exp_type=et)
                        continue
                    body = text[len("\\si[]{"):-1]
                rec.count("config_renderings_read")
                ok = mon.check_unit_text(body, dfam, dshort, items, dict(cfg, how=how), "Unit")
                if ok and dfam in PLAIN and how == "str":
                    mon.unit_roundtrip(u, text, dfam, dshort, items, dict(cfg, how=how))
            # explicit spec overrides the default for units
            for sp in ("~P", "C", "~L"):
                try:
                    text = format(u, sp)
                    rec.count("config_renderings_read")
                    mon.check_unit_text(text, family(sp), "~" in sp, items, dict(cfg, spec=sp), "Unit")
                except Exception as e:  # noqa: BLE001
                    rec.violation("raised", dict(cfg, what="format(Unit)", spec=sp, container=repr(items),
                                                 err=repr(e)[:300]),
                                  **raised_fields(family(sp), et, e, mon.via, nit))
            # ---- quantities
            q = ureg.Quantity(native_mag(rng, nit), u)
            for sp in partial:
                spec_has_u = unit_flags(sp) != ""
                spec_ms = mag_spec(sp)
                if sp == "":
                    eff = (dms, (dfam,), dshort)
                elif sfd is True:
                    e_ms = spec_ms or dms
                    e_us = unit_flags(sp) or unit_flags(dflt)
                    fams = (family(sp),) if has_family(sp) else tuple(dict.fromkeys((family(e_us), "D")))
                    eff = (e_ms, fams, "~" in e_us)
                else:
                    eff = (spec_ms, (family(sp),), "~" in sp)
                rec.case(("cfg-q", dflt, sname, repr(sfd), sp, shape_key(items)))
                n0 = sum(rec.viol_count.values())
                mon.quantity_case(q, sp, dict(cfg, workload="config-quantity"), eff=eff,
                                  roundtrip=(sp == ""))
                if sum(rec.viol_count.values()) == n0:
                    rec.count("config_renderings_read")
    for ureg in regs.values():
        ureg.formatter.default_format = ""
        ureg.formatter.default_sort_func = H.sort_by_unit_name
    run_default_equals_explicit(spec, rec, rng, pintload)


def run_default_equals_explicit(spec, rec, rng, pintload):
    """str(q) under formatter.default_format = F must be exactly format(q, F) of the same quantity in a
    registry without default (metamorphic relation; F also ranges over specs with the '#' modifier).
    Added after a seeded change (C09-2) that ignored a '#' coming from the default format."""
    from decimal import Decimal
    from fractions import Fraction
    dfs = ("#~P", "#.3f~P", "#D", "#~C", "#.2f~H", "~P", ".3f~D", "#", "#~", ".4g#~P", "C", "#L")
    for nitname, nit, mags in (("float", float, (1500.0, 2.5e-7, 3.2e7, 0.0421)),
                               ("fraction", Fraction, (Fraction(3000), Fraction(1, 4000), Fraction(5, 2))),
                               ("decimal", Decimal, (Decimal("1500"), Decimal("0.00025")))):
        a = pintload.registry(non_int_type=nit)
        b = pintload.registry(non_int_type=nit)
        for df in dfs:
            a.formatter.default_format = df
            for mag in mags:
                for un in ("meter", "second", "gram", "newton * meter", "meter / second ** 2"):
                    rec.count("default_vs_explicit_checks")
                    rec.case(("default=explicit", nitname, df, str(mag), un))
                    try:
                        want = ("ok", format(b.Quantity(mag, un), df))
                    except Exception as e:  # noqa: BLE001
                        want = ("raised", type(e).__name__)
                    try:
                        got1 = ("ok", str(a.Quantity(mag, un)))
                    except Exception as e:  # noqa: BLE001
                        got1 = ("raised", type(e).__name__)
                    try:
                        got2 = ("ok", format(a.Quantity(mag, un), ""))
                    except Exception as e:  # noqa: BLE001
                        got2 = ("raised", type(e).__name__)
                    if got1 != want or got2 != want:
                        rec.violation("default-format-differs-from-explicit-spec",
                                      {"default_format": df, "quantity": f"{mag!r} {un}", "str": got1, "format_empty": got2,
                                       "format_explicit": want}, fmt=family(df.replace("#", "")) if df.strip("#") else "D",
                                      nit=nitname, clause="default-format", compact_modifier="#" in df,
                                      default_is_only_modifiers=df.strip("#~") == "")
        a.formatter.default_format = ""
