"""C05 — equality, ordering and hashing agree with physical value.

Oracle: root-unit values from the independent reference model (scale for multiplicative
and delta units, affine map for offset units), exact in the Fraction registry.  Observed:
== != < <= > >= hash on pairs; symmetry / transitivity / trichotomy on the observed
relation itself (needs no model); cross-dimension and bare-number clauses.
"""
import itertools
import math
import random
from fractions import Fraction as F

PID = "C05"
RULE = ("pools of quantities built to contain many physically equal members: (1) every dimension "
        "class of untainted positively-scaled units (unit pairs sampled in quick, all in thorough) x "
        "magnitudes {x, x*ratio, x*ratio*1.001, 0, -x}; (2) temperature pool: 6 kelvin targets x "
        "{kelvin, degC, degF, degRe, degR} by inverse affine map + delta units; (3) dimensionless "
        "units with distinct roots; (4) products differing only by dimensionless root units; all "
        "ordered pairs inside each pool, triples for transitivity; cross-dimension pairs; bare "
        "numbers; NaN; float registry away from ties. distinct = (pool, q1, q2); non-trivial = the "
        "two quantities are in different units or have different magnitudes")
ASSUMPTIONS = [
    "exact laws are checked in the Fraction registry on units not tainted by fractional powers",
    "NaN is excluded from reflexivity; negatively scaled units (electron_g_factor) from ordering",
    "comparison of an offset-unit quantity with bare zero may raise OffsetUnitCalculusError or "
    "compare the base value: the statement only says it is 'defined' for zero, both accepted",
]


def exhaustive(tier):
    return False


def required(tier):
    return {"pairs_equal_by_model": 3000, "pairs_unequal_by_model": 5000, "hash_checks": 3000,
            "order_checks": 5000, "transitivity_triples": 5000, "cross_dimension_pairs": 500, "cross_dimension_pairs_under_context": 300,
            "bare_number_checks": 40, "kinds_pairs": 6}


def shards(tier, seed):
    out = []
    n = 4 if tier == "quick" else 12
    for i in range(n):
        out.append({"kind": "classes", "part": i, "parts": n, "name": f"classes{i}",
                    "per_class": 9 if tier == "quick" else 1000})
    out.append({"kind": "temperature", "name": "temperature", "triples": 20000 if tier == "quick" else 0})
    out.append({"kind": "temperature", "name": "temperature-auto", "autoconvert": True,
                "triples": 5000 if tier == "quick" else 40000})
    out.append({"kind": "dimensionless", "name": "dimensionless"})
    out.append({"kind": "cross", "name": "cross", "n": 3000 if tier == "quick" else 40000})
    out.append({"kind": "cross-context", "name": "cross-context", "n": 600 if tier == "quick" else 8000})
    out.append({"kind": "float", "name": "float", "n": 4000 if tier == "quick" else 60000})
    return out


class Pool:
    """Quantities with their model values; all-pairs and triple checks on one pool."""

    def __init__(self, name, rec, pint, exact=True):
        self.name, self.rec, self.pint, self.exact = name, rec, pint, exact
        self.context_active = False   # an enabled context: == across the dimensions it bridges is not judged
        self.items = []   # (label, quantity, (value, dims, exact), kind, units_key)

    def add(self, label, q, mv, kind):
        self.items.append((label, q, mv, kind))

    def run_pairs(self, qmodel):
        rec, pint = self.rec, self.pint
        n = len(self.items)
        self.eqm = [[None] * n for _ in range(n)]
        for i, (la, qa, va, ka) in enumerate(self.items):
            for j, (lb, qb, vb, kb) in enumerate(self.items):
                self.pair(i, j, la, qa, va, ka, lb, qb, vb, kb, qmodel)

    def pair(self, i, j, la, qa, va, ka, lb, qb, vb, kb, qmodel):
        rec, pint = self.rec, self.pint
        kinds = "|".join(sorted((ka, kb)))
        bothzero = qa.magnitude == 0 and qb.magnitude == 0
        fields = dict(pool=self.name, kinds=kinds, both_zero=bool(bothzero),
                      delta_vs_offset={ka, kb} == {"delta", "offset"})
        w = {"a": la, "b": lb, "model_a": str(va[0]), "model_b": str(vb[0])}
        rec.case((self.name, la, lb), nontrivial=la != lb)
        rec.observe("kinds_pairs", kinds)
        same_dim = va[1] == vb[1]
        if self.context_active and not same_dim:
            # with a context enabled == converts through it (a wavelength can equal a frequency there);
            # the ordering operators must still refuse the pair
            ops = {}
            for name in ("lt", "le", "gt", "ge"):
                try:
                    ops[name] = getattr(qa, f"__{name}__")(qb)
                except pint.DimensionalityError:
                    ops[name] = "DimErr"
                except Exception as ex:  # noqa: BLE001
                    ops[name] = "raised:" + type(ex).__name__
            rec.count("order_checks")
            rec.count("cross_dimension_pairs_under_context")
            if any(v != "DimErr" for v in ops.values()):
                rec.violation("cross-dimension-order-not-refused", dict(w, ops=str(ops)), **fields)
            return
        nan = any(isinstance(v[0], float) and math.isnan(v[0]) for v in (va, vb))
        exp_eq = (not nan) and qmodel.same_physical(va, vb, tol=F(0) if self.exact else F(1, 10 ** 12))
        rec.count("pairs_equal_by_model" if exp_eq else "pairs_unequal_by_model")
        try:
            e = qa == qb
            ne = qa != qb
        except Exception as ex:  # noqa: BLE001
            rec.violation("eq-raised", dict(w, err=repr(ex)), **fields)
            return
        self.eqm[i][j] = bool(e)
        if not isinstance(e, bool) or not isinstance(ne, bool):
            rec.violation("eq-not-bool", dict(w, eq=repr(e)), **fields)
        if self.exact or abs_gap(va, vb) > 1e-6 or exp_eq:
            if bool(e) != exp_eq:
                rec.violation("eq-disagrees-with-physical-value", dict(w, eq=bool(e), model_equal=exp_eq),
                              **fields)
            if bool(ne) == bool(e):
                rec.violation("ne-not-negation", dict(w, eq=bool(e), ne=bool(ne)), **fields)
        if e:
            rec.count("hash_checks")
            try:
                ha, hb = hash(qa), hash(qb)
                if ha != hb:
                    roots_differ = dict(qa.to_root_units()._units._d) != dict(qb.to_root_units()._units._d)
                    rec.violation("equal-but-different-hash", dict(w), dimensionless_roots_differ=roots_differ,
                                  **fields)
            except Exception as ex:  # noqa: BLE001
                rec.violation("hash-raised", dict(w, err=repr(ex)), **fields)
        # ordering
        ops = {}
        for name in ("lt", "le", "gt", "ge"):
            try:
                ops[name] = getattr(qa, f"__{name}__")(qb)
            except pint.DimensionalityError:
                ops[name] = "DimErr"
            except Exception as ex:  # noqa: BLE001
                ops[name] = "raised:" + type(ex).__name__
        rec.count("order_checks")
        if not same_dim:
            rec.count("cross_dimension_pairs")
            if any(v != "DimErr" for v in ops.values()):
                rec.violation("cross-dimension-order-not-refused", dict(w, ops=str(ops)), **fields)
            if e is not False and e:
                rec.violation("cross-dimension-eq-true", dict(w), **fields)
            return
        if nan:
            return
        if any(isinstance(v, str) for v in ops.values()):
            rec.violation("order-raised", dict(w, ops=str(ops)), **fields)
            return
        a, b = va[0], vb[0]
        if not self.exact and not exp_eq and abs_gap(va, vb) < 1e-6:
            return
        want = {"lt": a < b and not exp_eq, "le": a < b or exp_eq,
                "gt": a > b and not exp_eq, "ge": a > b or exp_eq}
        got = {k: bool(v) for k, v in ops.items()}
        if got != want:
            rec.violation("order-disagrees-with-base-magnitudes", dict(w, got=str(got), want=str(want)),
                          **fields)
        if [got["lt"], bool(e), got["gt"]].count(True) != 1:
            rec.violation("trichotomy", dict(w, lt=got["lt"], eq=bool(e), gt=got["gt"]), **fields)

    def run_relation_laws(self, rng, max_triples=0):
        """Reflexive / symmetric / transitive on the OBSERVED == (no model involved)."""
        rec = self.rec
        n = len(self.items)
        eqm = self.eqm
        for i in range(n):
            if eqm[i][i] is False and not is_nan(self.items[i][1].magnitude):
                rec.violation("not-reflexive", {"a": self.items[i][0]}, pool=self.name,
                              kinds=self.items[i][3], both_zero=False)
            for j in range(n):
                if eqm[i][j] is not None and eqm[j][i] is not None and eqm[i][j] != eqm[j][i]:
                    rec.violation("not-symmetric", {"a": self.items[i][0], "b": self.items[j][0]},
                                  pool=self.name, kinds="|".join(sorted((self.items[i][3], self.items[j][3]))),
                                  both_zero=False)
        idx = range(n)
        triples = itertools.product(idx, repeat=3)
        total = n ** 3
        if max_triples and total > max_triples:
            triples = ((rng.randrange(n), rng.randrange(n), rng.randrange(n)) for _ in range(max_triples))
        for i, j, k in triples:
            rec.count("transitivity_triples")
            if eqm[i][j] and eqm[j][k] and eqm[i][k] is False:
                ks = {self.items[i][3], self.items[j][3], self.items[k][3]}
                kinds = "|".join(sorted(ks))
                zero = all(self.items[t][1].magnitude == 0 for t in (i, j, k))
                rec.violation("not-transitive", {"a": self.items[i][0], "b": self.items[j][0],
                                                 "c": self.items[k][0]}, pool=self.name, kinds=kinds,
                              both_zero=bool(zero), delta_vs_offset={"delta", "offset"} <= ks)


def abs_gap(va, vb):
    try:
        a, b = float(va[0]), float(vb[0])
        return abs(a - b) / max(abs(a), abs(b), 1e-300)
    except Exception:  # noqa: BLE001
        return 1.0


def is_nan(x):
    return isinstance(x, float) and math.isnan(x)


def run_shard(spec, rec):
    from harness import pintload, refmodel as R, gen, qmodel
    import pint

    rng = random.Random(spec["seed"])
    m = R.default_model(pintload.REPO)
    names = [c for c in gen.canonical_units(m) if not m.tainted(c) and m.root(c)[0].v > 0]
    classes = gen.dimension_classes(m, names)
    kind = spec["kind"]
    ureg = pintload.registry(non_int_type=F if kind != "float" else float,
                             autoconvert_offset_to_baseunit=bool(spec.get("autoconvert")))
    Q = ureg.Quantity

    def mk(x, unit, pool, label_kind=None):
        q = Q(x, unit)
        mv = qmodel.root_value(m, F(x), {unit: 1}) if isinstance(unit, str) and " " not in unit and "*" not in unit and "/" not in unit \
            else qmodel.root_value(m, F(x), unit_dict(unit))
        k = label_kind or (qmodel.unit_kind(m, unit) if isinstance(unit, str) and unit.isidentifier() else "mult")
        pool.add(f"{x} {unit}", q, mv, k)

    def unit_dict(expr):
        # tiny renderer-inverse for the fixed compound strings used below
        v, d = R.evaluate(expr)
        assert v.v == 1
        return d

    if kind == "classes":
        cls = [v for v in classes.values() if len(v) >= 2]
        for ci, v in enumerate(cls):
            if ci % spec["parts"] != spec["part"]:
                continue
            units = v if len(v) <= spec["per_class"] else rng.sample(v, spec["per_class"])
            pool = Pool(f"class", rec, pint)
            x = F(rng.randint(1, 999), rng.choice((1, 7, 10, 64)))
            ref = units[0]
            for u in units:
                r = m.root(ref)[0].v / m.root(u)[0].v
                for val in (x * r, x * r * F(1001, 1000), F(0), -x * r):
                    mk(val, u, pool)
            pool.run_pairs(qmodel)
            pool.run_relation_laws(rng, 20000)
            rec.sample({"pool": "class", "units": units[:6], "x": str(x)})
    elif kind == "temperature":
        pool = Pool("temperature" + ("-autoconvert" if spec.get("autoconvert") else ""), rec, pint)
        targets = [F(0), F(1), F("233.15"), F("273.15"), F("373.15"), F("255.37")]
        for u in ("kelvin", "degree_Celsius", "degree_Fahrenheit", "degree_Reaumur", "degree_Rankine"):
            c = m.units[u]
            f = m.root(u)[0].v
            off = c["mods"]["offset"].v * f / c["scale"].v
            for T in targets:
                mk((T - off) / f, u, pool)
            mk(F(0), u, pool)
        for u in ("delta_degree_Celsius", "delta_degree_Fahrenheit", "delta_degree_Reaumur"):
            f = m.root(u[6:])[0].v
            for T in targets[:4]:
                mk(T / f, u, pool, "delta")
        pool.run_pairs(qmodel)
        pool.run_relation_laws(rng, spec["triples"])
        rec.sample({"pool": pool.name, "members": [it[0] for it in pool.items[:8]]})
    elif kind == "dimensionless":
        pool = Pool("dimensionless", rec, pint)
        for u in ("radian", "count", "bit", "percent", "ppm", "permille", "dimensionless", "degree",
                  "byte", "turn"):
            f = m.root(u)[0].v if u != "dimensionless" else F(1)
            for T in (F(0), F(1, 100), F(1), F(50)):
                if u == "dimensionless":
                    q = Q(T, "")
                    pool.add(f"{T} dimensionless", q, (T, {}, True), "dimensionless-root")
                else:
                    mk(T / f, u, pool, "dimensionless-root")
        pool.run_pairs(qmodel)
        pool.run_relation_laws(rng, 60000)
        # products that differ only by dimensionless root units
        groups = [("radian * meter", "meter", "count * meter"), ("count / second", "hertz", "becquerel", "1 / second"),
                  ("lumen", "candela", "candela * radian ** 2"), ("byte / second", "bit / second", "baud"),
                  ("radian / second", "hertz", "revolutions_per_minute")]
        for g in groups:
            pool = Pool("dimensionless-factor", rec, pint)
            for expr in g:
                d = unit_dict(expr)
                f = qmodel.scale_of(m, d)[0].v
                for T in (F(0), F(1), F(5, 2)):
                    q = Q(T / f, expr)
                    pool.add(f"{T / f} {expr}", q, qmodel.root_value(m, T / f, d), "mult")
            pool.run_pairs(qmodel)
            pool.run_relation_laws(rng, 20000)
        # bare numbers -------------------------------------------------------------------
        for u, val in (("", F(3)), ("percent", F(300)), ("radian", F(3)), ("meter", F(3)), ("meter", F(0)),
                       ("second", F(-2)), ("degree_Celsius", F(0)), ("degree_Celsius", F(3)),
                       ("kilometer", F(0))):
            q = Q(val, u)
            mv = qmodel.root_value(m, val, {u: 1} if u else {})
            dimless = not mv[1]
            for num in (0, 3, F(3), -2, 5):
                rec.count("bare_number_checks")
                rec.case(("bare", u, str(val), str(num)))
                fields = dict(pool="bare-number", kinds=qmodel.unit_kind(m, u) if u else "dimensionless",
                              both_zero=val == 0 and num == 0)
                w = {"q": f"{val} {u}", "number": repr(num)}
                res = {}
                for name, fn in (("eq", lambda: q == num), ("lt", lambda: q < num), ("gt", lambda: q > num),
                                 ("req", lambda: num == q)):
                    try:
                        res[name] = fn()
                    except Exception as ex:  # noqa: BLE001
                        res[name] = "raised:" + type(ex).__name__
                offset = fields["kinds"] == "offset"
                if dimless:
                    want = {"eq": mv[0] == num, "lt": mv[0] < num, "gt": mv[0] > num, "req": mv[0] == num}
                    if res != want:
                        rec.violation("bare-number-dimensionless", dict(w, got=str(res), want=str(want)), **fields)
                elif num == 0 and not offset:
                    want = {"eq": val == 0, "lt": val < 0, "gt": val > 0, "req": val == 0}
                    if res != want:
                        rec.violation("bare-zero", dict(w, got=str(res), want=str(want)), **fields)
                elif num == 0 and offset:
                    ok = all(isinstance(v, str) and "OffsetUnitCalculusError" in v for k, v in res.items()
                             if k in ("lt", "gt")) or (res["lt"] == (mv[0] < 0) and res["gt"] == (mv[0] > 0))
                    if not ok:
                        rec.violation("bare-zero-offset", dict(w, got=str(res)), **fields)
                else:
                    if res["eq"] is not False or res["req"] is not False:
                        rec.violation("bare-number-eq-accepted", dict(w, got=str(res)), **fields)
                    if not (isinstance(res["lt"], str) and isinstance(res["gt"], str)):
                        rec.violation("bare-number-order-accepted", dict(w, got=str(res)), **fields)
    elif kind == "cross":
        keys = list(classes)
        pool_units = [rng.choice(classes[k]) for k in keys]
        for i in range(spec["n"]):
            a, b = rng.sample(pool_units, 2)
            pool = Pool("cross", rec, pint)
            mk(F(rng.randint(-5, 5)), a, pool)
            mk(F(rng.randint(-5, 5)), b, pool)
            pool.eqm = [[None] * 2 for _ in range(2)]
            (la, qa, va, ka), (lb, qb, vb, kb) = pool.items
            pool.pair(0, 1, la, qa, va, ka, lb, qb, vb, kb, qmodel)
            if i % 1000 == 0:
                rec.sample({"pool": "cross", "a": la, "b": lb})
    elif kind == "cross-context":
        # the same demand with a context enabled that BRIDGES the two dimensions (sp: length / frequency /
        # energy / wavenumber, boltzmann: temperature / energy, energy: mass / energy)
        bridged = {"sp": ["nanometer", "micrometer", "angstrom", "terahertz", "hertz", "electron_volt", "joule",
                          "reciprocal_centimeter", "kayser"],
                   "boltzmann": ["kelvin", "electron_volt", "joule", "degree_Rankine"],
                   "energy": ["kilogram", "gram", "joule", "electron_volt", "atomic_mass_constant"]}
        keys = list(classes)
        pool_units = [rng.choice(classes[k]) for k in keys]
        for ctx, special in bridged.items():
            special = [u for u in special if u in m.units]
            with ureg.context(ctx):
                for i in range(spec["n"]):
                    a, b = rng.sample(special, 2) if i % 2 == 0 else (rng.choice(special), rng.choice(pool_units))
                    pool = Pool("cross-context", rec, pint)
                    pool.context_active = True
                    mk(F(rng.randint(-5, 5)), a, pool)
                    mk(F(rng.randint(1, 5)), b, pool)
                    pool.eqm = [[None] * 2 for _ in range(2)]
                    (la, qa, va, ka), (lb, qb, vb, kb) = pool.items
                    pool.pair(0, 1, la, qa, va, ka, lb, qb, vb, kb, qmodel)
                    if i % 500 == 0:
                        rec.sample({"pool": "cross-context", "context": ctx, "a": la, "b": lb})
    elif kind == "float":
        # float registry: model agreement away from ties, NaN behaviour
        cls = [v for v in classes.values() if len(v) >= 2]
        for i in range(spec["n"] // 10):
            v = rng.choice(cls)
            a, b = rng.sample(v, 2)
            pool = Pool("float", rec, pint, exact=False)
            x = rng.uniform(-1e3, 1e3)
            r = float(m.root(a)[0].v / m.root(b)[0].v)
            # no near-tie member: in floats a->b and b->a conversions round differently, the
            # statement only asks for order checks away from ties
            for val, u in ((x, a), (x * r * 1.01, b), (x * 0.97, a), (float("nan"), a), (0.0, b)):
                q = Q(val, u)
                mvv = qmodel.root_value(m, F(val), {u: 1}) if not math.isnan(val) else (float("nan"), m.root(u)[2], False)
                pool.add(f"{val!r} {u}", q, (float(mvv[0]), mvv[1], False), "mult")
            pool.run_pairs(qmodel)
            pool.run_relation_laws(rng, 200)
