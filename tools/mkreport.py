#!/usr/bin/env python3
"""Regenerates the generated part of DESIGN.md (between the BEGIN/END GENERATED markers):
fixed defects, recorded findings, own-mutant calibration, seeded changes."""
import glob, json, os, re
V = os.path.dirname(os.path.dirname(os.path.abspath(__file__)))
d = json.load(open(os.path.join(V, "known_findings.json")))
out = ["<!-- BEGIN GENERATED (tools/mkreport.py) -->", ""]
out += ["### 8.5 What each check observed in its last committed run (from evidence/*.json)", "",
        "| Property | Tier | Shards / hash seeds | Evaluations | Distinct non-trivial | Known findings re-observed | Wall s |",
        "|---|---|---|---|---|---|---|"]
for p in sorted(glob.glob(os.path.join(V, "evidence", "C*.json"))):
    e = json.load(open(p))
    c = e["coverage"]
    out.append(f"| {e['property_id']} | {e['tier']} | {c.get('shards')} / {len(c.get('hashseeds', []))} | {c['evaluations']} | "
               f"{c['distinct_nontrivial']} | {', '.join(sorted(c.get('known_findings_reobserved', {}))) or '-'} | {e['wall_s']} |")
out += [""]
out += ["### 9.1 Genuine defects repaired in /repo (one `fix:` commit each)", "",
        "Each was first reported by the named check on the then-current tree, reproduced by a few-line script,",
        "repaired minimally, and the repository's 2722 tests re-run. A fixed entry suppresses nothing.", "",
        "| Property | Commit | What failed |", "|---|---|---|"]
for f in d["fixed"]:
    m = re.match(r"fixed: property=(\S+) (\S+) (.*)", f)
    out.append(f"| {m.group(1)} | `{m.group(2)}` | {m.group(3).replace('|', '/')} |")
out += ["", "### 9.2 Genuine defects recorded, not repaired (`known_findings.json`)", "",
        "Matched on classifier fields (mechanism, function, kinds ...), never on random values; a violation whose",
        "fields match no entry is still a VIOLATION.", "", "| Property | Key | What fails | Why not repaired |", "|---|---|---|---|"]
for f in d["findings"]:
    out.append(f"| {f['property']} | {f['key']} | {f['what_fails'][:420].replace('|', '/')} | {f.get('disposition','')[:200].replace('|','/')} |")
res = os.path.join(V, "mutants", "results.json")
if os.path.exists(res):
    r = json.load(open(res))
    out += ["", "### 10.1 Own mutants (mutants/catalog.py) and which check caught them", "",
            "| Mutant | Breaks | What | Result |", "|---|---|---|---|"]
    for k, v in sorted(r.items()):
        if "error" in v:
            continue
        results = "; ".join(f"{pid}: {'CAUGHT ' + ','.join(x['mechanisms'][:3]) if x['caught'] else 'not caught (exit %s)' % x['exit']}"
                            for pid, x in v.items() if isinstance(x, dict) and "caught" in x)
        out.append(f"| {v['id']} | {v['property']} | {v['what']} | {results} |")
out += ["", "### 10.2 Changes seeded by independent sub-agents (seeded/)", "",
        "Each sub-agent saw only the property text and a scratch worktree; each change passes the repository's tests.", "",
        "| Id | Change | Needs | Detection |", "|---|---|---|---|"]
for p in sorted(glob.glob(os.path.join(V, "seeded", "*", "meta.json"))):
    m = json.load(open(p))
    out.append(f"| {os.path.basename(os.path.dirname(p))} | {str(m.get('summary',''))[:300].replace('|','/')} | "
               f"{str(m.get('needs',''))[:260].replace('|','/')} | {str(m.get('detected_by','(pending)'))[:300].replace('|','/')} |")
out += ["", "<!-- END GENERATED -->"]
path = os.path.join(V, "DESIGN.md")
s = open(path).read()
block = "\n".join(out)
if "<!-- BEGIN GENERATED" in s:
    s = re.sub(r"<!-- BEGIN GENERATED.*?<!-- END GENERATED -->", lambda m: block, s, flags=re.S)
else:
    s += "\n\n## 9-10. Defects, findings and calibration (generated from known_findings.json, mutants/results.json, seeded/)\n\n" + block + "\n"
open(path, "w").write(s)
print("DESIGN.md updated")
