#!/usr/bin/env python3
"""tools/mark_fixed.py PID KEY COMMIT  -- move a recorded finding to the `fixed` list (suppresses nothing)."""
import json, sys
pid, key, commit = sys.argv[1:4]
p = "/verif/known_findings.json"
d = json.load(open(p))
hit = [f for f in d["findings"] if f["property"] == pid and f["key"] == key]
assert len(hit) == 1, hit
f = hit[0]
d["findings"].remove(f)
d["fixed"].append(f"fixed: property={pid} {commit} {key}: {f['what_fails']}")
json.dump(d, open(p, "w"), indent=1, ensure_ascii=False)
print("moved", pid, key)
