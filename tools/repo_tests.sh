#!/bin/sh
# Fast repo test run: xdist, then re-run any failure serially (two tests in test_non_int.py are
# order-dependent under xdist already at the pinned snapshot; the serial baseline is authoritative).
cd /repo || exit 2
out=$(env -u PINT_VERIF /venv/bin/python -m pytest -q -p no:cacheprovider --timeout=900 -n 12 2>&1)
echo "$out" | tail -1
fails=$(echo "$out" | grep '^FAILED' | sed 's/^FAILED //; s/ - .*//')
[ -z "$fails" ] && exit 0
echo "re-running serially: $fails"
files=$(echo "$fails" | sed 's/::.*//' | sort -u)
env -u PINT_VERIF /venv/bin/python -m pytest -q -p no:cacheprovider --timeout=900 $files 2>&1 | tail -1
