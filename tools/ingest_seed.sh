#!/bin/bash
# tools/ingest_seed.sh <nn> <round> [check ...]   e.g. tools/ingest_seed.sh 07 4
# Takes a sub-agent's result from /tmp/wt_c<nn> (SEED_patch.diff, SEED_demo.py, SEED_meta.json):
# confirms the suite passes with the change, the demo passes without / fails with it (scratch copy of
# /repo's working tree), stores it as seeded/C<nn>-<round>/, removes the worktree, runs the check(s).
nn=$1; rnd=$2; shift 2
pid=C$nn; wt=/tmp/wt_c$nn; d=/verif/seeded/$pid-$rnd
[ -f $wt/SEED_patch.diff ] || { echo "no SEED_patch.diff in $wt"; exit 2; }
mkdir -p $d
cp $wt/SEED_patch.diff $d/patch.diff; cp $wt/SEED_demo.py $d/demo.py; cp $wt/SEED_meta.json $d/meta.json
echo "files: $(grep '^+++ ' $d/patch.diff | tr '\n' ' ')  changed lines: $(grep -c '^[-+][^-+]' $d/patch.diff)"
( cd $wt && git diff --quiet -- pint && echo "WARNING: worktree has no source change applied" )
t=$(cd $wt && env -u PINT_VERIF PYTHONPATH=$wt /venv/bin/python -m pytest -q -p no:cacheprovider --timeout=900 -n 6 pint 2>&1 | tail -1)
echo "suite with change: $t"
case "$t" in *failed*) ( cd $wt && env -u PINT_VERIF PYTHONPATH=$wt /venv/bin/python -m pytest -q -p no:cacheprovider pint/testsuite/test_non_int.py 2>&1 | tail -1 );; esac
w=$(mktemp -d /tmp/seedrepo.XXXXXX)
rsync -a --exclude .git --exclude '__pycache__' /repo/ "$w/"
( cd $w && PYTHONPATH=$w timeout 600 /venv/bin/python $d/demo.py >/dev/null 2>&1; echo "demo on unchanged tree: exit $?" )
if ( cd $w && git apply $d/patch.diff ); then
  ( cd $w && PYTHONPATH=$w timeout 600 /venv/bin/python $d/demo.py >/dev/null 2>&1; echo "demo on changed tree: exit $?" )
  checks="$*"; [ -z "$checks" ] && checks=$pid; for c in $checks; do
    ( cd /verif && PINT_REPO="$w" VERIF_NO_EVIDENCE=1 ./check $c 2>&1 | grep "^VIOLATION\|^  fields\|^$c\|^INCONC" | cut -c1-230 | head -7 )
  done
else
  echo "PATCH DOES NOT APPLY to /repo's current tree"
fi
rm -rf "$w"
git -C /repo worktree remove --force $wt && echo "worktree removed"
