#!/bin/sh
# tools/try_seed.sh <seed-dir with patch.diff> <PID> [tier]   -- apply to /repo, run the check, undo
d=$1; pid=$2; tier=${3:-quick}
cd /repo || exit 2
git diff --quiet || { echo "/repo has uncommitted changes"; exit 2; }
git apply "$d/patch.diff" || { echo "patch does not apply"; exit 2; }
cd /verif && VERIF_NO_EVIDENCE=1 ./check $pid --tier $tier 2>&1 | grep "^VIOLATION\|^  fields\|^$pid\|^INCONC" | cut -c1-260 | head -12
cd /repo && git checkout -- . && git status --short | head -3
